"""C20 — routines never corrupt caller data or touch memory outside their arrays.

Three streams of cases:
  index    : the Lean index-arithmetic model (row-major index, strided-view extent,
             padded cube corners) against NumPy's own addressing — the tie for the
             bounds theorems in Props/C20.lean;
  probe    : public routines called on C / Fortran / strided / reversed / read-only /
             singleton / empty inputs (harness/props/c20_probes.py): a caller-data
             mutation (unless documented in place) or an interpreter crash is a violation;
  delegate : the cases of every other property module (C01..C19), re-run with the
             input-immutability clause of their observations as the oracle;
  asan     : the C-kernel cases of the other modules re-run in a subprocess against
             clang ASan+UBSan builds of /repo's C sources (search aid for the memory half);
  kbatch   : C20's own boundary cases per kernel (harness/props/c20_kernels.py) on sentinel-padded
             buffers — write witness (guard words intact), read witness (result independent of the
             guard pattern), crash / hang isolation — with the Lean model built on the index / guard
             expressions regenerated from the C text (Gen/C20Kernels.lean) answering what is read
             and written; `san` batches repeat them under ASan+UBSan.
"""
from __future__ import annotations

import importlib
import json
import os
import random
import subprocess
import sys

import numpy as np

from harness.core import REPO, VERIF, PropertyCheck, TieBroken

OTHER = [f"C{n:02d}" for n in range(1, 20)]

# routines documented to work in place: (probe name, argument) -> quoted documentation
DOCUMENTED_INPLACE = {
}

# known findings (recorded in /verif/known_findings.json): probe name, mutated arg -> key
KNOWN = {
    ("_quantile.quantile+median", "X"): "quantile-pyx-inplace",
    ("labs.utils.routines", "x"): "routines-quantile-pyx-inplace",
}

def _present(pid):
    return os.path.exists(os.path.join(VERIF, "harness", "props", pid + ".py"))


class C20(PropertyCheck):
    id = "C20"
    title = "Routines never corrupt caller data or touch memory outside their arrays"
    lean_modules = ["NipyVerif.Props.C20", "NipyVerif.Props.C20B", "NipyVerif.Props.C20F",
                    "NipyVerif.Props.C20Q"]
    driver = "Drivers/C20.lean"
    rule = ("index cases: random shapes/strides/multi-indices (distinct by JSON, non-trivial = ndim >= 2 or a "
            "negative stride); probe cases: routine x size {6,1,0} x layout {C,F,strided,reversed,readonly,bigendian,"
            "ndarray subclass,memmap} x seed, every thunk attributed to the routine it calls (non-trivial = layout != C "
            "or size != 6); delegate cases: stratified sample of the cases of the other property modules (non-trivial as "
            "judged by the owning module); kbatch cases: batches of kernel boundary cases (mrf ve_step/interaction_energy/"
            "make_edges, joint_histogram, cubic-spline mirror/neighbours/sample/transform/resample, quantile, polyaffine, the "
            "fff_array iterator over transposed/strided/axis-skipping views: "
            "singleton and empty axes, masks on every face/edge/corner, coordinates at, just inside and just outside each "
            "bound, 1e300/inf/nan, NaN/inf/tied data, strided/reversed/Fortran layouts) on sentinel-padded buffers, each "
            "batch also under ASan+UBSan; guards cases: one per glue wrapper, every validated fact broken in turn; ivx cases: "
            "EC3d/Lips3d/EC2d/Lips2d run from the .pyx text (de-cythonised) on masks with axes in {0,1,2,3,4}, all-ones / random / "
            "zero, C / F / strided / read-only, every subscript of the padded mask recorded; cnb cases: Field over random edge "
            "lists (V in 1..6, 0..9 edges, self-loops and parallel edges), compact_neighb + the de-cythonised dilation with "
            "every subscript of idx / neighb / field recorded")
    assumptions = [
        "caller-data immutability is a clause of the refinement relation (the model is pure); it is checked on every "
        "generated case, not proved; a mutation is a violation unless the routine's docstring documents in-place "
        "behaviour (registry regenerated from the docstrings, Gen/C20Inplace.lean; decision proved in "
        "mutVerdict_violation_iff)",
        "memory safety, proved part: for the index / guard expressions re-emitted from the current C text "
        "(Gen/C20Kernels.lean: mrf.c _ngb_integrate / ve_step / interaction_energy / make_edges, joint_histogram.c inside "
        "test + padded offsets + histogram index, cubic_spline.c _mirrored_position / _mirror_grid_neighbors / sample "
        "offsets / pointer walks of _cubic_spline_transform1d, quantile.c order-statistic index, lib/fff/fff_array.c "
        "iterator increments and updaters) Lean proves 'guard passed => every address read or written is inside "
        "the array' for all dimensions, strides, positions; C integers are modelled as unbounded Int (no overflow), "
        "doubles as exact rationals (NaN/inf only through the searched stream)",
        "memory safety, proved part (wave 4, Props/C20F): frame theorems on the store side of the model — ve_step changes "
        "only the K entries of the rows of the voxels listed in XYZ (ve_step_frame, stores in bounds when the voxels are in "
        "the grid), the joint histogram changes only row i of H (jh_frame); the complete scan of a fff_array iterator "
        "(init_skip_axis, then the updater selected by ndims, `count` times) only dereferences elements of the array, for "
        "all dims >= 1, all byte offsets and any skipped axis (fff_scan_in_array); the axis normalisation of "
        "fffpy_multi_iterator_new; the padded-mask subscripts of intvol.pyx EC3d/Lips3d/EC2d/Lips2d and the idx / neighb / "
        "field subscripts of _graph.pyx::dilation over compact_neighb, on expressions regenerated from the .pyx / .py / .c "
        "text (Gen/C20Pyx.lean)",
        "intvol.pyx: that the offset tables d2/d3/d4 (built by cube_with_strides_center / join_complexes / _convert_stride*) "
        "only hold sums of a subset of the strides is not proved: it is tied by the `ivsub` / `ivall` correspondence (every "
        "recorded subscript must be one of the 8 (4) corners the model allows; EC3d/EC2d on an all-ones mask must read exactly "
        "their union); dilation: `edges < V` is the class invariant of Graph (checked by its constructor), a hypothesis of "
        "dilation_in_bounds",
        "memory safety, hypothesis part: the facts of `frontEndOnly` (Model/C20K.lean; e.g. XYZ rows inside the grid, "
        "ref/U/Tvox sizes, image intensities below the histogram clamps, padded image dims >= 2, dtype of the arrays "
        "given to _cspline_sample*/_joint_histogram, ngb_size in {6, 26} for the private _ve_step/_make_edges/"
        "_interaction_energy wrappers) are validated by no glue and hold only through the Python front ends; "
        "wrapper_guards_cover proves this list is exactly required \\ validated for the current glue text",
        "memory safety, searched part: that the compiled code computes those expressions is tied by correspondence on "
        "sentinel-padded buffers (write witness: guard words intact; read witness: result independent of the guard "
        "pattern) and searched with ASan/UBSan builds; polyaffine.c, the rest of lib/fff (vectors, matrices, BLAS/LAPACK wrappers) and the "
        "iterators of NumPy are covered by the searched part only",
        "memory safety, proved part (wave 6, Props/C20Q): the sentinel scans of the partition pass of quantile.c "
        "(_pth_element / _pth_interval; `while (*bufl < a) i++`, `while (*bufr > a) j--`, no bounds test in the C) are "
        "modelled as written (Model/C20Q scanUpRaw / scanDownRaw report whether every dereferenced index was inside the "
        "buffer), their tests and steps are regenerated from the C text (pth_scans_as_written), and under the invariant of "
        "every reachable pass (PInv of Lemmas/C16H, established by preamble_spec, preserved by partLoop_spec) they read "
        "only cells of the window [il, jr] and agree with the guarded C16 model (pth_pass_scans_in_window, "
        "pth_first_pass_scans_in_window, stores: pth_pass_swaps_in_window); the scans of lib/fff/fff_vector.c (_fff_pth_element / _fff_pth_interval) are regenerated too and proved " 
        "identical (fff_pth_scans_same_as_quantile); the partition protocol around them is compared with the C16 model, "
        "not translated",
        "extension modules built from .pyx cannot be rebuilt in this sandbox: probes through them exercise the "
        "installed binaries (stale w.r.t. edits of .pyx / lib/fff); plain C is rebuilt from /repo by harness/cshim.py "
        "and, for the static helpers of cubic_spline.c, by a shim of harness/props/c20_kernels.py",
    ]
    level_note = ("PARTIAL by nature. Proved (for all inputs): bounds of the index/guard expressions regenerated from the "
                  "C text of mrf.c, joint_histogram.c, cubic_spline.c (sampling path, 1-d filter walks), quantile.c (index "
                  "selection; the sentinel scans of every partition pass stay inside the window [il, jr]), fff_array.c (iterator invariant AND the whole scan: every dereferenced offset is an element of the "
                  "array), fffpy.c (negative axis), and from the .pyx text of intvol (padded-mask corners) and _graph.dilation "
                  "(over compact_neighb); frame theorems for ve_step (only the rows of XYZ change) and the joint histogram "
                  "(only row i of H changes); the generic row-major / strided-view / padded-corner arithmetic, the exactness of "
                  "the list of unvalidated preconditions, the mutation verdict. Hypotheses: the front-end-only preconditions, no "
                  "integer overflow, Graph's class invariant edges < V. Modelled and compared, no theorem: the contents of "
                  "intvol's offset tables d2/d3/d4 (Python set algebra over simplices; the tie is the recorded-subscript "
                  "correspondence). Searched only, and why: actual loads/stores of the compiled code (sentinel buffers, "
                  "ASan/UBSan — a statement about the compiler's output, not about the text); polyaffine.c; "
                  "hangs and crashes (isolated child processes); caller-data immutability of every routine (snapshots: a "
                  "quantifier over all public routines, only the verdict is a theorem); .pyx binaries (cannot be rebuilt).")

    # ------------------------------------------------------------------
    def translators(self):
        """index / guard expressions of the C kernels, regenerated from the current text"""
        from harness.props import c20_kern, c20_kernels
        from harness.props import c20_inplace
        from harness.props import c20_guards
        from harness.props import c20_pyx
        out = (c20_kern.translate(REPO, TieBroken) + c20_inplace.translate(REPO, TieBroken)
               + c20_guards.translate(REPO, TieBroken) + c20_pyx.translate(REPO, TieBroken))
        try:
            c20_kernels.prebuild()       # once, in the parent: workers / child runners then only dlopen
        except Exception as e:
            raise TieBroken(f"the C kernels of the tree under test do not build: {str(e)[-400:]}")
        return out

    # ------------------------------------------------------------------
    def generate(self, rng, tier):
        quick = tier == "quick"
        cases = []
        # wrapper-guard stream: every fact the glue text validates is broken in turn; the wrapper must refuse
        try:
            from harness.props import c20_guards
            for w in sorted({f[0] for f in c20_guards.scan(REPO)}):
                cases.append({"kind": "guards", "wrapper": w})
        except Exception:
            pass        # reported by translators() as a broken tie
        # kernel boundary stream (sentinel-padded buffers; `san`: the same cases under ASan+UBSan)
        nb, per = (12, 100) if quick else (150, 100)
        for b in range(nb):
            seed = rng.randrange(10 ** 9)
            cases.append({"kind": "kbatch", "seed": seed, "n": per, "san": False})
            if os.environ.get("VERIF_NO_ASAN") != "1":
                cases.append({"kind": "kbatch", "seed": seed, "n": per, "san": True})
        # .pyx index arithmetic: intvol kernels (text of the .pyx executed by the de-cythoniser, every subscript of the
        # padded mask recorded) and dilation over compact_neighb
        for _ in range(48 if quick else 600):
            fn = rng.choice(["EC3d", "EC3d", "Lips3d", "EC2d", "Lips2d"])
            nd = 3 if fn.endswith("3d") else 2
            shape = [rng.choice([0, 1, 1, 2, 2, 3, 4]) for _ in range(nd)]
            cases.append({"kind": "ivx", "fn": fn, "shape": shape, "mask": rng.choice(["ones", "ones", "random", "zeros"]),
                          "layout": rng.choice(["C", "F", "strided", "readonly"]), "seed": rng.randrange(10 ** 6)})
        for _ in range(40 if quick else 500):
            V = rng.choice([1, 2, 3, 4, 6])
            E = rng.choice([0, 1, 2, 5, 9])
            cases.append({"kind": "cnb", "V": V, "dim": rng.choice([1, 1, 2, 3]),
                          "edges": [[rng.randrange(V), rng.randrange(V)] for _ in range(E)],
                          "nbiter": rng.choice([1, 1, 2]), "seed": rng.randrange(10 ** 6)})
        # index stream
        for _ in range(150 if quick else 3000):
            nd = rng.choice([1, 2, 2, 3, 3, 4])
            shape = [rng.choice([1, 2, 3, 4, 5]) for _ in range(nd)]
            ok = rng.random() < 0.85
            idx = [rng.randrange(s) for s in shape]
            if not ok:
                k = rng.randrange(nd)
                idx[k] = shape[k] + rng.choice([0, 1, 3])
            cases.append({"kind": "ravel", "shape": shape, "idx": idx})
        for _ in range(150 if quick else 3000):
            nd = rng.choice([1, 2, 3, 4])
            base_shape = [rng.choice([2, 3, 4, 6]) for _ in range(nd)]
            steps = [rng.choice([1, 1, 2, -1, -2, 3]) for _ in range(nd)]
            perm = list(range(nd)); rng.shuffle(perm)
            cases.append({"kind": "view", "base_shape": base_shape, "steps": steps, "perm": perm,
                          "pick": rng.random()})
        for _ in range(60 if quick else 1000):
            s = [rng.choice([2, 3, 4, 5]) for _ in range(3)]
            cases.append({"kind": "corner", "s": s, "ijk": [rng.randrange(x - 1) for x in s],
                          "d": [rng.choice([0, 1]) for _ in range(3)]})
        # probe stream
        from harness.props import c20_probes as P
        for name, (_, sizes) in P.PROBES.items():
            for n in sizes:
                for layout in P.LAYOUTS:
                    for seed in range(1 if quick else 4):
                        cases.append({"kind": "probe", "probe": name, "n": n, "layout": layout,
                                      "seed": rng.randrange(10 ** 6) if seed else 1})
        # delegate stream
        per = 120 if quick else 1200
        for pid in OTHER:
            if not _present(pid):
                continue
            try:
                other = importlib.import_module(f"harness.props.{pid}").CHECK
                sub = list(other.generate(random.Random(rng.randrange(10 ** 9)), "quick"))
            except Exception:
                continue
            rng.shuffle(sub)
            for c in _stratified(sub, per):
                cases.append({"kind": "delegate", "pid": pid, "case": c})
        # sanitizer stream (C kernels rebuilt from /repo with clang ASan+UBSan)
        if os.environ.get("VERIF_NO_ASAN") != "1":
            for pid in OTHER:
                if _present(pid) and "cshim" in open(os.path.join(VERIF, "harness", "props", pid + ".py")).read():
                    cases.append({"kind": "asan", "pid": pid, "seed": rng.randrange(10 ** 6),
                                  "n": 60 if quick else 600})
        return _spread(cases)

    # ------------------------------------------------------------------
    def run_case(self, c):
        return getattr(self, "_" + c["kind"])(c)

    def _ravel(self, c):
        try:
            obs = str(int(np.ravel_multi_index(tuple(c["idx"]), tuple(c["shape"]))))
        except ValueError:
            obs = "error:valueError"
        line = f"ravel {len(c['shape'])} {' '.join(map(str, c['shape']))} {len(c['idx'])} {' '.join(map(str, c['idx']))}"
        return {"lines": [line], "impl": [obs], "oracle": None, "nontrivial": len(c["shape"]) >= 2,
                "tags": ["ravel", "in-shape" if not obs.startswith("error") else "out-of-shape"]}

    def _view(self, c):
        base = np.arange(int(np.prod(c["base_shape"])), dtype=np.int64).reshape(c["base_shape"])
        v = base[tuple(slice(None, None, s) for s in c["steps"])].transpose(c["perm"])
        it = base.itemsize
        off0 = (v.__array_interface__["data"][0] - base.__array_interface__["data"][0]) // it
        strides = [s // it for s in v.strides]
        lo, hi = np.lib.array_utils.byte_bounds(v)
        b0 = base.__array_interface__["data"][0]
        extent = f"{(lo - b0) // it} {(hi - b0) // it - 1}"
        idx = [int(c["pick"] * n) % n for n in v.shape]
        val = int(v[tuple(idx)])          # base is arange: the value *is* the element offset
        l1 = f"extent {off0} {len(v.shape)} {' '.join(map(str, v.shape))} {len(strides)} {' '.join(map(str, strides))}"
        l2 = f"offset {off0} {len(strides)} {' '.join(map(str, strides))} {len(idx)} {' '.join(map(str, idx))}"
        fail = None
        if not (0 <= (lo - b0) and (hi - b0) <= base.nbytes):
            fail = "NumPy view extent outside its base buffer (cannot happen)"
        return {"lines": [l1, l2], "impl": [extent, str(val)], "oracle": fail,
                "nontrivial": len(v.shape) >= 2 or any(s < 0 for s in strides),
                "tags": ["view", "neg-stride" if any(s < 0 for s in strides) else "pos-stride"]}

    def _corner(self, c):
        s, (i, j, k), (di, dj, dk) = c["s"], c["ijk"], c["d"]
        obs = int(np.ravel_multi_index((i + di, j + dj, k + dk), tuple(s)))
        # the same number from the strides intvol.pyx uses
        from nipy.utils.arrays import strides_from
        st = np.array(strides_from(s, np.bool_), dtype=np.intp)
        via = int(i * st[0] + j * st[1] + k * st[2] + di * st[0] + dj * st[1] + dk * st[2])
        fail = None if via == obs and obs < int(np.prod(s)) else "padded corner index differs from row-major index"
        line = "corner " + " ".join(map(str, s + [i, j, k, di, dj, dk]))
        return {"lines": [line], "impl": [str(via)], "oracle": fail, "nontrivial": True, "tags": ["corner"]}

    def _ivx(self, c):
        """an intvol kernel, run from the current text of the .pyx, with every subscript of `fpmask` recorded"""
        iv, rec = _intvol()
        shape = tuple(c["shape"])
        rs = np.random.RandomState(c["seed"])
        m0 = {"ones": np.ones(shape, np.uint8), "zeros": np.zeros(shape, np.uint8),
              "random": (rs.rand(*shape) < 0.6).astype(np.uint8)}[c["mask"]]
        if c["layout"] == "F":
            mask = np.asfortranarray(m0)
        elif c["layout"] == "strided":
            big = np.zeros(tuple(2 * s for s in shape), np.uint8)
            mask = big[tuple(slice(None, None, 2) for _ in shape)]
            mask[...] = m0
        else:
            mask = m0.copy()
        if c["layout"] == "readonly":
            mask.setflags(write=False)
        coords = np.indices(shape).astype(float)
        from harness.util import Snapshot
        snap = Snapshot(mask=mask, coords=coords)
        del rec[:]
        f = getattr(iv, c["fn"])
        exc = None
        try:
            f(mask) if c["fn"].startswith("EC") else f(coords, mask)
        except Exception as e:
            exc = type(e).__name__
        seen = sorted(set(rec))
        size = int(np.prod([s + 1 for s in shape]))
        fail = None
        if any(q < 0 or q >= size for q in seen):
            fail = (f"{c['fn']} on a mask of shape {shape}: subscripts {[q for q in seen if q < 0 or q >= size][:6]} of the padded "
                    f"flat mask (size {size}) are outside it (boundscheck is off in the compiled kernel)")
        if exc == "IndexError" and fail is None:       # NumPy's bounds check of the de-cythonised run: the compiled kernel has none
            fail = (f"{c['fn']} on a mask of shape {shape} forms a subscript beyond the padded flat mask (size {size}); "
                    f"boundscheck is off in the compiled kernel")
        mut = snap.changed()
        if mut and fail is None:
            fail = f"{c['fn']} modified its argument '{mut}'"
        ms = f"{len(shape)} {' '.join(map(str, shape))}"
        lines = [f"ivsub {ms} {len(seen)} {' '.join(map(str, seen))}".rstrip()]
        impl = ["subset"]
        if exc is None and c["mask"] == "ones" and c["fn"].startswith("EC"):
            lines.append(f"ivall {ms}")
            impl.append(" ".join(map(str, seen)))
        return {"lines": lines, "impl": impl, "oracle": fail, "mutated": mut if fail else None,
                "nontrivial": min(shape) >= 1, "tags": ["ivx", "ivx=" + c["fn"], "mask=" + c["mask"], "layout=" + c["layout"],
                                                        "empty-axis" if 0 in shape else "singleton-axis" if 1 in shape else "axes>1",
                                                        "refused:" + exc if exc else "accepted"]}

    def _cnb(self, c):
        """WeightedGraph.compact_neighb and the subscripts `_graph.pyx::dilation` (current text, de-cythonised) forms from it"""
        gp, rec = _graphpyx()
        from nipy.algorithms.graph.field import Field
        V, E = c["V"], len(c["edges"])
        rs = np.random.RandomState(c["seed"])
        edges = np.array(c["edges"], dtype=np.intp).reshape(E, 2)
        fld = rs.randint(-8, 9, size=(V, c["dim"])).astype(float)
        try:
            F = Field(V, edges, np.ones(E), fld.copy())
        except Exception as e:
            return {"lines": [], "impl": [], "oracle": None, "nontrivial": False, "tags": ["cnb", "cnb-refused:" + type(e).__name__]}
        from harness.util import Snapshot
        snap = Snapshot(edges=edges)
        fail, lines, impl = None, [], []
        if E > 0:
            idx, neighb, _ = F.compact_neighb()
            order = np.argsort(edges[:, 0], kind="stable")
            lines.append(f"cnb {V} {E} {' '.join(map(str, edges[order, 0]))} {E} {' '.join(map(str, neighb))}")
            impl.append(f"{' '.join(map(str, idx))} | ok {E}")
            del rec[:]
            data = np.ascontiguousarray(F.field.reshape(V, -1), dtype=float)
            try:
                for _ in range(c["nbiter"]):
                    gp.dilation(data, idx, neighb)
            except Exception as e:
                fail = f"_graph.dilation raised {type(e).__name__} on the arrays of compact_neighb: {e}"
            bad = [(nm, q) for nm, q, n in rec if q < 0 or q >= n]
            if bad and fail is None:
                fail = (f"_graph.dilation on V={V}, edges={c['edges']}: subscript {bad[0][1]} of `{bad[0][0]}` is outside the array "
                        f"(boundscheck is off in the compiled kernel)")
            # the value: max over the closed neighbourhood, iterated
            want = fld.copy()
            for _ in range(c["nbiter"]):
                nxt = want.copy()
                for a, b in c["edges"]:
                    nxt[a] = np.maximum(nxt[a], want[b])
                want = nxt
            if fail is None and not np.array_equal(data, want):
                fail = f"_graph.dilation on V={V}, edges={c['edges']} is not the neighbourhood maximum"
        mut = snap.changed()
        if mut and fail is None:
            fail = f"compact_neighb / dilation modified '{mut}'"
        return {"lines": lines, "impl": impl, "oracle": fail, "mutated": mut if fail else None, "nontrivial": E > 0,
                "tags": ["cnb", "edges=0" if E == 0 else "edges>0", "V=1" if V == 1 else "V>1", f"dim={c['dim']}"]}

    def _probe(self, c):
        from harness.props import c20_probes as P
        from harness.props import c20_inplace
        f, _ = P.PROBES[c["probe"]]
        try:
            out = f({"n": c["n"], "layout": c["layout"], "seed": c["seed"]})
        except P.Crash as e:
            return {"lines": [], "impl": [], "oracle": f"probe '{c['probe']}' (n={c['n']}, layout={c['layout']}): {e}",
                    "nontrivial": True, "tags": ["probe", "crash-isolated"]}
        finally:
            P._cleanup()         # scratch files of memory-mapped inputs
        mutated, exc = out[0], out[1]
        events = out[2] if len(out) > 2 else []
        notes = list(out[3]) if len(out) > 3 else []
        fail, lines, impl, doc = None, [], [], False
        for routine, ch in events:
            rname = (routine or "probe:" + c["probe"]).replace(" ", "_")
            known = c20_inplace.documented(REPO, rname)
            if routine:
                lines.append(f"mut {rname} {1 if ch else 0}")
                impl.append("unchanged" if not ch else "documented" if known else "violation")
            if ch and known:
                doc = True
            if ch and not known and (c["probe"], ch) not in DOCUMENTED_INPLACE and fail is None:
                fail = (f"probe '{c['probe']}' (n={c['n']}, layout={c['layout']}): caller argument '{ch}' was modified"
                        + (f" by {routine}, whose docstring does not document in-place behaviour" if routine else ""))
        tags = ["probe", "layout=" + c["layout"], "n=%d" % c["n"], "refused" if exc else "accepted"]
        if doc:
            tags.append("documented-inplace-mutation")
        tags += notes
        return {"lines": lines, "impl": impl, "oracle": fail, "mutated": mutated if fail else None,
                "nontrivial": c["layout"] != "C" or c["n"] != 6, "tags": tags}

    def _delegate(self, c):
        """the owning module's case, run in a forked child: memory corruption by compiled glue (or a crash) is then
        attributed to the case that caused it and cannot poison the other cases of this worker"""
        import pickle
        import select
        import time
        try:
            other = importlib.import_module(f"harness.props.{c['pid']}").CHECK
        except Exception as e:      # a harness problem of the owning module (e.g. mid-edit): its own check reports it
            return {"lines": [], "impl": [], "oracle": None, "nontrivial": False,
                    "tags": ["delegate", "delegate-unavailable=" + c["pid"], "delegate-exception:" + type(e).__name__]}
        if not _touches_compiled(c["pid"]):     # pure-Python modules cannot corrupt the worker: run in place
            try:
                r = other.run_case(c["case"])
            except Exception as e:
                return {"lines": [], "impl": [], "oracle": None, "nontrivial": False,
                        "tags": ["delegate", "delegate=" + c["pid"], "delegate-exception:" + type(e).__name__]}
            fail = None
            if r.get("mutated"):
                fail = f"{c['pid']} case: caller data '{r['mutated']}' was modified by the routine under test"
            return {"lines": [], "impl": [], "oracle": fail, "mutated": r.get("mutated"),
                    "nontrivial": bool(r.get("nontrivial", True)), "tags": ["delegate", "delegate=" + c["pid"]]}
        _warm()
        rd, wr = os.pipe()
        pid = os.fork()
        if pid == 0:
            code = 0
            try:
                os.close(rd)
                try:
                    r = other.run_case(c["case"])
                    out = {"mutated": r.get("mutated"), "nontrivial": bool(r.get("nontrivial", True))}
                except Exception as e:
                    out = {"exception": type(e).__name__}
                with os.fdopen(wr, "wb") as f:
                    pickle.dump(out, f)
            except BaseException:
                code = 3
            os._exit(code)
        os.close(wr)
        data, t0, hung = b"", time.time(), False
        while True:
            ready, _, _ = select.select([rd], [], [], 5.0)
            if ready:
                chunk = os.read(rd, 1 << 16)
                if not chunk:
                    break
                data += chunk
            elif time.time() - t0 > 600:
                hung = True
                os.kill(pid, 9)
                break
        os.close(rd)
        _, status = os.waitpid(pid, 0)
        tags = ["delegate", "delegate=" + c["pid"]]
        if hung or os.WIFSIGNALED(status):
            what = "hangs" if hung else f"crashes the interpreter (signal {os.WTERMSIG(status)})"
            return {"lines": [], "impl": [], "nontrivial": True, "tags": tags + ["delegate-crash"],
                    "oracle": f"{c['pid']} case {what}: the routine under test is run on an input its wrapper accepts"}
        try:
            r = pickle.loads(data)
        except Exception:
            r = {"exception": "no-result"}
        if "exception" in r:        # a harness problem of the owning module: its own check reports it
            return {"lines": [], "impl": [], "oracle": None, "nontrivial": False,
                    "tags": tags + ["delegate-exception:" + r["exception"]]}
        fail = None
        if r.get("mutated"):
            fail = f"{c['pid']} case: caller data '{r['mutated']}' was modified by the routine under test"
        return {"lines": [], "impl": [], "oracle": fail, "mutated": r.get("mutated"),
                "nontrivial": bool(r.get("nontrivial", True)), "tags": tags}

    def _guards(self, c):
        from harness.props import c20_guards
        lines, impl, fail = [], [], None
        for w, a, f in c20_guards.scan(REPO):
            if w != c["wrapper"]:
                continue
            obs = c20_guards.observe(w, a, f)
            if obs is None:
                continue
            lines.append(f"guard {w} {a} {f.replace(' ', '~')}")
            impl.append(obs)
            if obs != "validated" and fail is None:
                fail = (f"{w} accepts an argument `{a}` violating `{f}`, which its text validates before the C call: "
                        f"the compiled kernel then runs on an input it assumes away")
        return {"lines": lines, "impl": impl, "oracle": fail, "nontrivial": bool(lines),
                "tags": ["guards", "guards=" + c["wrapper"]]}

    def _kbatch(self, c):
        from harness.props import c20_kernels as K
        subs = c["subs"] if "subs" in c else K.gen_cases(c["seed"], c["n"])
        res = K.run_batch(subs, sanitize=bool(c.get("san")))
        lines, impl, tags, fail = [], [], ["kbatch-asan" if c.get("san") else "kbatch"], None
        for sub, r in zip(subs, res):
            if r.get("error"):
                raise RuntimeError("kernel runner: " + r["error"])
            if not c.get("san"):
                lines += r["lines"]; impl += r["impl"]
            tags += [t + ("@asan" if c.get("san") else "") for t in r["tags"]]
            if r["fail"] and fail is None:
                fail = f"{r['fail']} :: case {json.dumps(sub)[:600]}"
        return {"lines": lines, "impl": impl, "oracle": fail, "nontrivial": True, "tags": tags}

    def _asan(self, c):
        from harness import cshim
        env = cshim.asan_env()
        env["VERIF_SANITIZE"] = "1"
        env["PYTHONWARNINGS"] = "ignore"
        p = subprocess.run([sys.executable, "-m", "harness.asan_runner", c["pid"], str(c["seed"]), str(c["n"])],
                           cwd=VERIF, env=env, capture_output=True, text=True, timeout=3000)
        fail = None
        tags = ["asan", "asan=" + c["pid"]]
        if p.returncode != 0:
            last = [l for l in p.stdout.splitlines() if l.startswith("CASE ")]
            rep = [l for l in p.stderr.splitlines() if "ERROR: AddressSanitizer" in l or "runtime error" in l
                   or "SUMMARY" in l]
            if rep or p.returncode < 0:
                fail = (f"sanitizer/crash in {c['pid']} C-kernel cases: {' | '.join(rep[:3]) or 'signal ' + str(-p.returncode)}"
                        f" :: last case {last[-1][5:300] if last else '?'}")
            else:
                tags.append("asan-runner-error")
        done = [l for l in p.stdout.splitlines() if l.startswith("DONE ")]
        if done:
            tags.append("asan-cases-run")
        return {"lines": [], "impl": [], "oracle": fail, "nontrivial": True, "tags": tags,
                "asan_cases": int(done[-1].split()[1]) if done else 0}

    # ------------------------------------------------------------------
    def compare(self, case, impl_obs, model_out):
        if model_out.strip() == "unspecified":      # the text makes no promise here (quantile.c on NaN without a scan)
            return None
        return None if str(impl_obs).strip() == model_out.strip() else f"impl={impl_obs} model={model_out}"

    def shrink(self, case):
        if case.get("kind") == "kbatch":
            from harness.props import c20_kernels as K
            subs = case["subs"] if "subs" in case else K.gen_cases(case["seed"], case["n"])
            san = bool(case.get("san"))
            if len(subs) > 1:
                for sub in subs[:64]:
                    yield {"kind": "kbatch", "subs": [sub], "san": san}
            elif len(subs) == 1:
                sub = subs[0]
                for key in ("vox", "pts", "xs", "nb", "I"):
                    lst = sub.get(key)
                    if isinstance(lst, list) and len(lst) > 1 and not (key in ("pts", "I") and sub["k"] == "jh"):
                        for part in (lst[:len(lst) // 2], lst[len(lst) // 2:]) + tuple([x] for x in lst[:8]):
                            yield {"kind": "kbatch", "subs": [dict(sub, **{key: part})], "san": san}
                if sub["k"] == "jh" and len(sub["pts"]) > 1:
                    for k in range(len(sub["pts"])):
                        yield {"kind": "kbatch", "san": san,
                               "subs": [dict(sub, pts=[sub["pts"][k]], I=[0 if sub["I"][k] >= 0 else -1])]}
        return

    def classify(self, case, failure):
        if case.get("kind") == "probe":
            for (probe, arg), key in KNOWN.items():
                if case["probe"] == probe and f"'{arg}'" in failure:
                    return key
        if case.get("kind") == "delegate" and "was modified" in failure:
            # the owning module names the routine in its `mutated` field
            if "routines" in failure and ("quantile" in failure or "median" in failure):
                return "routines-quantile-pyx-inplace"
            if "_quantile" in failure or "_median" in failure:
                return "quantile-pyx-inplace"
        return None

    def key_of(self, case):
        return json.dumps(case, sort_keys=True, default=str)


_PYX = {}


class _Recorder:
    pass


def _rec_module(rel, names):
    """the de-cythonised module of `rel` whose typed buffers `names` record every scalar subscript"""
    if rel not in _PYX:
        import harness.decython as D
        mod = D.load_pyx(rel)
        rec = []
        orig = mod._cbuf

        def make(nm):
            class Rec(D._CBuf):
                def __getitem__(self, i):
                    if isinstance(i, (int, np.integer)):
                        rec.append(int(i) if names == ("fpmask",) else (nm, int(i), self.shape[0]))
                    elif isinstance(i, tuple) and i and isinstance(i[0], (int, np.integer)):
                        rec.append((nm, int(i[0]), self.shape[0]))
                    return super().__getitem__(i)
            return Rec
        classes = {nm: make(nm) for nm in names}

        def cbuf(v, dtype, ndim, name="buffer"):
            r = orig(v, dtype, ndim, name)
            return r.view(classes[name]) if (name in classes and r is not None) else r
        mod._cbuf = cbuf
        _PYX[rel] = (mod, rec)
    return _PYX[rel]


def _intvol():
    return _rec_module("nipy/algorithms/statistics/intvol.pyx", ("fpmask",))


def _graphpyx():
    return _rec_module("nipy/algorithms/graph/_graph.pyx", ("idx", "neighb", "field"))


_COMPILED = {}
_MARKERS = ("nipy.labs", "cshim", "_quantile", "_registration", "_segmentation", "intvol", "_graph", "decython", "ctypes",
            "histogram import")


def _touches_compiled(pid):
    """does the owning module drive compiled nipy code (extension modules, re-compiled C, de-cythonised pyx)?"""
    if pid not in _COMPILED:
        import glob
        txt = ""
        for f in [os.path.join(VERIF, "harness", "props", pid + ".py")] + \
                glob.glob(os.path.join(VERIF, "harness", "props", pid.lower() + "_*.py")):
            try:
                txt += open(f).read()
            except OSError:
                pass
        _COMPILED[pid] = any(m in txt for m in _MARKERS)
    return _COMPILED[pid]


_WARM = []


def _warm():
    """import nipy and its sub-modules once per worker, so that the forked children do not each pay for it"""
    if _WARM:
        return
    _WARM.append(1)
    import pkgutil
    import warnings
    try:
        import nipy
        with warnings.catch_warnings():
            warnings.simplefilter("ignore")
            for m in pkgutil.walk_packages(nipy.__path__, "nipy."):
                if ".tests" in m.name or ".benchmarks" in m.name or "viz" in m.name or ".externals" in m.name \
                        or "conftest" in m.name or ".testing" in m.name:
                    continue
                try:
                    importlib.import_module(m.name)
                except BaseException:
                    pass
    except BaseException:
        pass


def _spread(cases, gap=33):
    """the worker pool hands out chunks of up to 32 consecutive cases: long-running cases (child processes) are
    placed one per chunk, longest first, instead of piling up in one worker"""
    heavy = [c for c in cases if c["kind"] in ("kbatch", "asan")]
    heavy.sort(key=lambda c: (not c.get("san"), c["kind"] != "asan"))
    light = [c for c in cases if c["kind"] not in ("kbatch", "asan")]
    out, k = [], 0
    for i, c in enumerate(light):
        if i % gap == 0 and k < len(heavy):
            out.append(heavy[k]); k += 1
        out.append(c)
    return out + heavy[k:]


def _stratum(c):
    """coarse class of a delegated case: its kind and the small discrete options it carries (which routine, which
    way of presenting the inputs, which optional flags), so that rarely generated combinations are sampled too"""
    if not isinstance(c, dict):
        return "?"
    parts = []
    for k in sorted(c):
        v = c[k]
        if k in ("seed", "n", "V", "shape", "T", "K"):
            continue
        if isinstance(v, bool) or v is None or (isinstance(v, str) and len(v) <= 24):
            parts.append(f"{k}={v}")
        elif isinstance(v, int) and k in ("n",):
            parts.append(f"{k}={min(v, 2)}")
    return "|".join(parts)


def _stratified(cases, per):
    """`per` cases taken round-robin over the case kinds and, within a kind, round-robin over its strata (kinds and
    strata in the order of their first appearance in the shuffled list, cases in the shuffled order within each)"""
    kinds = {}
    for c in cases:
        kd = c.get("kind", "?") if isinstance(c, dict) else "?"
        kinds.setdefault(kd, {}).setdefault(_stratum(c), []).append(c)
    state = {kd: [list(g.keys()), 0] for kd, g in kinds.items()}
    out, order, k = [], list(kinds), 0
    left = sum(len(v) for g in kinds.values() for v in g.values())
    while len(out) < per and left:
        kd = order[k % len(order)]
        k += 1
        keys, pos = state[kd]
        for _ in range(len(keys)):            # next non-empty stratum of this kind
            g = kinds[kd][keys[pos % len(keys)]]
            pos += 1
            if g:
                out.append(g.pop(0))
                left -= 1
                break
        state[kd][1] = pos
    return out


CHECK = C20()
