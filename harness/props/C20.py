"""C20 — routines never corrupt caller data or touch memory outside their arrays.

Three streams of cases:
  index    : the Lean index-arithmetic model (row-major index, strided-view extent,
             padded cube corners) against NumPy's own addressing — the tie for the
             bounds theorems in Props/C20.lean;
  probe    : public routines called on C / Fortran / strided / reversed / read-only /
             singleton / empty inputs (harness/props/c20_probes.py): a caller-data
             mutation (unless documented in place) or an interpreter crash is a violation;
  delegate : the cases of every other property module (C01..C19), re-run with the
             input-immutability clause of their observations as the oracle;
  asan     : the C-kernel cases of the other modules re-run in a subprocess against
             clang ASan+UBSan builds of /repo's C sources (search aid for the memory half).
"""
from __future__ import annotations

import importlib
import json
import os
import random
import subprocess
import sys

import numpy as np

from harness.core import VERIF, PropertyCheck

OTHER = [f"C{n:02d}" for n in range(1, 20)]

# routines documented to work in place: (probe name, argument) -> quoted documentation
DOCUMENTED_INPLACE = {
}

# known findings (recorded in /verif/known_findings.json): probe name, mutated arg -> key
KNOWN = {
    ("_quantile.quantile+median", "X"): "quantile-pyx-inplace",
    ("labs.utils.routines", "x"): "routines-quantile-pyx-inplace",
}


def _present(pid):
    return os.path.exists(os.path.join(VERIF, "harness", "props", pid + ".py"))


class C20(PropertyCheck):
    id = "C20"
    title = "Routines never corrupt caller data or touch memory outside their arrays"
    lean_modules = ["NipyVerif.Props.C20"]
    driver = "Drivers/C20.lean"
    rule = ("index cases: random shapes/strides/multi-indices (distinct by JSON, non-trivial = ndim >= 2 or a "
            "negative stride); probe cases: routine x size {6,1,0} x layout {C,F,strided,reversed,readonly} x seed "
            "(non-trivial = layout != C or size != 6); delegate cases: sampled cases of the other property modules "
            "(non-trivial as judged by the owning module)")
    assumptions = [
        "caller-data immutability is a clause of the refinement relation (the model is pure); it is checked on every "
        "generated case, not proved",
        "memory safety: Lean proves the modelled index expressions stay inside the arrays; that the compiled code "
        "computes those expressions is tied by correspondence and searched with ASan/UBSan builds (not a proof)",
        "extension modules built from .pyx cannot be rebuilt in this sandbox: probes through them exercise the "
        "installed binaries (stale w.r.t. edits of .pyx / lib/fff); plain C is rebuilt from /repo by harness/cshim.py",
    ]
    level_note = ("PARTIAL by nature: the runtime half (allocator, actual loads/stores of the compiled code, interpreter "
                  "crashes) cannot be exhibited by a model; it is searched (sanitizers, crash isolation), not proved.")

    # ------------------------------------------------------------------
    def generate(self, rng, tier):
        quick = tier == "quick"
        cases = []
        # index stream
        for _ in range(150 if quick else 3000):
            nd = rng.choice([1, 2, 2, 3, 3, 4])
            shape = [rng.choice([1, 2, 3, 4, 5]) for _ in range(nd)]
            ok = rng.random() < 0.85
            idx = [rng.randrange(s) for s in shape]
            if not ok:
                k = rng.randrange(nd)
                idx[k] = shape[k] + rng.choice([0, 1, 3])
            cases.append({"kind": "ravel", "shape": shape, "idx": idx})
        for _ in range(150 if quick else 3000):
            nd = rng.choice([1, 2, 3, 4])
            base_shape = [rng.choice([2, 3, 4, 6]) for _ in range(nd)]
            steps = [rng.choice([1, 1, 2, -1, -2, 3]) for _ in range(nd)]
            perm = list(range(nd)); rng.shuffle(perm)
            cases.append({"kind": "view", "base_shape": base_shape, "steps": steps, "perm": perm,
                          "pick": rng.random()})
        for _ in range(60 if quick else 1000):
            s = [rng.choice([2, 3, 4, 5]) for _ in range(3)]
            cases.append({"kind": "corner", "s": s, "ijk": [rng.randrange(x - 1) for x in s],
                          "d": [rng.choice([0, 1]) for _ in range(3)]})
        # probe stream
        from harness.props import c20_probes as P
        for name, (_, sizes) in P.PROBES.items():
            for n in sizes:
                for layout in P.LAYOUTS:
                    for seed in range(1 if quick else 4):
                        cases.append({"kind": "probe", "probe": name, "n": n, "layout": layout,
                                      "seed": rng.randrange(10 ** 6) if seed else 1})
        # delegate stream
        per = 120 if quick else 1200
        for pid in OTHER:
            if not _present(pid):
                continue
            try:
                other = importlib.import_module(f"harness.props.{pid}").CHECK
                sub = list(other.generate(random.Random(rng.randrange(10 ** 9)), "quick"))
            except Exception:
                continue
            rng.shuffle(sub)
            for c in _stratified(sub, per):
                cases.append({"kind": "delegate", "pid": pid, "case": c})
        # sanitizer stream (C kernels rebuilt from /repo with clang ASan+UBSan)
        if os.environ.get("VERIF_NO_ASAN") != "1":
            for pid in OTHER:
                if _present(pid) and "cshim" in open(os.path.join(VERIF, "harness", "props", pid + ".py")).read():
                    cases.append({"kind": "asan", "pid": pid, "seed": rng.randrange(10 ** 6),
                                  "n": 60 if quick else 600})
        return cases

    # ------------------------------------------------------------------
    def run_case(self, c):
        return getattr(self, "_" + c["kind"])(c)

    def _ravel(self, c):
        try:
            obs = str(int(np.ravel_multi_index(tuple(c["idx"]), tuple(c["shape"]))))
        except ValueError:
            obs = "error:valueError"
        line = f"ravel {len(c['shape'])} {' '.join(map(str, c['shape']))} {len(c['idx'])} {' '.join(map(str, c['idx']))}"
        return {"lines": [line], "impl": [obs], "oracle": None, "nontrivial": len(c["shape"]) >= 2,
                "tags": ["ravel", "in-shape" if not obs.startswith("error") else "out-of-shape"]}

    def _view(self, c):
        base = np.arange(int(np.prod(c["base_shape"])), dtype=np.int64).reshape(c["base_shape"])
        v = base[tuple(slice(None, None, s) for s in c["steps"])].transpose(c["perm"])
        it = base.itemsize
        off0 = (v.__array_interface__["data"][0] - base.__array_interface__["data"][0]) // it
        strides = [s // it for s in v.strides]
        lo, hi = np.lib.array_utils.byte_bounds(v)
        b0 = base.__array_interface__["data"][0]
        extent = f"{(lo - b0) // it} {(hi - b0) // it - 1}"
        idx = [int(c["pick"] * n) % n for n in v.shape]
        val = int(v[tuple(idx)])          # base is arange: the value *is* the element offset
        l1 = f"extent {off0} {len(v.shape)} {' '.join(map(str, v.shape))} {len(strides)} {' '.join(map(str, strides))}"
        l2 = f"offset {off0} {len(strides)} {' '.join(map(str, strides))} {len(idx)} {' '.join(map(str, idx))}"
        fail = None
        if not (0 <= (lo - b0) and (hi - b0) <= base.nbytes):
            fail = "NumPy view extent outside its base buffer (cannot happen)"
        return {"lines": [l1, l2], "impl": [extent, str(val)], "oracle": fail,
                "nontrivial": len(v.shape) >= 2 or any(s < 0 for s in strides),
                "tags": ["view", "neg-stride" if any(s < 0 for s in strides) else "pos-stride"]}

    def _corner(self, c):
        s, (i, j, k), (di, dj, dk) = c["s"], c["ijk"], c["d"]
        obs = int(np.ravel_multi_index((i + di, j + dj, k + dk), tuple(s)))
        # the same number from the strides intvol.pyx uses
        from nipy.utils.arrays import strides_from
        st = np.array(strides_from(s, np.bool_), dtype=np.intp)
        via = int(i * st[0] + j * st[1] + k * st[2] + di * st[0] + dj * st[1] + dk * st[2])
        fail = None if via == obs and obs < int(np.prod(s)) else "padded corner index differs from row-major index"
        line = "corner " + " ".join(map(str, s + [i, j, k, di, dj, dk]))
        return {"lines": [line], "impl": [str(via)], "oracle": fail, "nontrivial": True, "tags": ["corner"]}

    def _probe(self, c):
        from harness.props import c20_probes as P
        f, _ = P.PROBES[c["probe"]]
        mutated, exc = f({"n": c["n"], "layout": c["layout"], "seed": c["seed"]})
        fail = None
        if mutated is not None and (c["probe"], mutated) not in DOCUMENTED_INPLACE:
            fail = (f"probe '{c['probe']}' (n={c['n']}, layout={c['layout']}): caller argument '{mutated}' "
                    f"was modified")
        tags = ["probe", "layout=" + c["layout"], "n=%d" % c["n"], "refused" if exc else "accepted"]
        return {"lines": [], "impl": [], "oracle": fail, "mutated": mutated,
                "nontrivial": c["layout"] != "C" or c["n"] != 6, "tags": tags}

    def _delegate(self, c):
        other = importlib.import_module(f"harness.props.{c['pid']}").CHECK
        r = other.run_case(c["case"])
        fail = None
        if r.get("mutated"):
            fail = f"{c['pid']} case: caller data '{r['mutated']}' was modified by the routine under test"
        return {"lines": [], "impl": [], "oracle": fail, "mutated": r.get("mutated"),
                "nontrivial": bool(r.get("nontrivial", True)),
                "tags": ["delegate", "delegate=" + c["pid"]]}

    def _asan(self, c):
        from harness import cshim
        env = cshim.asan_env()
        env["VERIF_SANITIZE"] = "1"
        env["PYTHONWARNINGS"] = "ignore"
        p = subprocess.run([sys.executable, "-m", "harness.asan_runner", c["pid"], str(c["seed"]), str(c["n"])],
                           cwd=VERIF, env=env, capture_output=True, text=True, timeout=3000)
        fail = None
        tags = ["asan", "asan=" + c["pid"]]
        if p.returncode != 0:
            last = [l for l in p.stdout.splitlines() if l.startswith("CASE ")]
            rep = [l for l in p.stderr.splitlines() if "ERROR: AddressSanitizer" in l or "runtime error" in l
                   or "SUMMARY" in l]
            if rep or p.returncode < 0:
                fail = (f"sanitizer/crash in {c['pid']} C-kernel cases: {' | '.join(rep[:3]) or 'signal ' + str(-p.returncode)}"
                        f" :: last case {last[-1][5:300] if last else '?'}")
            else:
                tags.append("asan-runner-error")
        done = [l for l in p.stdout.splitlines() if l.startswith("DONE ")]
        if done:
            tags.append("asan-cases-run")
        return {"lines": [], "impl": [], "oracle": fail, "nontrivial": True, "tags": tags,
                "asan_cases": int(done[-1].split()[1]) if done else 0}

    # ------------------------------------------------------------------
    def compare(self, case, impl_obs, model_out):
        return None if str(impl_obs) == model_out else f"impl={impl_obs} model={model_out}"

    def shrink(self, case):
        return []

    def classify(self, case, failure):
        if case.get("kind") == "probe":
            for (probe, arg), key in KNOWN.items():
                if case["probe"] == probe and f"'{arg}'" in failure:
                    return key
        if case.get("kind") == "delegate" and "was modified" in failure:
            # the owning module names the routine in its `mutated` field
            if "routines" in failure and ("quantile" in failure or "median" in failure):
                return "routines-quantile-pyx-inplace"
            if "_quantile" in failure or "_median" in failure:
                return "quantile-pyx-inplace"
        return None

    def key_of(self, case):
        return json.dumps(case, sort_keys=True, default=str)


def _stratum(c):
    """coarse class of a delegated case: its kind and the small discrete options it carries (which routine, which
    way of presenting the inputs, which optional flags), so that rarely generated combinations are sampled too"""
    if not isinstance(c, dict):
        return "?"
    parts = []
    for k in sorted(c):
        v = c[k]
        if k in ("seed", "n", "V", "shape", "T", "K"):
            continue
        if isinstance(v, bool) or v is None or (isinstance(v, str) and len(v) <= 24):
            parts.append(f"{k}={v}")
        elif isinstance(v, int) and k in ("n",):
            parts.append(f"{k}={min(v, 2)}")
    return "|".join(parts)


def _stratified(cases, per):
    """`per` cases taken round-robin over the strata (in the shuffled order within each)"""
    groups = {}
    for c in cases:
        groups.setdefault(_stratum(c), []).append(c)
    out, k = [], 0
    keys = sorted(groups)
    while len(out) < per and any(groups.values()):
        g = groups[keys[k % len(keys)]]
        if g:
            out.append(g.pop(0))
        k += 1
    return out


CHECK = C20()
