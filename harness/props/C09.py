"""C09 — joint histograms and similarity measures match their definitions.

Correspondence (Lean model `NipyVerif.C09` vs the real code):
  * C level, through the kernel re-compiled from /repo (`cshim.load("registration")`):
    `joint_histogram` (PV / TRI / RAND with the real Wichmann-Hill draws), `L1_moments`,
    `prng_double`;
  * Python level: `clamp`, `_slicer` / `subgrid_affine` of `set_fov`, every
    `SimilarityMeasure` subclass, `HistogramRegistration._eval` / `eval` (with the compiled
    `_joint_histogram` / `_L1_moments` entry points replaced by glue over the re-compiled C;
    the `.pyx` glue itself is fingerprinted).
Oracle: the property's clauses evaluated on the real code against an independent
reference (definition of the interpolation schemes, textbook formulas, mass conservation,
guard bands around the histogram, diagonal self-registration, optimise does not decrease).
"""
from __future__ import annotations

import ctypes
import hashlib
import math
import os
import re
import warnings
from fractions import Fraction

import numpy as np

from harness.core import PropertyCheck, TieBroken, REPO
from harness.util import Snapshot, close, errname, fr, frs, parse_rats, plist, pmat
from harness.props import c09_opt as XO
from harness.props import c09_api as XA
from harness.props import c09_kern as XK
from harness.props import c09_translate as XT

TINY = float(np.finfo(np.double).tiny)
GUARD = 33000          # doubles on each side of H: covers any signed-short stale index
MODES = {"pv": 0, "tri": 1, "rand": -1}
MEASURES = ["cc", "cr", "crl1", "mi", "nmi", "slr", "pmi", "dpmi"]
# sha1 of the two glue functions of _registration.pyx the installed .so was built from
PYX_GLUE_SHA = None  # filled lazily from the pinned text below

PYX_GLUE_EXPECT = (
    "ret = joint_histogram(H, clampI, clampJ, iterI, imJ, Tvox, interp)",
    "clampI = <unsigned int>H.shape[0]",
    "clampJ = <unsigned int>H.shape[1]",
    "ret = L1_moments(n, median, dev, H)",
    "return n[0], median[0], dev[0]",
)


class PS(ctypes.Structure):
    _fields_ = [("ix", ctypes.c_int), ("iy", ctypes.c_int), ("iz", ctypes.c_int), ("it", ctypes.c_int)]


_LIB = None


def lib():
    global _LIB
    if _LIB is None:
        from harness import cshim
        L = cshim.load("registration")
        L.joint_histogram.restype = ctypes.c_int
        L.joint_histogram.argtypes = [ctypes.py_object, ctypes.c_uint, ctypes.c_uint, ctypes.py_object,
                                      ctypes.py_object, ctypes.py_object, ctypes.c_long]
        L.L1_moments.restype = ctypes.c_int
        L.L1_moments.argtypes = [ctypes.POINTER(ctypes.c_double)] * 3 + [ctypes.py_object]
        L.prng_seed.restype = None
        L.prng_seed.argtypes = [ctypes.c_int, ctypes.POINTER(PS)]
        L.prng_double.restype = ctypes.c_double
        L.prng_double.argtypes = [ctypes.POINTER(PS)]
        _LIB = L
    return _LIB


def shim_joint_histogram(H, iterI, imJ, Tvox, interp):
    """the glue of `_registration.pyx::_joint_histogram` over the re-compiled kernel"""
    if not (isinstance(H, np.ndarray) and isinstance(iterI, np.flatiter) and
            isinstance(imJ, np.ndarray) and isinstance(Tvox, np.ndarray)):
        raise TypeError("Argument has incorrect type")
    ret = lib().joint_histogram(H, H.shape[0], H.shape[1], iterI, imJ, Tvox, int(interp))
    if ret != 0:
        raise RuntimeError("Joint histogram failed because of incorrect input arrays.")


def shim_L1_moments(H):
    a, b, c = ctypes.c_double(), ctypes.c_double(), ctypes.c_double()
    ret = lib().L1_moments(ctypes.byref(a), ctypes.byref(b), ctypes.byref(c), H)
    if ret != 0:
        raise RuntimeError("L1_moments failed because input array is not double.")
    return a.value, b.value, c.value


def forked(fn):
    """run fn() in a forked child (a stale read in the kernel can segfault); ("ok", value) or ("crash", signal)"""
    import pickle
    r, w = os.pipe()
    pid = os.fork()
    if pid == 0:
        code = 0
        try:
            os.close(r)
            try:
                out = ("ok", fn())
            except BaseException as e:      # noqa
                out = ("exc", f"{type(e).__name__}: {e}")
            with os.fdopen(w, "wb") as f:
                pickle.dump(out, f)
        except BaseException:
            code = 3
        os._exit(code)
    os.close(w)
    with os.fdopen(r, "rb") as f:
        data = f.read()
    _, status = os.waitpid(pid, 0)
    if os.WIFSIGNALED(status):
        return ("crash", os.WTERMSIG(status))
    try:
        return pickle.loads(data)
    except Exception:
        return ("crash", -1)


def guarded_hist(ci, cj):
    big = np.zeros(2 * GUARD + ci * cj)
    return big, big[GUARD:GUARD + ci * cj].reshape(ci, cj)


def guard_touched(big, n):
    return bool(np.any(big[:GUARD] != 0) or np.any(big[GUARD + n:] != 0))


def draws_for(seed, n):
    s = PS()
    lib().prng_seed(int(seed), ctypes.byref(s))
    st = (s.ix, s.iy, s.iz, s.it)
    return st, [lib().prng_double(ctypes.byref(s)) for _ in range(n)]


# ----------------------------------------------------------------------
# independent reference: the documented interpolation schemes
# ----------------------------------------------------------------------
def ref_candidates(tgt, coords):
    """in-grid, unmasked trilinear neighbours of a point: list of (intensity, weight)"""
    d = tgt.shape
    f = [math.floor(c) for c in coords]
    r = [Fraction(c) - fl for c, fl in zip(coords, f)]
    out = []
    for a in (0, 1):
        for b in (0, 1):
            for c in (0, 1):
                p = (f[0] + a, f[1] + b, f[2] + c)
                w = (r[0] if a else 1 - r[0]) * (r[1] if b else 1 - r[1]) * (r[2] if c else 1 - r[2])
                if all(0 <= p[k] < d[k] for k in range(3)) and tgt[p] >= 0:
                    out.append((int(tgt[p]), w))
    return out


def ref_check(mode, H, src, tgt, T, exact=True):
    """compare H with the definition; returns a failure text or None"""
    ci, cj = H.shape
    # the subtractive weight algebra can round to -1e-17 on non-dyadic coordinates
    if np.any(H < (0 if exact else -1e-9)) or not np.all(np.isfinite(H)):
        return "histogram has a negative or non-finite entry"
    exp = np.zeros((ci, cj), dtype=object)
    exp[:] = Fraction(0)
    cand_count = np.zeros((ci, cj), dtype=int)
    rows = np.zeros(ci, dtype=int)
    ambiguous = False
    for i, t in zip(src, T):
        i = int(i)
        if i < 0:
            continue
        if not all(math.isfinite(x) for x in t):
            continue
        nb = ref_candidates(tgt, [Fraction(float(x)) for x in t])
        sw = sum(w for _, w in nb)
        if mode == "pv":
            for j, w in nb:
                exp[i, j] += w
        elif mode == "tri":
            if sw > 0:
                m = sum(w * j for j, w in nb) / sw + Fraction(1, 2)
                if not exact and abs(m - round(m)) < Fraction(1, 10 ** 9):
                    ambiguous = True
                exp[i, math.floor(m)] += 1
        else:
            if sw > 0:
                rows[i] += 1
                for j in {j for j, w in nb if w > 0}:
                    cand_count[i, j] += 1
    if mode in ("pv", "tri"):
        if ambiguous:
            return None
        E = np.array(exp, dtype=float)
        bad = (H != E) if exact else (np.abs(H - E) > 1e-9)
        if np.any(bad):
            k = tuple(int(x) for x in np.argwhere(bad)[0])
            return (f"{mode} histogram differs from its definition at bin {k}: kernel {H[k]!r}, "
                    f"definition {E[k]!r}; total mass kernel {H.sum()!r} vs definition {E.sum()!r}")
        return None
    if np.any(H != np.round(H)):
        return "rand histogram has a non-integer entry"
    rs = H.sum(1)
    for i in range(ci):
        if rs[i] != rows[i]:
            return (f"rand histogram row {i} has mass {rs[i]!r} but {rows[i]} source voxels of that "
                    f"intensity have an unmasked in-grid neighbour of positive weight "
                    f"(mass {'created' if rs[i] > rows[i] else 'lost'})")
    bad = H > cand_count
    if np.any(bad):
        k = tuple(int(x) for x in np.argwhere(bad)[0])
        return (f"rand histogram bin {k} holds {H[k]!r} counts but only {cand_count[k]} source voxels "
                f"have a positive-weight neighbour of that intensity")
    return None


# ----------------------------------------------------------------------
# textbook similarity measures (independent float implementations)
# ----------------------------------------------------------------------
def wmedian(h):
    n = h.sum()
    c = np.cumsum(h)
    return int(np.argmax(c >= n / 2))


def textbook(name, H, dist=None):
    """value of the measure by its textbook formula, or None where it is undefined/degenerate"""
    n = H.sum()
    if n <= 0:
        return None
    p = H / n
    R, C = np.indices(H.shape)
    pr, pc = p.sum(1), p.sum(0)
    if name == "cc":
        mi_, mj_ = (p * C).sum(), (p * R).sum()
        vi, vj = (p * (C - mi_) ** 2).sum(), (p * (R - mj_) ** 2).sum()
        if vi * vj < 1e-12:
            return None
        return ((p * (C - mi_) * (R - mj_)).sum()) ** 2 / (vi * vj)
    if name == "cr":
        m = (pc * np.arange(H.shape[1])).sum()
        v = (pc * (np.arange(H.shape[1]) - m) ** 2).sum()
        if v < 1e-12:
            return None
        ev = 0.0
        for r in range(H.shape[0]):
            if pr[r] > 0:
                q = p[r] / pr[r]
                mr = (q * np.arange(H.shape[1])).sum()
                ev += pr[r] * (q * (np.arange(H.shape[1]) - mr) ** 2).sum()
        return 1 - ev / v
    if name == "crl1":
        med = wmedian(pc)
        s = (pc * np.abs(np.arange(H.shape[1]) - med)).sum()
        if s < 1e-12:
            return None
        es = 0.0
        for r in range(H.shape[0]):
            if pr[r] > 0:
                q = p[r] / pr[r]
                es += pr[r] * (q * np.abs(np.arange(H.shape[1]) - wmedian(p[r]))).sum()
        return 1 - es / s
    if name == "mi":
        m = p > 0
        return float((p[m] * np.log(p[m] / (pr[:, None] * pc[None, :])[m])).sum())
    if name == "nmi":
        ent = lambda x: -float((x[x > 0] * np.log(x[x > 0])).sum())
        if ent(pr) + ent(pc) < 1e-12:
            return None
        return 2 * (1 - ent(p) / (ent(pr) + ent(pc)))
    if name == "slr":
        q = dist
        if np.any((p > 0) & (q <= 0)):
            return None
        m = p > 0
        qr, qc = q.sum(1), q.sum(0)
        return float((p[m] * np.log(q[m] / (qr[:, None] * qc[None, :])[m])).sum())
    return None


def sfloat(v):
    """float of an exact rational; values beyond the double range become +-inf instead of raising"""
    try:
        return float(v)
    except OverflowError:
        return math.inf if v > 0 else -math.inf


def dyadic_hist(rng, r, c, zero_p):
    H = np.zeros((r, c))
    for a in range(r):
        for b in range(c):
            if rng.random() >= zero_p:
                H[a, b] = rng.choice([1, 1, 2, 3, 5, 8]) * rng.choice([1, 1, 0.5, 0.25])
    return H


def log_value(H, args, n, renorm):
    """`-Σ H * (-log args)` (/ n) from the model's exact logarithm arguments"""
    tot = 0.0
    for h, a in zip(np.asarray(H).ravel(), args):
        tot += float(h) * math.log(float(a)) if a > 0 else 0.0
    return tot if renorm else tot / float(n)


class FixedRng:
    """deterministic stand-in for numpy's Generator in `_eval` (rand interpolation)"""

    def __init__(self, v):
        self.v = int(v)
        self.last = None

    def integers(self, low, high=None):
        # numpy's Generator.integers(low, high=None): [0, low) or [low, high); `v` folded into the range asked for
        lo, hi = (0, int(low)) if high is None else (int(low), int(high))
        self.last = lo + (self.v - lo) % (hi - lo)
        return self.last


class VoxTransform:
    """dyadic voxel-to-voxel affine implementing `apply` like nipy transforms"""

    def __init__(self, A, b):
        self.A = np.array(A, dtype=float)
        self.b = np.array(b, dtype=float)

    def apply(self, pts):
        return np.ascontiguousarray(np.dot(np.asarray(pts, dtype=float), self.A.T) + self.b)


def rand_coord(rng, d):
    r = rng.random()
    if r < 0.25:
        return float(rng.randrange(-1, d + 1))
    if r < 0.35:
        return rng.choice([-1.0, float(d), d - 1.0, -0.5, d - 0.5, -0.125, 0.0])
    den = rng.choice([2, 4, 8])
    return rng.randrange(-den - den // 2, (d + 1) * den) / den


def gen_volume(rng, dims, cj, mask_p):
    n = dims[0] * dims[1] * dims[2]
    return [(-1 if rng.random() < mask_p else rng.randrange(cj)) for _ in range(n)]


class C09(PropertyCheck):
    id = "C09"
    title = "Joint histograms and similarity measures match their definitions"
    lean_modules = ["NipyVerif.Props.C09", "NipyVerif.Props.C09B", "NipyVerif.Props.C09C", "NipyVerif.Props.C09D",
                    "NipyVerif.Props.C09E", "NipyVerif.Props.C09Source"]
    driver = "Drivers/C09.lean"
    rule = ("cases from a seeded PRNG: (a) source/target volumes with masks, bin counts (up to the end of the signed "
            "short range), per-voxel dyadic target coordinates (free, affine, identity, far outside; boundary values "
            "-1, dim, integers) for the three interpolation modes (any positive code = trilinear; seeds incl. the ends "
            "of the int range), source layouts C / Fortran / strided / reversed / permuted / slice of a 4-D series, "
            "stale histogram content, arrays the kernel must refuse, run through the kernel re-compiled from /repo; "
            "(b) HistogramRegistration objects (bins, masks, field of view, dyadic voxel transforms, identity "
            "self-registration, all measures); (c) non-negative dyadic histograms for every measure class; "
            "(d) clamp / set_fov / L1_moments / prng inputs; (e) optimisation: every optimizer name x every measure x "
            "start at a local optimum / at a transform an earlier optimisation converged to / near / far, random "
            "transforms classes, tolerances, iteration limits, callbacks; (f) fmin_steepest on exact rational "
            "objectives (sums of squares of linear forms, piecewise-linear plateaus and kinks) with the run recorded "
            "and replayed by the model; (g) configure_optimizer names/keyword sets; (h) finite-difference helpers, "
            "eval_gradient / eval_hessian / explore, interp / similarity properties, smoothing, verbose optimize; "
            "(i) the value the random generator hands to _eval over its whole range [0, MAX_INTC) incl. both ends; "
            "clamp inputs as int8 / uint16 / uint32 / int64 and as strided / negative-stride / read-only arrays. "
            "Non-trivial = at least one source voxel contributes, or a histogram with >= 2 non-empty cells, or a "
            "non-constant array, or an optimisation that made at least one pass; distinct by full JSON of the case")
    assumptions = [
        "binary64 arithmetic of the kernel is exact on the generated dyadic coordinates/weights (few significant "
        "bits), so the model's rational arithmetic is the kernel's; cases with non-dyadic coordinates are compared to 1e-9",
        "log is a parameter of the MI/SLR/Parzen models: the harness applies math.log to the model's exact arguments; "
        "NMI and the renormalised (log-likelihood) variants are checked against textbook formulas numerically (oracle), not proved",
        "scipy.ndimage.gaussian_filter (Parzen measures) is a parameter: the filtered distribution the implementation "
        "computed is passed to the model",
        "libc srand/rand used by prng_seed is a parameter: the seeded state and the sequence of prng_double values "
        "are read from the re-compiled C; prng_double itself is modelled (integer recurrence exact, value to 1e-12)",
        "_registration.pyx cannot be rebuilt here: its two glue functions (_joint_histogram, _L1_moments) are "
        "fingerprinted in the source and replaced by equivalent ctypes glue over the re-compiled C",
        "'optimisation does not lower the similarity': proved for nipy's own loop (fmin_steepest, for every objective) "
        "under the hypothesis that scipy.optimize.brent returns (alpha, f(alpha)) with f(alpha) <= f(0) - checked "
        "on every recorded run as a certificate (first probe is alpha = 0 with the tracked value, the returned pair "
        "is a probe no probe beats); for fmin_powell / fmin / fmin_cg / fmin_bfgs it is the hypothesis "
        "MonotoneOptimizer (result not worse than the start for the cost it was given): oracle on real runs only",
        "the objective must be a function of the parameters: pv / tri interpolation, or rand with a fixed seed "
        "(FixedRng); with numpy's Generator the similarity is a random variable and the clause is not checked",
        "optimizer='ncg': optimize() passes SciPy's Newton-CG no gradient and SciPy refuses (ValueError 'Jacobian is "
        "required'); the name is not among the documented ones; the refusal is recorded, not reported",
        "approx_fprime (forward differences, step 1.49e-8) and sqrt in fmin_steepest are parameters: the recorded "
        "direction only enters the model through 'is the gradient identically zero'",
        "MI = H(I)+H(J)-H(I,J) and NMI = 2 MI/(H(I)+H(J)) are proved for every additive log where no TINY clamp is "
        "active on a non-empty cell; NMI's value is compared through the model's exact probabilities with math.log applied by the harness",
        "CC: (cIJ/nonzero(sqrt(vI*vJ)))**2 is modelled as cIJ**2/max(vI*vJ, TINY**2): proved equal for every exact "
        "non-negative square root at vI*vJ (cc_sqrt_form, ccCall_as_modelled); binary64 sqrt is exact only up to rounding (compared to 1e-9)",
        "function bodies of similarity_measures.py (TINY, nonzero, correlation2loglikelihood, dist2loss, SimilarityMeasure."
        "npoints/__call__, MI loss, NMI / CC / CR / CRL1 __call__) and of histogram_registration.py (_clamp, clamp limit, "
        "_slicer, ideal_spacing direction tests, _set_interp/_eval interp code) are regenerated statement by statement "
        "(Gen/C09Source); reductions over the index grids (np.sum(H * self.I) ...) are named leaves = the model's sumI / sumJ / "
        "sumIJ / isum, np.log / np.sqrt function parameters, _L1_moments = the model of the C routine",
        "dist2loss_as_modelled / miLoss_as_modelled assume a rectangular array (every row as long as the column-sum vector)",
        "interp='rand': the value Generator.integers returns is a parameter ranging over [drawLo, drawHi) as regenerated "
        "from _eval's call (drawLo = 1 since fix f09febe; with drawLo = 0 the draw 0 selected partial-volume interpolation)",
        "the random-interpolation model carries the guard `sumW > 0` (in /repo since the fix of the stale-read defect)",
    ]
    level_note = ("MI family up to log (structural theorems for every log); every measure's __call__ / loss / npoints body, "
                  "_clamp, _slicer, ideal_spacing's direction rule and the interp code regenerated from source and proved to be "
                  "the model (renormalised variants = correlation2loglikelihood of the model's value, monotone for monotone log); "
                  "optimise clause proved for fmin_steepest, hypothesis + oracle for SciPy's multivariate optimisers; "
                  "Parzen filtering (scipy gaussian_filter), _registration.pyx glue (fingerprinted) and SupervisedLikelihoodRatio's "
                  "refusals / cache remain modelled-and-compared or oracle-only")

    # ------------------------------------------------------------------
    def translators(self):
        p = os.path.join(REPO, "nipy/algorithms/registration/_registration.pyx")
        try:
            txt = open(p).read()
        except OSError as e:
            raise TieBroken(f"cannot read {p}: {e}")
        m = re.search(r"def _joint_histogram\(.*?\n(?=def _cspline_transform)", txt, re.S)
        if not m:
            raise TieBroken("_registration.pyx: glue functions _joint_histogram/_L1_moments not found")
        glue = m.group(0)
        for needle in PYX_GLUE_EXPECT:
            if needle not in glue:
                raise TieBroken(f"_registration.pyx glue changed: {needle!r} missing")
        if not re.search(r"def _joint_histogram\(ndarray H, flatiter iterI, ndarray imJ, ndarray Tvox, long interp\)", glue) \
                or not re.search(r"def _L1_moments\(ndarray H\)", glue):
            raise TieBroken("_registration.pyx glue signature changed")
        body = re.sub(r'""".*?"""', "", glue, flags=re.S)
        body = "\n".join(l.strip() for l in body.splitlines() if l.strip() and not l.strip().startswith("#"))
        if hashlib.sha1(body.encode()).hexdigest() != "74d96c9074b5b83120dffb4b152d5afb23dd7167":
            raise TieBroken("_registration.pyx glue (_joint_histogram/_L1_moments) differs from the modelled text")
        files, _ = XO.translate(REPO, TieBroken)
        return files + XK.translate(REPO, TieBroken) + XT.translate(REPO, TieBroken)

    # ------------------------------------------------------------------
    def generate(self, rng, tier):
        from harness import cshim
        cshim.build("registration")     # once, in the parent: workers then only load it
        q = tier == "quick"
        n_jh, n_reg, n_meas, n_l1, n_prng, n_clamp, n_fov, n_opt, n_steep, n_cfg, n_agrad, n_api = \
            (700, 90, 260, 120, 30, 160, 60, 40, 240, 40, 80, 90) if q else \
            (9000, 900, 3000, 1200, 200, 1600, 500, 600, 4000, 200, 1200, 1200)
        cases = []
        for k in range(n_jh):
            tdims = [rng.choice([1, 2, 2, 3, 3, 4]) for _ in range(3)]
            style = rng.choice(["free", "free", "free", "affine", "affine", "identity", "far", "allmasked"])
            sshape = list(tdims) if style == "identity" else [rng.choice([1, 2, 2, 3]) for _ in range(3)]
            ci, cj = rng.choice([1, 2, 3, 5]), rng.choice([1, 2, 3, 4, 7])
            if style == "identity":
                cj = ci
            mask_p = 1.0 if style == "allmasked" else rng.choice([0.0, 0.0, 0.15, 0.4, 0.8])
            tgt = gen_volume(rng, tdims, cj, mask_p)
            ns = sshape[0] * sshape[1] * sshape[2]
            if style == "identity" and rng.random() < 0.7:
                src = list(tgt)
                if rng.random() < 0.5:   # a different source mask
                    src = [(-1 if rng.random() < 0.2 else v) for v in src]
            else:
                src = gen_volume(rng, sshape, ci, rng.choice([0.0, 0.1, 0.3]))
            idx = [[a, b, c] for a in range(sshape[0]) for b in range(sshape[1]) for c in range(sshape[2])]
            if style in ("free", "allmasked"):
                T = [[rand_coord(rng, tdims[a]) for a in range(3)] for _ in range(ns)]
            elif style == "identity":
                T = [[float(x) for x in p] for p in idx]
            elif style == "far":
                off = [rng.choice([-7.0, 9.5, 100.0, -1.0, 1e6]) for _ in range(3)]
                T = [[p[a] + off[a] if a == k % 3 else float(p[a]) for a in range(3)] for p in idx]
            else:
                A = [[rng.choice([0, 0, 1, 1, -1, 0.5, 0.25, 2, -0.5, 0.75]) for _ in range(3)] for _ in range(3)]
                b = [rng.randrange(-8, 8 * tdims[a]) / 8 for a in range(3)]
                T = [[sum(A[a][c] * p[c] for c in range(3)) + b[a] for a in range(3)] for p in idx]
            seed = rng.randrange(1, 2 ** 31 - 1) if rng.random() < 0.85 else rng.choice([1, 2, 2 ** 31 - 1, 2 ** 31 - 2, 400000])
            case = {"kind": "jh", "mode": rng.choice(["pv", "tri", "rand"]), "seed": seed,
                    "ci": ci, "cj": cj, "tdims": tdims, "tgt": tgt, "sshape": sshape, "src": src,
                    "layout": rng.choice(["C", "C", "F", "F", "strided", "rev", "perm", "view4d"]), "T": T, "style": style}
            if rng.random() < 0.3:      # any positive `interp` is trilinear
                case["tricode"] = rng.choice([1, 2, 7, 2 ** 31 - 1, 2 ** 40])
            if rng.random() < 0.015:    # intensities at the end of the signed short range
                case["cj"] = 32768
                case["ci"] = rng.choice([1, 2])
                case["tgt"] = [(-1 if v < 0 else rng.choice([0, 32767, 32766, 12345])) for v in tgt]
                case["src"] = [(-1 if v < 0 else v % case["ci"]) for v in src]
                case["style"] = "free" if style == "identity" else style
            if rng.random() < 0.06:     # arrays the kernel must refuse (return -1, nothing written)
                case["refuse"] = rng.choice(["J", "H", "T", "Itype"])
            cases.append(case)
        for k in range(n_reg):
            shape = [rng.choice([2, 3, 3, 4, 5]) for _ in range(3)]
            same = rng.random() < 0.5
            tshape = shape if same else [rng.choice([2, 3, 4, 5]) for _ in range(3)]
            ident = same and rng.random() < 0.6
            A = [[1, 0, 0], [0, 1, 0], [0, 0, 1]] if ident else \
                [[rng.choice([0, 0, 1, 1, -1, 0.5, 0.25, 2]) for _ in range(3)] for _ in range(3)]
            b = [0, 0, 0] if ident else [rng.randrange(-8, 8 * tshape[a]) / 8 for a in range(3)]
            cases.append({"kind": "reg", "shape": shape, "tshape": tshape, "same": same, "ident": ident,
                          "dseed": rng.randrange(10 ** 6), "levels": rng.choice([2, 3, 5, 9, 40]),
                          "bins": rng.choice([2, 3, 4, 8, 16, 24]),
                          "tbins": rng.choice([None, None, 2, 5, 16]),
                          "mask": rng.choice([None, None, "box", "rand"]),
                          "sim": rng.choice(MEASURES), "interp": rng.choice(["pv", "tri", "rand"]),
                          "renorm": rng.random() < 0.25,
                          # what Generator.integers(MAX_INTC) may return: [0, MAX_INTC), ends included
                          "rseed": rng.randrange(1, 2 ** 31 - 1) if rng.random() < 0.8 else rng.choice([0, 0, 1, 2 ** 31 - 2]),
                          "A": A, "b": b, "via_eval": ident and rng.random() < 0.7,
                          "fov": rng.random() < 0.3,
                          "spacing": [rng.choice([1, 1, 2, 3]) for _ in range(3)],
                          "corner": [rng.choice([0, 0, 1]) for _ in range(3)]})
        for k in range(n_meas):
            r, c = rng.choice([1, 2, 3, 4, 6]), rng.choice([1, 2, 3, 4, 6])
            zp = rng.choice([0.0, 0.3, 0.6, 0.9, 1.0]) if rng.random() < 0.9 else 1.0
            H = dyadic_hist(rng, r, c, zp)
            if rng.random() < 0.15 and r == c:
                H = np.diag(np.diag(H))
            D = dyadic_hist(rng, r, c, rng.choice([0.0, 0.0, 0.3]))
            cases.append({"kind": "measure", "name": rng.choice(MEASURES), "H": H.tolist(), "dist": D.tolist(),
                          "renorm": rng.random() < 0.25})
        # many bins (up to the clamp's maximum the bins are 16-bit indices): a sparse histogram whose mass sits in bins
        # of index >= 256 / >= 2**12 on one axis - squares of bin indices must not be taken in a narrow integer type
        for k in range(max(6, n_meas // 12)):
            big = rng.choice([257, 300, 1024, 5000])
            small = rng.choice([2, 3])
            shape = (big, small) if rng.random() < 0.5 else (small, big)
            H = np.zeros(shape)
            for _ in range(rng.choice([2, 3, 4])):
                i = rng.choice([0, 1, 255, 256, big - 1, big // 2, big - 2])
                j = rng.randrange(small)
                H[(i, j) if shape[0] == big else (j, i)] += rng.choice([1.0, 2.0, 0.5, 3.0])
            cases.append({"kind": "measure", "name": rng.choice(["cc", "cr", "crl1", "mi", "nmi"]), "H": H.tolist(),
                          "dist": np.zeros(shape).tolist(), "renorm": False})
        for k in range(n_l1):
            n = rng.choice([1, 2, 3, 4, 5, 8, 13])
            zp = rng.choice([0.0, 0.3, 0.7, 1.0])
            h = [0.0 if rng.random() < zp else rng.choice([1, 1, 2, 3, 5]) * rng.choice([1, 0.5, 0.25]) for _ in range(n)]
            cases.append({"kind": "l1", "h": h, "stride": rng.choice([1, 1, 2, 3])})
        for k in range(n_prng):
            cases.append({"kind": "prng", "seed": rng.randrange(1, 2 ** 31 - 1), "steps": rng.choice([1, 2, 5, 40])})
        for k in range(n_clamp):
            n = rng.choice([1, 2, 3, 5, 8, 12])
            dt = rng.choice(["int16", "int32", "uint8", "float64", "float64", "float32", "int8", "uint16", "int64", "uint32"])
            bad = rng.random() < 0.12
            bins = rng.choice([40000, 32768, 32767]) if bad and rng.random() < 0.5 else rng.choice([1, 2, 3, 4, 8, 16, 100, 256])
            if dt.startswith("float"):
                x = [rng.randrange(-40, 200) / rng.choice([1, 2, 4, 8]) for _ in range(n)]
            else:
                lo = 0 if dt.startswith("uint") else -50
                x = [rng.randrange(lo, rng.choice([3, 10, 120] if dt == "int8" else [3, 10, 250])) for _ in range(n)]
            if bad and rng.random() < 0.5:
                x = [x[0]] * n      # constant array
            mask = None
            if rng.random() < 0.4:
                mask = [rng.random() < 0.6 for _ in range(n)]
            cases.append({"kind": "clamp", "dtype": dt, "x": x, "bins": bins, "mask": mask,
                          "layout": rng.choice([None, None, "strided", "rev", "readonly"])})
        for k in range(n_fov):
            shape = [rng.choice([1, 2, 3, 4, 6]) for _ in range(3)]
            if shape == [1, 1, 1]:
                shape = [2, 1, 1]       # a one-voxel (constant) image cannot be clamped
            cases.append({"kind": "fov", "shape": shape, "dseed": rng.randrange(10 ** 6),
                          "spacing": [rng.choice([1, 1, 2, 3, 4]) if rng.random() < 0.97 else 0 for _ in range(3)],
                          "corner": [rng.randrange(0, shape[a]) if rng.random() < 0.5 else 0 for a in range(3)],
                          "size": [rng.randrange(1, shape[a] + 2) for a in range(3)],
                          "aff": [rng.choice([1, 2, 0.5, -1, 4]) for _ in range(3)] + [rng.randrange(-16, 16) / 4 for _ in range(3)]})
        # optimisation clause: every optimizer x every measure x every kind of start, then random ones
        for rep in range(1 if q else 6):
            for o in XO.OPTIMIZERS:
                for sname in XO.OPT_MEASURES:
                    for sk in XO.START_KINDS:
                        cases.append(XO.gen_opt(rng, o, sname, sk))
        for k in range(n_opt):
            cases.append(XO.gen_opt(rng))
        for k in range(n_steep):
            cases.append(XO.gen_steep(rng))
        for k in range(n_cfg):
            cases.append(XO.gen_cfg(rng))
        for k in range(n_agrad):
            cases.append(XA.gen_agrad(rng))
        for op in XA.API_OPS:
            cases.append(XA.gen_regapi(rng, op))
        for k in range(n_api):
            cases.append(XA.gen_regapi(rng))
        return cases

    # ------------------------------------------------------------------
    def run_case(self, case):
        warnings.filterwarnings("ignore")
        np.seterr(all="ignore")
        return getattr(self, "_" + case["kind"])(case)

    # ---- C level -----------------------------------------------------
    def _jh_line(self, mode, ci, cj, padded, src, T, draws):
        dx, dy, dz = (s - 2 for s in padded.shape)
        vox = " ".join(f"{int(i)} {fr(t[0])} {fr(t[1])} {fr(t[2])}" for i, t in zip(src, T))
        return (f"jh {mode} {ci} {cj} {dx} {dy} {dz} {' '.join(str(int(v)) for v in padded.ravel())} "
                f"{len(src)} {vox} {plist(draws)}")

    def _jh(self, c):
        ci, cj, mode = c["ci"], c["cj"], c["mode"]
        tgt = np.array(c["tgt"], dtype=np.int16).reshape(c["tdims"])
        padded = -np.ones(np.array(c["tdims"]) + 2, dtype=np.int16)
        padded[1:-1, 1:-1, 1:-1] = tgt
        src3 = np.array(c["src"], dtype=np.int16).reshape(c["sshape"])
        if c["layout"] == "F":
            arr = np.asfortranarray(src3)
        elif c["layout"] == "rev":          # negative strides on every axis
            arr = np.ascontiguousarray(src3[::-1, ::-1, ::-1])[::-1, ::-1, ::-1]
        elif c["layout"] == "perm":         # one memory segment, axes permuted (neither C nor F when 3 distinct sizes)
            arr = np.ascontiguousarray(src3.transpose(1, 2, 0)).transpose(2, 0, 1)
        elif c["layout"] == "view4d":       # a 3-D volume taken out of a Fortran-ordered 4-D series
            big4 = np.zeros(tuple(c["sshape"]) + (2,), dtype=np.int16, order="F")
            big4[..., 1] = src3
            big4[..., 0] = 5
            arr = big4[..., 1]
        elif c["layout"] == "strided":
            big = np.full([2 * s for s in c["sshape"]], 3, dtype=np.int16)
            big[::2, ::2, ::2] = src3
            arr = big[::2, ::2, ::2]
        else:
            arr = np.ascontiguousarray(src3)
        T = np.ascontiguousarray(np.array(c["T"], dtype=float).reshape(-1, 3))
        src = src3.ravel()
        big, H = guarded_hist(ci, cj)
        H[:] = 7.5    # the kernel must reset the histogram
        seed = c["seed"]
        draws = []
        if mode == "rand":
            _, draws = draws_for(seed, len(src))
        code = 0 if mode == "pv" else c.get("tricode", 1) if mode == "tri" else -seed
        refuse = c.get("refuse")
        if refuse:
            return self._jh_refuse(c, refuse, H, big, arr, padded, T, code)

        def call():
            snap = Snapshot(arr=arr, padded=padded, T=T)
            ret = lib().joint_histogram(H, ci, cj, arr.flat, padded, T, code)
            return ret, H.copy(), guard_touched(big, ci * cj), snap.changed()

        if mode == "rand":      # a stale read can take the interpreter down: isolate
            st, out = forked(call)
            if st != "ok":
                return {"lines": [], "impl": [], "nontrivial": True, "tags": ["jh", "mode=rand", "kernel-crash"],
                        "oracle": f"joint_histogram (rand) crashed the interpreter ({st} {out}): the kernel read or "
                                  f"wrote outside its arrays"}
        else:
            out = call()
        ret, Hc, touched, mut = out
        H[:] = Hc
        fail = None
        if ret != 0:
            fail = f"joint_histogram refused valid arrays (return {ret})"
        elif touched:
            fail = "joint_histogram wrote outside the histogram array"
        else:
            fail = ref_check(mode, H, src, tgt, T)
        if fail is None and c["style"] == "identity" and ci == cj:
            same = [(s, t) for s, t in zip(c["src"], c["tgt"]) if s >= 0]
            if all(s == t or t < 0 for s, t in same):
                off = H - np.diag(np.diag(H))
                if np.any(off != 0):
                    fail = "identity self-registration gives a non-diagonal histogram"
        line = self._jh_line(mode, ci, cj, padded, src, T, draws)
        tags = ["jh", "mode=" + mode, "style=" + c["style"], "layout=" + c["layout"]]
        return {"lines": [line], "impl": [("hist", H.ravel().tolist(), 0.0)], "oracle": fail,
                "nontrivial": bool(H.sum() > 0), "tags": tags, "mutated": mut}

    def _jh_refuse(self, c, what, H, big, arr, padded, T, code):
        """arrays that violate the kernel's stated assumptions: it must return -1 and write nothing"""
        ci, cj = c["ci"], c["cj"]
        Hn, Jn, Tn, An = H, padded, T, arr
        if what == "J":
            Jn = np.asfortranarray(padded)
        elif what == "H":
            wide = np.zeros((ci, 2 * cj))
            wide[:] = 7.5
            Hn = wide[:, ::2]
        elif what == "T":
            Tn = np.zeros((T.shape[0], 6))[:, ::2]
            Tn[:] = T
        else:
            An = arr.astype(np.int32)
        flags = [An.dtype == np.int16, bool(Jn.flags["C_CONTIGUOUS"]), bool(Hn.flags["C_CONTIGUOUS"]),
                 bool(Tn.flags["C_CONTIGUOUS"])]
        before = Hn.copy()
        ret = lib().joint_histogram(Hn, ci, cj, An.flat, Jn, Tn, code)
        fail = None
        if all(flags):
            obs = ("txt", "ok" if ret == 0 else "refused")    # degenerate shapes are contiguous both ways
        else:
            obs = ("txt", "refused" if ret == -1 else f"returned {ret}")
            if ret == 0 and (guard_touched(big, ci * cj)):
                fail = "joint_histogram accepted arrays it cannot index and wrote outside the histogram"
            elif ret != 0 and not np.array_equal(Hn, before):
                fail = "joint_histogram refused its arrays but modified the histogram"
        line = "jhguard " + " ".join(str(int(f)) for f in flags)
        return {"lines": [line], "impl": [obs], "oracle": fail, "nontrivial": True,
                "tags": ["jh", "refuse=" + what, "guard->" + obs[1]], "mutated": None}

    def _l1(self, c):
        st = c["stride"]
        base = np.zeros(len(c["h"]) * st)
        base[::st] = c["h"]
        h = base[::st]
        n, med, dev = shim_L1_moments(h)
        fail = None
        hv = np.array(c["h"])
        if hv.sum() > 0:
            m = wmedian(hv)
            d = float((hv * np.abs(np.arange(len(hv)) - m)).sum() / hv.sum())
            if n != hv.sum() or med != m or not close(dev, d, 1e-12, 1e-12):
                fail = (f"L1_moments({c['h']}) = (n={n}, median={med}, dev={dev}) but the weighted median index is "
                        f"{m} and the mean absolute deviation {d}")
        elif (n, med, dev) != (0.0, 0.0, 0.0):
            fail = f"L1_moments of an empty histogram = {(n, med, dev)}"
        return {"lines": ["l1 " + plist(c["h"])], "impl": [("rats", [n, med, dev], 1e-12)], "oracle": fail,
                "nontrivial": bool((hv > 0).sum() >= 2), "tags": ["l1", f"stride={st}"], "mutated": None}

    def _prng(self, c):
        st, vals = draws_for(c["seed"], c["steps"])
        s = PS()
        lib().prng_seed(c["seed"], ctypes.byref(s))
        for _ in range(c["steps"]):
            v = lib().prng_double(ctypes.byref(s))
        fail = None
        if not all(0.0 <= x < 1.0 for x in vals):
            fail = f"prng_double left [0,1): {vals}"
        line = f"prng {st[0]} {st[1]} {st[2]} {st[3]} {c['steps']}"
        return {"lines": [line], "impl": [("prng", [s.ix, s.iy, s.iz, s.it], v)], "oracle": fail,
                "nontrivial": True, "tags": ["prng"], "mutated": None}

    # ---- Python level ------------------------------------------------
    def _patch(self):
        from nipy.algorithms.registration import histogram_registration as hr
        from nipy.algorithms.registration import similarity_measures as sm
        hr._joint_histogram = shim_joint_histogram
        sm._L1_moments = shim_L1_moments
        hr.VERBOSE = False
        return hr, sm

    def _measure_obs(self, name, H, dist, renorm, sm, value):
        """model line + observation for the value a measure returned on H"""
        H = np.asarray(H, dtype=float)
        if name in ("cc", "cr", "crl1"):
            return f"{name} {pmat(H)}", ("corr", float(value), bool(renorm))
        if name == "mi":
            return f"miargs {pmat(H)}", ("log", float(value), bool(renorm), H.ravel().tolist())
        if name == "nmi":
            return f"nmiargs {pmat(H)}", ("nmi", float(value))
        if name in ("slr", "pmi", "dpmi"):
            from scipy.ndimage import gaussian_filter
            if name == "slr":
                q = np.array(dist, dtype=float)
            elif name == "pmi":
                q = H / max(H.sum(), TINY)
                gaussian_filter(q, sigma=sm.SIGMA_FACTOR * np.array(H.shape), mode="constant", output=q)
            else:
                q = gaussian_filter(H, sigma=sm.SIGMA_FACTOR * np.array(H.shape), mode="constant")
                q /= max(q.sum(), TINY)
            return f"lossargs {pmat(q)}", ("loss", float(value), bool(renorm), H.ravel().tolist(),
                                            max(float(H.sum()), TINY))
        return None, None

    def _measure(self, c):
        hr, sm = self._patch()
        H = np.array(c["H"], dtype=float)
        D = np.array(c["dist"], dtype=float)
        name, renorm = c["name"], c["renorm"]
        snap = Snapshot(H=H, D=D)
        try:
            obj = sm.similarity_measures[name](H.shape, renorm, D if name == "slr" else None)
            val = float(obj(H))
        except Exception as e:
            return {"lines": [], "impl": [], "nontrivial": True, "tags": ["measure", name, "raised"],
                    "oracle": f"measure {name} raised {type(e).__name__}: {e} on a non-negative histogram"}
        mut = snap.changed()
        fail = None
        tb = textbook(name, H, D)
        tags = ["measure", "m=" + name] + (["renorm"] if renorm else [])
        if tb is not None and name in ("cc", "cr", "crl1", "mi", "nmi", "slr"):
            want = tb
            got = val
            if renorm and name in ("cc", "cr", "crl1"):
                # -n/2*log(1-rho2) is ill-conditioned near rho2 = 1: compare the correlations
                got = 1 - math.exp(-2 * val / H.sum()) if math.isfinite(val) else val
            elif renorm and name in ("mi", "slr"):
                want = tb * H.sum()
            if not close(got, want, 1e-8, 1e-9):
                fail = (f"{name}(renormalize={renorm}) = {val!r} on histogram {H.tolist()} but its textbook "
                        f"formula gives {want!r}")
            tags.append("textbook-checked")
        elif not math.isfinite(val):
            fail = f"{name} returned {val!r} on histogram {H.tolist()}"
        line, obs = self._measure_obs(name, H, D, renorm, sm, val)
        if name in ("cc", "cr", "crl1") and ((H.sum(1) > 0).sum() <= 1 or (H.sum(0) > 0).sum() <= 1):
            # all the mass in one row or one column: a variance is exactly zero and the correlation is 0/0 -
            # the float result is decided by rounding noise over the TINY clamp, not by the definition
            line, obs = None, None
            tags.append("degenerate-variance-not-compared")
        return {"lines": [line] if line else [], "impl": [obs] if line else [], "oracle": fail,
                "nontrivial": bool((H > 0).sum() >= 2), "tags": tags, "mutated": mut}

    def _clamp(self, c):
        hr, sm = self._patch()
        x = np.array(c["x"], dtype=c["dtype"])
        lay = c.get("layout")       # the same numbers as a strided / negative-stride view / read-only array
        if lay == "strided":
            base = np.zeros(2 * len(x), dtype=x.dtype); base[::2] = x; x = base[::2]
        elif lay == "rev":
            base = x[::-1].copy(); x = base[::-1]
        elif lay == "readonly":
            x.setflags(write=False)
        mask = None if c["mask"] is None else np.array(c["mask"], dtype=bool)
        is_int = 1 if np.issubdtype(x.dtype, np.integer) else 0
        snap = Snapshot(x=x)
        try:
            y, bins = hr.clamp(x, c["bins"], mask=mask)
            obs = ("clamp", [int(bins)] + [int(v) for v in y])
        except Exception as e:
            y = None
            obs = ("err", errname(e))
        mut = snap.changed()
        mk = "0" if mask is None else "1 " + plist([int(m) for m in mask])
        line = f"clamp {is_int} {c['bins']} {plist(x.tolist())} {mk}"
        fail = None
        if y is not None:
            sel = np.ones(len(x), bool) if mask is None else mask
            ys, xs = y[sel], x[sel].astype(float)
            if np.any(y[~sel] != -1):
                fail = "clamp: masked items are not -1"
            elif len(ys) and (ys.min() < 0 or ys.max() > bins - 1 or ys.max() > c["bins"] - 1):
                fail = f"clamp: values outside [0, bins-1]: {ys.tolist()} bins={bins}"
            elif len(ys) and np.any((xs[:, None] < xs[None, :]) & (ys[:, None] > ys[None, :])):
                fail = "clamp is not order preserving"
        tags = ["clamp", "int" if is_int else "real", "masked" if mask is not None else "nomask", obs[0],
                "clamp-layout=" + str(lay)]
        return {"lines": [line], "impl": [obs], "oracle": fail, "nontrivial": len(set(c["x"])) > 1,
                "tags": tags, "mutated": mut}

    def _images(self, shape, seed, levels, tshape=None, same=True):
        from nipy.core.image.image_spaces import make_xyz_image
        rs = np.random.RandomState(seed)
        d1 = rs.randint(0, levels, size=shape).astype(float)
        if d1.max() == d1.min():
            d1.flat[0] += 1
        aff = np.diag([2.0, 1.0, 4.0, 1.0])
        aff[:3, 3] = [-4.0, 2.0, 0.5]
        im1 = make_xyz_image(d1, aff, "scanner")
        if same:
            return im1, make_xyz_image(d1.copy(), aff.copy(), "scanner"), d1, d1
        d2 = rs.randint(0, levels, size=tshape).astype(float)
        if d2.max() == d2.min():
            d2.flat[-1] += 1
        aff2 = np.diag([1.0, 2.0, 2.0, 1.0])
        aff2[:3, 3] = [1.0, -3.0, 0.25]
        return im1, make_xyz_image(d2, aff2, "scanner"), d1, d2

    def _mask(self, kind, shape, seed):
        if kind is None:
            return None
        m = np.zeros(shape, dtype=bool)
        if kind == "box":
            m[tuple(slice(0, max(1, s - 1)) for s in shape)] = True
        else:
            m = np.random.RandomState(seed + 1).rand(*shape) < 0.7
            m.flat[0] = True
            m.flat[-1] = True
        return m

    def _reg(self, c):
        hr, sm = self._patch()
        from nipy.algorithms.registration.affine import Affine
        from nipy.algorithms.registration.chain_transform import ChainTransform
        im1, im2, d1, d2 = self._images(c["shape"], c["dseed"], c["levels"], c["tshape"], c["same"])
        fm = self._mask(c["mask"], c["shape"], c["dseed"])
        tm = fm if c["same"] else self._mask(c["mask"], c["tshape"], c["dseed"] + 5)
        for m, d in ((fm, d1), (tm, d2)):      # a mask selecting a constant region cannot be clamped
            if m is not None and d[m].max() == d[m].min():
                m[:] = True
        sim, interp = c["sim"], c["interp"]
        dist = None
        tags = ["reg", "sim=" + sim, "interp=" + interp]
        try:
            bins2 = c["tbins"] if not c["same"] else None
            if sim == "slr":
                R0 = hr.HistogramRegistration(im1, im2, from_bins=c["bins"], to_bins=bins2, from_mask=fm, to_mask=tm,
                                              similarity="cc", interp=interp)
                rs = np.random.RandomState(c["dseed"] + 3)
                dist = rs.randint(1, 9, size=R0._joint_hist.shape).astype(float) / 8
                # slr keeps the requested bin counts
                tb = c["bins"] if bins2 is None else bins2
                dist = rs.randint(1, 9, size=(c["bins"], tb)).astype(float) / 8
            R = hr.HistogramRegistration(im1, im2, from_bins=c["bins"], to_bins=bins2, from_mask=fm, to_mask=tm,
                                         similarity=sim, interp=interp, renormalize=c["renorm"], dist=dist,
                                         rng=FixedRng(c["rseed"]))
            if c["fov"]:
                R.set_fov(spacing=c["spacing"], corner=c["corner"])
                tags.append("fov")
            ci, cj = R._joint_hist.shape
            big, H = guarded_hist(ci, cj)
            R._joint_hist = H
            if sim in sm.similarity_measures and sim not in ("slr",):
                R._set_similarity(sim, renormalize=c["renorm"], dist=dist)
            if c["via_eval"]:
                T = Affine()
                coords = ChainTransform(T, pre=R._from_affine, post=R._to_inv_affine).apply(R._vox_coords)
                run = lambda: (float(R.eval(T)), H.copy(), guard_touched(big, ci * cj), R.rng.last)
                tags.append("eval(T)")
            else:
                Tv = VoxTransform(c["A"], c["b"])
                coords = Tv.apply(R._vox_coords)
                run = lambda: (float(R._eval(Tv)), H.copy(), guard_touched(big, ci * cj), R.rng.last)
                tags.append("_eval(Tv)")
            if interp == "rand":
                st, out = forked(run)
                if st == "exc":
                    raise RuntimeError(out)
                if st != "ok":
                    return {"lines": [], "impl": [], "nontrivial": True, "tags": tags + ["kernel-crash"],
                            "oracle": f"eval with interp='rand' crashed the interpreter ({st} {out}): the kernel "
                                      f"read or wrote outside its arrays"}
            else:
                out = run()
            val, Hc, touched, drawn = out
            H[:] = Hc
        except Exception as e:
            return {"lines": [], "impl": [], "nontrivial": True, "tags": tags + ["raised"],
                    "oracle": f"HistogramRegistration/eval raised {type(e).__name__}: {e} (sim={sim}, interp={interp}, "
                              f"bins={c['bins']}, mask={c['mask']})"}
        coords = np.ascontiguousarray(coords, dtype=float).reshape(-1, 3)
        src = np.asarray(R._from_data).ravel().astype(np.int16)
        padded = R._to_data
        tgt = padded[1:-1, 1:-1, 1:-1]
        exact = bool(np.all(coords * 64 == np.round(coords * 64)))
        fail = None
        if touched:
            fail = "joint_histogram wrote outside the histogram array"
        elif src.max(initial=-1) >= ci or tgt.max(initial=-1) >= cj:
            fail = f"clamped intensities exceed the histogram shape {(ci, cj)}"
        else:
            fail = ref_check(interp, H, src, tgt, coords, exact=exact)
            if fail is not None and interp == "rand":
                fail += f" (interp='rand', the generator returned {drawn})"
        if fail is None and c["ident"] and (c["via_eval"] or not c["fov"]):
            # eval(Affine()) composes float matrices: coordinates are integers up to ~1e-15
            if np.any(np.abs(H - np.diag(np.diag(H))) > (0 if exact else 1e-9)) if ci == cj else True:
                fail = "registering an image to itself under the identity gives a non-diagonal histogram"
            else:
                cnt = np.bincount(src[src >= 0], minlength=ci).astype(float)
                if not np.allclose(np.diag(H), cnt, atol=1e-9):
                    fail = f"identity self-registration: diagonal {np.diag(H).tolist()} vs intensity counts {cnt.tolist()}"
                else:
                    tags.append("diagonal")
        if fail is None and not math.isfinite(val) and H.sum() > 0 and sim not in ("cc",):
            fail = f"similarity {sim} = {val!r} on a non-empty histogram"
        draws = []
        if interp == "rand":
            _, draws = draws_for(drawn if drawn else c["rseed"], len(src))
        lines = [self._jh_line(interp, ci, cj, padded, src, coords, draws)]
        impl = [("hist", H.ravel().tolist(), 0.0 if exact else 1e-9)]
        line, obs = self._measure_obs(sim, H, dist, c["renorm"], sm, val)
        if line:
            lines.append(line); impl.append(obs)
        return {"lines": lines, "impl": impl, "oracle": fail, "nontrivial": bool(H.sum() > 0),
                "tags": tags + (["exact"] if exact else ["tolerant"]), "mutated": None}

    def _fov(self, c):
        hr, sm = self._patch()
        im1, _, d1, _ = self._images(c["shape"], c["dseed"], 7)
        R = hr.HistogramRegistration(im1, im1, from_bins=8, similarity="cc")
        from nipy.core.image.image_spaces import xyz_affine
        full = R._from_img.get_fdata()
        aff = xyz_affine(R._from_img)
        line = (f"fov {frs(c['shape'])} {frs(c['corner'])} {frs(c['size'])} {frs(c['spacing'])} {pmat(aff)}")
        fail = None
        try:
            R.set_fov(spacing=c["spacing"], corner=c["corner"], size=c["size"])
            sl = R._slicer(c["corner"], c["size"], c["spacing"])
            idx = [np.arange(c["shape"][a])[sl[a]].tolist() for a in range(3)]
            obs = ("fov", idx, np.asarray(R._from_affine, dtype=float).ravel().tolist())
            want = full[np.ix_(*idx)] if all(len(i) for i in idx) else full[np.ix_(*idx)]
            if R._from_data.shape != want.shape or not np.array_equal(R._from_data, want):
                fail = "set_fov: _from_data is not the requested sub-grid of the clamped image"
            elif R._from_npoints != (want >= 0).sum():
                fail = "set_fov: _from_npoints is not the number of non-negative voxels"
            elif R._vox_coords.shape != want.shape + (3,):
                fail = "set_fov: voxel coordinate cache has the wrong shape"
            elif want.size:
                # sub-grid voxel k maps to world like full-grid voxel corner + k*spacing
                k = np.array([s - 1 for s in want.shape])
                w1 = R._from_affine @ np.append(k, 1)
                w2 = aff @ np.append([idx[a][k[a]] for a in range(3)], 1)
                if not np.allclose(w1, w2):
                    fail = "set_fov: _from_affine does not map sub-grid voxels to their world positions"
        except Exception as e:
            obs = ("err", errname(e))
        return {"lines": [line], "impl": [obs], "oracle": fail, "nontrivial": True,
                "tags": ["fov", obs[0]], "mutated": None}

    def _opt(self, c):
        if "shape" not in c:        # cases of the first round (corpus)
            return self._opt_v1(c)
        return XO.run_opt(c, self._patch)

    def _steep(self, c):
        return XO.run_steep(c)

    def _cfg(self, c):
        return XO.run_cfg(c)

    def _agrad(self, c):
        return XA.run_agrad(c, self._patch)

    def _regapi(self, c):
        return XA.run_regapi(c, self._patch)

    def _opt_v1(self, c):
        hr, sm = self._patch()
        from nipy.algorithms.registration.affine import Affine, Rigid, Similarity
        from nipy.core.image.image_spaces import make_xyz_image
        n = c["n"]
        rs = np.random.RandomState(c["dseed"])
        g = np.indices((n, n, n)).astype(float)
        cen = rs.uniform(1.5, n - 2.5, size=3)
        d1 = np.round(30 * np.exp(-((g[0] - cen[0]) ** 2 + (g[1] - cen[1]) ** 2 + (g[2] - cen[2]) ** 2) / 6.0)
                      + rs.randint(0, 3, size=(n, n, n)))
        d2 = np.roll(d1, c["shift"], axis=0) if c["shift"] else d1.copy()
        aff = np.eye(4)
        im1, im2 = make_xyz_image(d1, aff, "scanner"), make_xyz_image(d2, aff, "scanner")
        R = hr.HistogramRegistration(im1, im2, from_bins=8, similarity=c["sim"], interp=c["interp"],
                                     rng=FixedRng(4242))
        cls = {"rigid": Rigid, "affine": Affine, "similarity": Similarity}[c["ttype"]]
        T0 = cls()
        p = T0.param.copy(); p[:3] = c["start"]; T0.param = p
        s0 = float(R.eval(T0))
        T = cls(); T.param = p.copy()
        tags = ["opt", "opt=" + c["optimizer"], "interp=" + c["interp"]]
        try:
            Topt = R.optimize(T, optimizer=c["optimizer"], maxiter=4)
            s1 = float(R.eval(Topt))
        except Exception as e:
            return {"lines": [], "impl": [], "nontrivial": True, "tags": tags + ["raised"],
                    "oracle": f"optimize({c['optimizer']}) raised {type(e).__name__}: {e}"}
        fail = None
        if not (s1 >= s0 - 1e-9 * max(1.0, abs(s0))):
            fail = (f"optimize({c['optimizer']}, {c['ttype']}, sim={c['sim']}, interp={c['interp']}) returned a "
                    f"transform with similarity {s1!r} lower than the starting transform's {s0!r}")
        return {"lines": [], "impl": [], "oracle": fail, "nontrivial": True, "tags": tags, "mutated": None}

    # ------------------------------------------------------------------
    def compare(self, case, impl_obs, model_out):
        kind = impl_obs[0]
        if model_out.startswith("bad-op"):
            return "model rejected the line (bad-op)"
        if kind == "steep" or case["kind"] == "steep":
            return XO.compare_steep(impl_obs, model_out)
        if case["kind"] == "regapi":
            return XA.compare_api(impl_obs, model_out)
        if kind == "txt":
            return None if model_out == impl_obs[1] else f"impl {impl_obs[1]!r} model {model_out!r}"
        if kind == "nmi":
            pj, pi, pr = (parse_rats(t) for t in (model_out + " ").split(" | "))
            ent = lambda l: -sum(float(x) * math.log(max(float(x), TINY)) for x in l)
            want = 2 * (1 - ent(pj) / max(ent(pi) + ent(pr), TINY))
            return None if close(impl_obs[1], want, 1e-8, 1e-9) else f"impl={impl_obs[1]!r} model={want!r}"
        if kind == "cfg":
            return None if model_out == impl_obs[1] else f"impl {impl_obs[1]!r} model {model_out!r}"
        if kind == "sign":
            return None if close(impl_obs[1], Fraction(model_out), 1e-9, 1e-9) else \
                f"similarity of the returned transform {impl_obs[1]!r} but minus the optimiser's final cost is {float(Fraction(model_out))!r}"
        if kind == "err":
            return None if model_out == impl_obs[1] else f"impl {impl_obs[1]} model {model_out[:80]}"
        if model_out.startswith("error"):
            return f"impl returned values, model says {model_out}"
        if kind == "hist":
            vals, tol = impl_obs[1], impl_obs[2]
            mv = parse_rats(model_out)
            if len(mv) != len(vals):
                return f"length impl={len(vals)} model={len(mv)}"
            for k, (a, b) in enumerate(zip(vals, mv)):
                if (Fraction(a) != b) if tol == 0 else (abs(a - float(b)) > tol):
                    return f"bin {k}: kernel={a!r} model={float(b)!r} ({b})"
            return None
        if kind == "rats":
            mv = parse_rats(model_out)
            for k, (a, b) in enumerate(zip(impl_obs[1], mv)):
                if not close(a, b, impl_obs[2], impl_obs[2]):
                    return f"index {k}: impl={a!r} model={float(b)!r}"
            return None if len(mv) == len(impl_obs[1]) else "length differs"
        if kind == "prng":
            toks = model_out.split()
            st = [int(t) for t in toks[:4]]
            if st != list(impl_obs[1]):
                return f"state impl={impl_obs[1]} model={st}"
            return None if abs(float(Fraction(toks[4])) - impl_obs[2]) < 1e-12 else \
                f"value impl={impl_obs[2]!r} model={float(Fraction(toks[4]))!r}"
        if kind == "corr":
            v, npts = parse_rats(model_out)
            want = sfloat(v)
            got = impl_obs[1]
            if impl_obs[2]:
                # -n/2*log(1-rho2) is ill-conditioned near rho2 = 1: compare the correlations
                if sfloat(npts) == 0:
                    want = 0.0
                elif math.isfinite(got):
                    got = 1 - math.exp(-2 * got / sfloat(npts))
            if math.isnan(got) and sfloat(v) > 1e300:
                return None
            return None if close(got, want, 1e-8, 1e-9) else f"impl={got!r} model={want!r}"
        if kind == "log":
            a, n = model_out.split(" | ")
            want = log_value(impl_obs[3], parse_rats(a), Fraction(n), impl_obs[2])
            return None if close(impl_obs[1], want, 1e-8, 1e-9) else f"impl={impl_obs[1]!r} model={want!r}"
        if kind == "loss":
            want = log_value(impl_obs[3], parse_rats(model_out), impl_obs[4], impl_obs[2])
            return None if close(impl_obs[1], want, 1e-8, 1e-9) else f"impl={impl_obs[1]!r} model={want!r}"
        if kind == "clamp":
            mv = [int(t) for t in model_out.split()]
            iv = impl_obs[1]
            if len(mv) != len(iv) or mv[0] != iv[0]:
                return f"impl={iv} model={mv}"
            if mv == iv:
                return None
            # the real branch rounds a*(x-xmin) computed in binary64: at (near-)ties either neighbour is legal
            x = [Fraction(v) for v in np.array(case["x"], dtype=case["dtype"]).tolist()]
            sel = [True] * len(x) if case["mask"] is None else case["mask"]
            xs = [v for v, s in zip(x, sel) if s]
            d = max(xs) - min(xs)
            for k, (a, b) in enumerate(zip(iv[1:], mv[1:])):
                if a != b:
                    e = Fraction(case["bins"] - 1) / d * (x[k] - min(xs)) if d else None
                    if e is None or abs(a - b) != 1 or abs(abs(e - math.floor(e)) - Fraction(1, 2)) > Fraction(1, 10 ** 9):
                        return f"item {k}: impl={a} model={b}"
            return None
        if kind == "fov":
            a, m = model_out.split(" | ")
            idx = [[int(t) for t in s.split()] for s in a.split(" ; ")] if a.strip() else []
            idx = [[int(t) for t in s.split()] for s in (a + " ").split(" ; ")]
            if idx != impl_obs[1]:
                return f"indices impl={impl_obs[1]} model={idx}"
            mv = parse_rats(m)
            return None if all(close(x, y, 1e-12, 1e-12) for x, y in zip(impl_obs[2], mv)) and len(mv) == 16 \
                else f"affine impl={impl_obs[2]} model={[float(v) for v in mv]}"
        return "unknown observation kind"

    def shrink(self, case):
        if case["kind"] == "opt" and "shape" in case:
            yield from XO.shrink_opt(case)
        elif case["kind"] == "steep":
            yield from XO.shrink_steep(case)
        elif case["kind"] == "jh":
            n = len(case["src"])

            def keep(idx):
                c = dict(case)
                c["src"] = [case["src"][i] for i in idx]
                c["T"] = [case["T"][i] for i in idx]
                c["sshape"] = [1, 1, len(idx)]
                c["layout"] = "C"
                c["style"] = "free" if case["style"] == "identity" else case["style"]
                return c
            if n > 1:       # halves first, then single removals (few candidates per round)
                yield keep(list(range(n // 2)))
                yield keep(list(range(n // 2, n)))
                if n <= 8:
                    for i in range(n):
                        yield keep([j for j in range(n) if j != i])
        elif case["kind"] == "measure":
            H = case["H"]
            if len(H) > 1:
                for i in range(len(H)):
                    c = dict(case); c["H"] = H[:i] + H[i + 1:]; c["dist"] = case["dist"][:i] + case["dist"][i + 1:]
                    yield c
            if len(H[0]) > 1:
                for j in range(len(H[0])):
                    c = dict(case)
                    c["H"] = [r[:j] + r[j + 1:] for r in H]
                    c["dist"] = [r[:j] + r[j + 1:] for r in case["dist"]]
                    yield c
        elif case["kind"] in ("l1",):
            h = case["h"]
            for i in range(len(h)):
                if len(h) > 1:
                    c = dict(case); c["h"] = h[:i] + h[i + 1:]
                    yield c
        elif case["kind"] == "clamp":
            x = case["x"]
            for i in range(len(x)):
                if len(x) > 1:
                    c = dict(case); c["x"] = x[:i] + x[i + 1:]
                    c["mask"] = None if case["mask"] is None else case["mask"][:i] + case["mask"][i + 1:]
                    yield c

    finding_keys = {"steepest-bracket-error":
                    "optimize(optimizer='steepest') lets scipy.optimize.BracketError propagate when the similarity is "
                    "flat at the first probes of the line search (start at the edge of / outside the overlap)"}

    def classify(self, case, failure):
        if case.get("kind") == "opt" and case.get("optimizer") == "steepest" and \
                "raised BracketError instead of returning a transform" in (failure or ""):
            return "steepest-bracket-error"
        return None


CHECK = C09()
