"""C08, second part: case kinds for what the first round left to the oracle.

  mat2vec   rotation_mat2vec = quat2axangle(mat2quat(R)) with certified leaves (eigh, sqrt, acos)
  from44    (extended in C08.py) from_matrix44 in full: SVD / cube root / log leaves + mat2vec leaves
  tomat     to_matrix44(t, dtype) for every size, as_affine(dtype)
  slices    slices2aff / subgrid_affine / inverse_affine
  hist      constructors (None / size-12 arrays of any shape and dtype / 4x4 / other) followed by an
            operation history on the object (param, translation, rotation, scaling, pre_rotation,
            from_matrix44, copy), then as_affine / compose / inv on the final state
  chain2    ChainTransform construction rules and param histories
  polyfull  PolyAffine: constructor variants, Gaussian arguments, apply / compose / left_compose

The leaves of transforms3d's mat2quat / quat2axangle are recomputed here with the same NumPy /
math calls on the same input (deterministic); the model checks their certificates and the final
vector is compared with what nipy's `rotation_mat2vec` returned.
"""
from __future__ import annotations

import itertools
import math
import warnings
from fractions import Fraction

import numpy as np

from harness.util import Snapshot, errname, fr, frs

PI = math.pi
FLOAT_EPS = float(np.finfo(np.float64).eps)
CLASSES = ["Affine", "Affine2D", "Rigid", "Rigid2D", "Similarity", "Similarity2D"]
INDS = {"Affine": list(range(12)), "Affine2D": [0, 1, 5, 6, 7, 11], "Rigid": list(range(6)),
        "Rigid2D": [0, 1, 5], "Similarity": list(range(7)), "Similarity2D": [0, 1, 5, 6]}
KIND = {"Affine": 0, "Affine2D": 0, "Rigid": 1, "Rigid2D": 1, "Similarity": 2, "Similarity2D": 2}
TINY = float(np.finfo(np.double).tiny)


def cube_group():
    """the 24 proper rotations with entries in {0, ±1} (angles 0, pi/2, 2pi/3, pi; mixed-sign axes)"""
    out = []
    for perm in itertools.permutations(range(3)):
        for signs in itertools.product([1, -1], repeat=3):
            M = np.zeros((3, 3))
            for i in range(3):
                M[i, perm[i]] = signs[i]
            if round(np.linalg.det(M)) == 1:
                out.append(M.tolist())
    return out


CUBE = cube_group()


# ----------------------------------------------------------------------------
# leaves of rotation_mat2vec, as transforms3d computes them
# ----------------------------------------------------------------------------
def mat2vec_leaves(R):
    """(tokens of QExt, ch, sh, predicted vector) for rotation_mat2vec(R)"""
    M = np.asarray(R, dtype=float)
    Qxx, Qyx, Qzx, Qxy, Qyy, Qzy, Qxz, Qyz, Qzz = M.flat
    K = np.array([
        [Qxx - Qyy - Qzz, 0, 0, 0],
        [Qyx + Qxy, Qyy - Qxx - Qzz, 0, 0],
        [Qzx + Qxz, Qzy + Qyz, Qzz - Qxx - Qyy, 0],
        [Qyz - Qzy, Qzx - Qxz, Qxy - Qyx, Qxx + Qyy + Qzz]]) / 3.0
    vals, vecs = np.linalg.eigh(K)
    k = int(np.argmax(vals))
    q = np.array(vecs[[3, 0, 1, 2], k], dtype=float)
    lam = float(vals[k])
    qq = q.copy()
    if qq[0] < 0:
        qq *= -1
    Nq = float(np.sum(qq ** 2))
    sN = math.sqrt(Nq)
    qn = qq / sN if Nq != 1 else qq
    xyz = qn[1:]
    len2 = float(np.sum(xyz ** 2))
    sL = math.sqrt(len2)
    ac = math.acos(max(min(qn[0], 1), -1))
    ch, sh = math.cos(ac), math.sin(ac)
    toks = f"{frs(q)} {fr(lam)} {fr(Nq)} {fr(sN)} {fr(len2)} {fr(sL)} {fr(ac)}"
    return toks, ch, sh


def mat2vec_branch(R):
    """which return statement of quat2axangle is taken for mat2quat(R) (same float operations)"""
    from transforms3d.quaternions import mat2quat
    q = np.asarray(mat2quat(np.asarray(R, dtype=float)), dtype=float)
    Nq = np.sum(q ** 2)
    if Nq < FLOAT_EPS ** 2:
        return "tiny"
    if Nq != 1:
        q = q / math.sqrt(Nq)
    return "ident" if np.sum(q[1:] ** 2) < (3 * FLOAT_EPS) ** 2 else "axis"


def f44_leaves(cls, M):
    """tokens of the leaves of `cls.from_matrix44(M)` (M 4x4 float), in the order of pF44"""
    import scipy.linalg as spl
    A33 = np.asarray(M, dtype=float)[:3, :3]
    k = KIND[cls]
    if k == 0:
        R, s, Q = spl.svd(A33)
        toks = f"{frs(R.ravel())} {frs(s)} {frs(Q.ravel())}"
        if spl.det(R) < 0:
            R = -R
            Q = -Q
        if spl.det(Q) < 0:
            Q = -Q
        logs = np.log(np.maximum(s, TINY))
        lr, _, _ = mat2vec_leaves(R)
        lq, _, _ = mat2vec_leaves(Q)
        return f"{toks} {frs(logs)} {lr} {lq}", 9 + 4 + 4
    if k == 1:
        R = A33
        if spl.det(R) < 0:
            R = -R
        lr, _, _ = mat2vec_leaves(R)
        return lr, 4
    detA = spl.det(A33)
    s = float(np.maximum(np.abs(detA) ** (1 / 3.), TINY))
    A = -A33 if detA < 0 else A33
    lr, _, _ = mat2vec_leaves(A / s)
    return f"{fr(s)} {fr(float(np.log(s)))} {lr}", 1 + 4


def trig(r):
    r = np.asarray(r, dtype=float)
    theta = float(np.sqrt(np.sum(r ** 2)))
    return f"{fr(theta)} {fr(float(np.sin(theta)))} {fr(float(np.cos(theta)))}"


def clip(x, th):
    return np.maximum(np.minimum(x, th), -th)


LOG_MAX_DIST = float(np.log(1e10))


def in_class(cls, v):
    """are the 12 natural parameters `v` those of a transform of class `cls` (nothing outside
    its param_inds; similarities carry one replicated log-scale)"""
    v = np.asarray(v, dtype=float)
    inds = INDS[cls]
    if cls.startswith("Similarity"):
        return bool(v[6] == v[7] == v[8]) and all(v[i] == 0 for i in range(12) if i not in inds and i not in (7, 8))
    return all(v[i] == 0 for i in range(12) if i not in inds)


def class_invariant(cls, M, rel=1e-9):
    """what the class of a transform promises about its 4x4 matrix (None if it holds)"""
    M = np.asarray(M, dtype=float)
    L = M[:3, :3]
    tol = rel * (1 + mag(M[:3, :])) ** 2
    if cls.endswith("2D"):
        off = [abs(L[0, 2]), abs(L[1, 2]), abs(L[2, 0]), abs(L[2, 1]), abs(M[2, 3])]
        if max(off) > tol:
            return (f"a {cls} built from its own parameters does not keep the plane z = 0 and the z axis: "
                    f"out-of-plane entries up to {max(off):.3g}")
    G = L.T @ L
    if cls.startswith("Rigid"):
        d = float(np.max(np.abs(G - np.eye(3))))
        if d > tol:
            return f"a {cls} built from its own parameters is not an isometry: max |M'M - I| = {d:.3g}"
    if cls.startswith("Similarity"):
        s2 = float(np.trace(G)) / 3
        d = float(np.max(np.abs(G - s2 * np.eye(3))))
        if d > tol:
            return f"a {cls} built from its own parameters is not a similarity: max |M'M - s^2 I| = {d:.3g}"
    return None


def mag(*arrs):
    m = 0.0
    for a in arrs:
        a = np.asarray(a, dtype=float)
        if a.size:
            m = max(m, float(np.max(np.abs(a))))
    return m


def far(x, y, atol):
    x = np.asarray(x, dtype=float); y = np.asarray(y, dtype=float)
    if x.shape != y.shape:
        return f"shape {x.shape} vs {y.shape}"
    if x.size == 0:
        return None
    if not (np.all(np.isfinite(x)) and np.all(np.isfinite(y))):
        return "non-finite values"
    d = float(np.max(np.abs(x - y)))
    return None if d <= atol else f"max abs difference {d:.3g} (tolerance {atol:.3g})"


def a34(M):
    return np.asarray(M, dtype=float)[:3, :].ravel().tolist()


def ptok(pts):
    return f"{len(pts)} " + " ".join(frs(p) for p in pts) if len(pts) else "0"


# ----------------------------------------------------------------------------
# generators
# ----------------------------------------------------------------------------
SMALLS = [0.0, 1e-300, 1e-40, 1e-17, 3e-16, 6e-16, 7e-16, 1e-15, 1.3e-15, 2e-15, 1e-12, 1e-9, 1e-8, 2e-8, 1e-7, 1e-5]
NEARPI = [PI, PI - 1e-15, PI - 1e-12, PI - 1e-9, PI - 1e-8, PI - 1e-6, PI - 1e-3, PI + 1e-9, PI + 1e-6, 3.0, 3.1, 3.2]


def gen_rotmats(rng, n, axes, angles):
    """rotation matrices given three ways: rotation vector, exact dyadic/cube-group matrix,
    product of two rotations (rounded, so not exactly orthogonal)"""
    out = []
    for M in CUBE:
        out.append({"kind": "mat2vec", "M": M})
    for _ in range(n):
        r = rng.random()
        ax = rng.choice(axes); nn = math.sqrt(sum(x * x for x in ax)); ax = [x / nn for x in ax]
        if r < 0.3:
            ang = rng.choice(SMALLS)
        elif r < 0.6:
            ang = rng.choice(NEARPI)
        else:
            ang = rng.choice(angles)
        c = {"kind": "mat2vec", "r": [ang * x for x in ax]}
        if rng.random() < 0.25:
            ax2 = rng.choice(axes); n2 = math.sqrt(sum(x * x for x in ax2))
            c["r2"] = [rng.choice(angles + NEARPI) * x / n2 for x in ax2]
        if rng.random() < 0.15:      # signs of the axis flipped component-wise (mixed-sign axes)
            c["r"] = [x * rng.choice([1, -1]) for x in c["r"]]
        out.append(c)
    return out


def gen_tomat(rng, n):
    out = []
    vals = [0.0, 0.5, -1.25, 2.0, 3.0, 0.25, -0.5, 1.0, 1e-31, 7e10, 1e12, -3e10, 23.5, -30.0, 1e11]
    for i in range(n):
        size = i % 15 if i < 45 else rng.choice([6, 7, 12, 12, 13, 9, 10, 11, 5, 8])
        t = [rng.choice(vals[:9]) for _ in range(size)]
        if rng.random() < 0.35:
            for k in range(size):
                if rng.random() < 0.3:
                    t[k] = rng.choice(vals)
        out.append({"kind": "tomat", "t": t, "dtype": rng.choice(["double", "double", "int", "float32"]),
                    "direct": rng.random() < 0.7})
    return out


def gen_slices(rng, n):
    out = []
    nums = [None, None, 0, 1, 2, 3, -1, 4, 5, 7, -2, 0.5, 2.5, 1.0, 2.0]
    for i in range(n):
        N = rng.choice([0, 1, 2, 3, 3, 3, 4])
        sl = [[rng.choice(nums), rng.choice(nums[:11] if rng.random() < 0.85 else nums)] for _ in range(N)]
        if rng.random() < 0.8:
            sl = [[a if (a is None or float(a).is_integer()) else None, b] for a, b in sl]
        rows = N + 1 if rng.random() < 0.8 else rng.choice([1, 2, 3, 4, 5])
        cols = N + 1 if rng.random() < 0.85 else rng.choice([1, 2, 3, 4, 5])
        aff = [[rng.choice([0.0, 1.0, -1.0, 2.0, 0.5, -3.0, 4.0, 0.25]) for _ in range(cols)] for _ in range(rows)]
        while True:     # exactly singular by accident is excluded (LU may or may not notice); by design below
            m34 = [[rng.choice([0.0, 1.0, -1.0, 2.0, 0.5, -3.0, 0.25]) for _ in range(4)] for _ in range(3)]
            F = [[Fraction(x) for x in row[:3]] for row in m34]
            det = (F[0][0] * (F[1][1] * F[2][2] - F[1][2] * F[2][1]) - F[0][1] * (F[1][0] * F[2][2] - F[1][2] * F[2][0])
                   + F[0][2] * (F[1][0] * F[2][1] - F[1][1] * F[2][0]))
            if det != 0:
                break
        if rng.random() < 0.15:
            m34[2] = [0.0, 0.0, 0.0, 1.0]        # exactly singular in floating point too: inverse_affine refuses
        idx = [[rng.choice([0, 1, 2, 5, -1, 10]) for _ in range(N)] for _ in range(rng.choice([1, 2, 3]))]
        out.append({"kind": "slices", "sl": sl, "aff": aff, "m34": m34, "idx": idx})
    return out


def gen_hist(rng, n, spec_fn, raw34_fn):
    """constructor + operation history"""
    out = []
    shapes12 = [[12], [3, 4], [4, 3], [2, 6], [1, 12], [12, 1], [2, 2, 3], [6, 2]]
    bad_shapes = [[3, 3], [16], [4, 4, 1], [5], [0], [11], [13], [2, 8], [4, 3, 1, 1, 1]]
    for i in range(n):
        cls = CLASSES[i % 6]
        r = rng.random()
        radius = rng.choice([100, 100, 1, 10, 64, 0.5, 2.5]) if rng.random() < 0.95 else 0
        if r < 0.2:
            arg = {"a": "none"}
        elif r < 0.5:
            s = spec_fn(rng, cls)
            arg = {"a": "arr", "shape": rng.choice(shapes12), "data": s["nat"], "dtype": "float"}
            if rng.random() < 0.35:
                arg["data"] = [float(rng.choice([0, 0, 1, -1, 2, 3, -2, 5])) for _ in range(12)]
                arg["dtype"] = rng.choice(["int", "int", "float", "list-int"])
        elif r < 0.8:
            s = spec_fn(rng, cls)
            arg = {"a": "m44", "spec": s, "neg": rng.random() < 0.4, "dtype": "float"}
            if rng.random() < 0.2:
                arg = {"a": "m44raw", "raw": raw34_fn(rng), "dtype": rng.choice(["float", "float", "int-ish"])}
        elif r < 0.93:
            sh = rng.choice(bad_shapes)
            size = int(np.prod(sh))
            arg = {"a": "arr", "shape": sh, "data": [float(rng.choice([0, 1, 2, 0.5])) for _ in range(size)],
                   "dtype": "float"}
        else:
            arg = {"a": "other", "what": rng.choice(["transform", "affine", "str", "dict"])}
        ops = []
        for _ in range(rng.choice([0, 0, 1, 2, 3, 4, 6, 8])):
            k = rng.random()
            vals = [0.0, 1.0, -2.0, 0.5, 10.0, -37.5, 50.0, 3.0, 0.25, 157.0, 314.0]
            if k < 0.3:
                npar = len(INDS[cls])
                ln = npar if rng.random() < 0.8 else rng.choice([0, 1, npar - 1, npar + 1, 12])
                ops.append(["P", [rng.choice(vals) for _ in range(ln)]])
            elif k < 0.75:
                which = rng.choice(["T", "R", "S", "Q"])
                ln = 3 if rng.random() < 0.75 else rng.choice([1, 1, 2, 4, 0])
                if which == "S":
                    x = [rng.choice([1.0, 2.0, 0.5, 4.0, 0.25, 3.0, 1.5]) for _ in range(ln)]
                elif which == "T":
                    x = [rng.choice(vals) for _ in range(ln)]
                else:
                    x = [rng.choice([0.0, 0.5, -1.0, 2.0, 3.0, PI, 1e-9, 0.25, -0.75]) for _ in range(ln)]
                if ln == 3 and rng.random() < 0.8:      # keep the object inside its class
                    base = {"T": 0, "R": 3, "S": 6, "Q": 9}[which]
                    neutral = 1.0 if which == "S" else 0.0
                    x = [x[j] if (base + j) in INDS[cls] else neutral for j in range(3)]
                    if which == "S" and cls.startswith("Similarity"):
                        x = [x[0]] * 3
                ops.append([which, x])
            elif k < 0.9:
                s = spec_fn(rng, cls)
                ops.append(["F", s, rng.random() < 0.4])
            elif k < 0.94:
                ops.append(["C"])
            elif k < 0.98:
                ops.append(["I"])        # t = t.inv()
            else:
                ops.append(["K"])        # t = pickle.loads(pickle.dumps(t))
            if rng.random() < 0.45:
                # look at the object between two assignments (as_affine / apply / compose / inv / param):
                # an observation must not influence what later operations and observations return
                ops.append(["A", rng.choice(["as_affine", "apply", "compose", "inv", "param", "str"])])
        pts = [[rng.choice([0.0, 1.0, -1.0, 2.0, 0.5, -3.25, 7.0]) for _ in range(3)] for _ in range(rng.choice([1, 2, 3]))]
        out.append({"kind": "hist", "cls": cls, "radius": radius, "arg": arg, "ops": ops, "pts": pts,
                    "other": spec_fn(rng, None)})
    return out


def gen_chain2(rng, n, spec_fn):
    out = []
    for _ in range(n):
        def side():
            r = rng.random()
            if r < 0.2:
                return {"s": "none"}
            if r < 0.35:
                return {"s": "gen", "gen": rng.choice(["quad", "abs"])}
            if r < 0.6:
                return {"s": "xf", "spec": spec_fn(rng, None)}
            if r < 0.8:
                return {"s": "arr44", "spec": spec_fn(rng, None), "neg": rng.random() < 0.3}
            if r < 0.92:
                return {"s": "arr12", "spec": spec_fn(rng, "Affine"), "shape": rng.choice([[12], [3, 4], [2, 6]])}
            return {"s": "bad", "shape": rng.choice([[3, 3], [5], [2, 2]])}
        r = rng.random()
        if r < 0.8:
            opt = {"s": "xf", "spec": spec_fn(rng, None)}
        elif r < 0.87:
            opt = {"s": "gen", "gen": rng.choice(["quad", "abs"])}
        elif r < 0.94:
            opt = {"s": "arr44", "spec": spec_fn(rng, None), "neg": False}
        else:
            opt = {"s": "poly"}
        hist = []
        for _k in range(rng.choice([0, 1, 2, 3, 5])):
            cls = opt["spec"]["cls"] if opt["s"] == "xf" else "Affine"
            npar = len(INDS[cls])
            ln = npar if rng.random() < 0.85 else rng.choice([0, 1, npar + 1])
            hist.append([rng.choice([0.0, 1.0, -2.0, 0.5, 10.0, -37.5, 50.0, 157.0]) for _ in range(ln)])
        pts = [[rng.choice([0.0, 1.0, -1.0, 2.0, 0.5, -3.25, 7.0]) for _ in range(3)] for _ in range(rng.choice([1, 2, 3, 0]))]
        out.append({"kind": "chain2", "opt": opt, "pre": side(), "post": side(), "hist": hist, "pts": pts})
    return out


def gen_polyfull(rng, n, spec_fn):
    out = []
    for _ in range(n):
        k = rng.choice([1, 1, 2, 3, 4, 6])
        ka = k if rng.random() < 0.9 else rng.choice([0, 1, k + 1, 2])
        mode = rng.choice(["apply", "apply", "compose", "left"])
        out.append({"kind": "polyfull",
                    "centers": [[rng.choice([0.0, 1.0, -2.0, 4.0, 8.0, -5.0, 0.5]) for _ in range(3)] for _ in range(k)],
                    "affs": [spec_fn(rng, None) for _ in range(ka)],
                    "same": rng.random() < 0.15,
                    "as_arrays": rng.random() < 0.4,
                    "sigma": rng.choice([1.0, 2.0, 4.0, [1.0, 2.0, 4.0], [8.0, 0.5, 2.0], 0.25, 0.0, [1.0, 0.0, 2.0], 1e-3]),
                    "glob": rng.choice([None, None, "xf", "arr"]), "globspec": spec_fn(rng, None),
                    "mode": mode, "other": spec_fn(rng, None),
                    "pts": [[rng.choice([0.0, 1.0, -1.0, 2.0, 0.5, -3.25, 4.0, 6.0, 40.0, -100.0]) for _ in range(3)]
                            for _ in range(rng.choice([1, 2, 4, 0]))]})
    return out


# ----------------------------------------------------------------------------
# runners (mixin of the C08 check)
# ----------------------------------------------------------------------------
class ExtMixin:
    # -- rotation_mat2vec ------------------------------------------------------
    def _mat2vec(self, c):
        from nipy.algorithms.registration import affine as A
        if "M" in c:
            R = np.array(c["M"], dtype=float)
            tags = ["mat2vec", "src=exact"]
        else:
            R = A.rotation_vec2mat(np.array(c["r"], dtype=float))
            tags = ["mat2vec", "src=vector"]
            if "r2" in c:
                R = R @ A.rotation_vec2mat(np.array(c["r2"], dtype=float))
                tags = ["mat2vec", "src=product"]
        snap = Snapshot(R=R)
        fail = None
        lines, impl = [], []
        try:
            v = np.asarray(A.rotation_mat2vec(R), dtype=float)
        except Exception as e:
            return {"lines": [], "impl": [], "nontrivial": True, "tags": tags + ["raised"],
                    "oracle": f"rotation_mat2vec raised {type(e).__name__}: {e}"}
        toks, ch, sh = mat2vec_leaves(R)
        lines.append(f"mat2vec {frs(R.ravel())} {toks} {fr(ch)} {fr(sh)}")
        tol_v = 1e-13 * (1 + mag(v))
        ang = float(np.sqrt(np.sum(v ** 2)))
        br = mat2vec_branch(R)
        impl.append(("tagvals", br, v.tolist() + [0.0] * 10, [tol_v] * 3 + [2e-14] * 10))
        if fail is not None:
            pass
        elif not np.all(np.isfinite(v)):
            fail = f"rotation_mat2vec returned non-finite values {v}"
        elif ang > PI + 1e-9:
            fail = f"rotation_mat2vec returned an angle {ang!r} above pi"
        else:
            R2 = A.rotation_vec2mat(v)
            d = far(R2, R, 1e-7)
            if d:
                fail = ("rotation matrix -> vector -> matrix does not reproduce the matrix "
                        f"(R={np.round(R, 6).tolist()}, vector {v.tolist()}): {d}")
        if fail is None and "r" in c and "r2" not in c:
            # vector -> matrix -> vector: same axis line, angle equal modulo 2 pi
            r = np.array(c["r"], dtype=float)
            th = float(np.sqrt(np.sum(r ** 2)))
            if 1e-6 < th < 1e6 and abs(math.sin(th)) > 1e-6:
                n = r / th
                cross = np.cross(v, n)
                phi = float(np.dot(v, n))
                if mag(cross) > 1e-6 * (1 + ang):
                    fail = f"rotation vector {c['r']} -> matrix -> vector {v.tolist()}: axis changed"
                elif abs(math.cos(phi) - math.cos(th)) > 1e-6 or abs(math.sin(phi) - math.sin(th)) > 1e-6:
                    fail = (f"rotation vector {c['r']} -> matrix -> vector {v.tolist()}: angle {phi!r} is not "
                            f"{th!r} modulo 2 pi")
        tags.append("branch=" + br)
        if br == "axis" and ang == 0:
            tags.append("acos-underflow")
        if abs(ang - PI) < 1e-2:
            tags.append("near-pi")
        if 0 < ang < 1e-6:
            tags.append("tiny-angle")
        return {"lines": lines, "impl": impl, "oracle": fail, "nontrivial": True, "tags": tags,
                "mutated": snap.changed()}

    # -- to_matrix44(t, dtype) ---------------------------------------------------------
    def _tomat(self, c):
        from nipy.algorithms.registration import affine as A
        t = np.array(c["t"], dtype=float)
        n = t.size
        dt = {"double": np.double, "int": np.int64, "float32": np.float32}[c["dtype"]]
        snap = Snapshot(t=t)
        direct = c["direct"] or n != 12
        sc = np.exp(clip(t[6:9], LOG_MAX_DIST))
        sc3 = list(sc) + [1.0] * (3 - len(sc))
        line = (f"tomat {1 if c['dtype'] == 'int' else 0} {1 if direct else 0} {n} {frs(t)} "
                f"{trig(t[3:6])} {frs(sc3)} {trig(t[9:12])}").replace("  ", " ")
        fail = None
        try:
            if n == 12:
                obj = A.Affine(t.copy())
                obj._direct = bool(direct)
                T = obj.as_affine(dtype=dt)
            else:
                T = A.to_matrix44(t, dtype=dt)
            T = np.asarray(T)
            if T.dtype != np.dtype(dt):
                fail = f"to_matrix44(dtype={c['dtype']}) returned dtype {T.dtype}"
            rel = 2e-7 if c["dtype"] == "float32" else 1e-12
            obs = ("vals", a34(T), rel * (1 + mag(T[:3, :])) + (0 if c["dtype"] != "int" else 0))
            if c["dtype"] == "int":       # an entry within rounding of an integer may truncate either way
                Tf = np.asarray(A.to_matrix44(t)) if n != 12 else np.asarray(obj.as_affine())
                if np.any(np.abs(Tf[:3, :] - np.round(Tf[:3, :])) < 1e-9 * (1 + np.abs(Tf[:3, :]))) and \
                        not np.all(Tf[:3, :] == np.round(Tf[:3, :])):
                    obs = ("vals", a34(T), 1.0 + 1e-9)
            if fail is None and not np.array_equal(T[3], [0, 0, 0, 1]):
                fail = f"to_matrix44 last row is {T[3].tolist()}"
        except Exception as e:
            obs = ("err", errname(e))
        return {"lines": [line], "impl": [obs], "oracle": fail, "nontrivial": n > 0,
                "tags": ["tomat", f"size={min(n, 13)}", "dtype=" + c["dtype"], "ok" if obs[0] == "vals" else "refused"],
                "mutated": snap.changed()}

    # -- slices2aff / subgrid_affine / inverse_affine ----------------------------------------
    def _slices(self, c):
        from nipy.algorithms.registration import affine as A
        sl = [slice(a, None, b) for a, b in c["sl"]]
        N = len(sl)
        aff = np.array(c["aff"], dtype=float)
        snap = Snapshot(aff=aff)
        lines, impl = [], []
        fail = None

        def otok(x):
            return "N" if x is None else "Y " + fr(x)
        sltok = f"{N} " + " ".join(f"{otok(a)} {otok(b)}" for a, b in c["sl"]) if N else "0"
        try:
            S = A.slices2aff(sl)
            lines.append(f"slices {sltok}"); impl.append(("vals", np.asarray(S, dtype=float).ravel().tolist(), 0.0))
            if S.shape != (N + 1, N + 1):
                fail = f"slices2aff of {N} slices has shape {S.shape}"
        except Exception as e:
            lines.append(f"slices {sltok}"); impl.append(("err", errname(e)))
            fail = f"slices2aff raised {type(e).__name__}: {e}"
        r, cc = aff.shape
        line = f"subgrid {r} {cc} {frs(aff.ravel())} {sltok}".replace("  ", " ")
        try:
            G = A.subgrid_affine(aff, sl)
            lines.append(line); impl.append(("vals", np.asarray(G, dtype=float).ravel().tolist(), 1e-12 * (1 + mag(G))))
            if fail is None and r == N + 1 and cc == N + 1 and N > 0:
                # sub-grid index i <-> full-grid index start + step * i
                starts = np.array([0 if a is None else a for a, _ in c["sl"]], dtype=float)
                steps = np.array([1 if b is None else b for _, b in c["sl"]], dtype=float)
                for i in c["idx"]:
                    i = np.array(i, dtype=float)
                    lhs = G[:N, :N] @ i + G[:N, N]
                    rhs = aff[:N, :N] @ (starts + steps * i) + aff[:N, N]
                    d = far(lhs, rhs, 1e-9 * (1 + mag(lhs, rhs)))
                    if d:
                        fail = f"subgrid_affine: index {i.tolist()} of the sub-grid is not mapped like the full-grid index: {d}"
                        break
        except Exception as e:
            lines.append(line); impl.append(("err", errname(e)))
        # inverse_affine on a 4x4
        M = np.eye(4); M[:3, :] = np.array(c["m34"], dtype=float)
        try:
            Mi = A.inverse_affine(M)
            lines.append(f"inv {frs(a34(M))}")
            impl.append(("vals", a34(Mi), 1e-9 * (1 + mag(Mi)) * (1 + mag(M))))
            d = far(Mi @ M, np.eye(4), 1e-9 * (1 + mag(Mi)) * (1 + mag(M)))
            if d and fail is None:
                fail = f"inverse_affine(M) @ M is not the identity: {d}"
        except Exception as e:
            lines.append(f"inv {frs(a34(M))}"); impl.append(("err", errname(e)))
            if abs(np.linalg.det(M[:3, :3])) > 1e-6 and fail is None:
                fail = f"inverse_affine raised {type(e).__name__} on a non-singular matrix"
        return {"lines": lines, "impl": impl, "oracle": fail, "nontrivial": N > 0,
                "tags": ["slices", f"N={N}", "subgrid-ok" if impl[1][0] == "vals" else "subgrid-refused"],
                "mutated": snap.changed()}

    # -- constructor + history on one object -------------------------------------------------
    def _hist(self, c):
        from nipy.algorithms.registration import affine as A
        from nipy.algorithms.registration.transform import Transform
        cls = getattr(A, c["cls"])
        arg = c["arg"]
        radius = c["radius"]
        tags = ["hist", "cls=" + c["cls"], "ctor=" + arg["a"]]
        lines, impl = [], []
        fail = None
        # ---- constructor argument
        ints = False
        if arg["a"] == "none":
            pyarg, atok = None, "none"
        elif arg["a"] == "other":
            pyarg = {"transform": Transform(lambda p: p), "affine": A.Affine(), "str": "abc", "dict": {"a": 1}}[arg["what"]]
            atok = "other"
        elif arg["a"] == "arr":
            data = np.array(arg["data"], dtype=float).reshape(arg["shape"])
            if arg["dtype"] == "int":
                pyarg = data.astype(np.int64); ints = True
            elif arg["dtype"] == "list-int":
                pyarg = [int(x) for x in data.ravel().tolist()]; ints = True
                data = data.reshape(-1)
            else:
                pyarg = data
            shp = list(np.shape(pyarg))
            atok = f"arr {1 if ints else 0} {len(shp)} {' '.join(map(str, shp))} {data.size} {frs(data.ravel())}".replace("  ", " ").strip()
            tags.append("dtype=" + arg["dtype"])
        else:
            if arg["a"] == "m44":
                src = self._build_spec(arg["spec"])
                M = np.array(src.as_affine(), dtype=float)
                if arg["neg"]:
                    M[:3, :3] *= -1
            else:
                M = np.eye(4); M[:3, :] = np.array(arg["raw"], dtype=float)
            pyarg = M.copy()
            if arg.get("dtype") == "int-ish" and np.all(M == np.round(M)):
                pyarg = M.astype(np.int64)
            lv, _ = f44_leaves(c["cls"], M)
            atok = f"arr 0 2 4 4 16 {frs(M.ravel())} {lv}"
        snap = Snapshot(arg=pyarg) if isinstance(pyarg, np.ndarray) else None
        statuses = []
        t = None
        try:
            t = cls(pyarg, radius=radius)
            statuses.append("ok")
        except Exception as e:
            statuses.append(errname(e))
        # ---- operations
        optoks = []
        nops = 0
        inverted = False
        if t is not None:
            for op in c["ops"]:
                k = op[0]
                if k == "A":      # pure observation: no token for the model, the state must not change
                    try:
                        opts = np.array(c["pts"], dtype=float).reshape(-1, 3)
                        if op[1] == "as_affine":
                            t.as_affine()
                        elif op[1] == "apply":
                            t.apply(opts)
                        elif op[1] == "compose":
                            t.compose(self._build_spec(c["other"]))
                        elif op[1] == "inv":
                            t.inv()
                        elif op[1] == "param":
                            t.param
                        else:
                            str(t)
                    except Exception:     # noqa: BLE001  (singular / overflowing intermediate states)
                        pass
                    continue
                nops += 1
                try:
                    if k == "P":
                        optoks.append(f"P {len(op[1])} {frs(op[1])}".strip())
                        t.param = np.array(op[1], dtype=float)
                    elif k in "TRSQ":
                        x = np.array(op[1], dtype=float)
                        if k == "S":
                            optoks.append(f"S {len(x)} {frs(np.log(x))}".strip())
                            t.scaling = x
                        else:
                            optoks.append(f"{k} {len(x)} {frs(x)}".strip())
                            setattr(t, {"T": "translation", "R": "rotation", "Q": "pre_rotation"}[k], x)
                    elif k == "F":
                        src = self._build_spec(op[1])
                        M = np.array(src.as_affine(), dtype=float)
                        if op[2]:
                            M[:3, :3] *= -1
                        lv, _ = f44_leaves(c["cls"], M)
                        optoks.append(f"F {frs(a34(M))} {lv}")
                        t.from_matrix44(M)
                    elif k == "I":
                        # t = t.inv(): leaves of as_affine() of the current state and of from_matrix44(inverse)
                        v0 = np.asarray(t._vec12, dtype=float)
                        M0 = np.asarray(t.as_affine(), dtype=float)
                        import scipy.linalg as spl
                        ok = bool(np.all(np.isfinite(M0))) and mag(M0) < 1e3 and mag(v0[3:]) < 1e3 \
                            and np.linalg.cond(M0[:3, :3]) < 50
                        # the inverse must be representable too (to_matrix44 clips translations at MAX_DIST
                        # and log-scales at LOG_MAX_DIST)
                        ok = ok and mag(spl.inv(M0)) < 1e3
                        if not ok:      # ill-conditioned / thresholded state: look only (as an observation)
                            nops -= 1
                            try:
                                t.inv()
                            except Exception:     # noqa: BLE001
                                pass
                            continue
                        Mi = spl.inv(M0)
                        lv, _ = f44_leaves(c["cls"], Mi)
                        sc0 = np.exp(clip(v0[6:9], LOG_MAX_DIST))
                        optoks.append(f"I {trig(v0[3:6])} {frs(sc0)} {trig(v0[9:12])} {lv}")
                        u = t.inv()
                        inverted = True
                        if type(u) is not type(t):
                            fail = fail or f"{c['cls']}.inv() returned a {type(u).__name__}"
                        d = far(np.asarray(u.as_affine(), dtype=float) @ M0, np.eye(4), 5e-7 * (1 + mag(Mi)) * (1 + mag(M0)))
                        if d and in_class(c["cls"], v0):
                            fail = fail or (f"{c['cls']}.inv() in a history is not the inverse of the current "
                                            f"transform: {d}")
                        t = u
                    elif k == "K":
                        import pickle
                        optoks.append("K")
                        u = pickle.loads(pickle.dumps(t))
                        if type(u) is not type(t) or far(u._vec12, t._vec12, 0) or far(u._precond, t._precond, 0) \
                                or bool(u._direct) != bool(t._direct):
                            fail = fail or f"a pickled {c['cls']} does not come back with the same state"
                        t = u
                    else:
                        optoks.append("C")
                        u = t.copy()
                        if type(u) is not type(t):
                            fail = fail or f"{c['cls']}.copy() returned a {type(u).__name__}"
                        t = u
                    statuses.append("ok")
                except Exception as e:
                    statuses.append(errname(e))
        line = f"hist {c['cls']} {fr(radius)} {atok} {nops} {' '.join(optoks)}".strip()
        if t is None:
            impl.append(("err", statuses[0]))
            if arg["a"] in ("none", "m44", "m44raw") and radius != 0:
                fail = f"{c['cls']}({arg['a']}) raised {statuses[0]}"
            elif arg["a"] == "arr" and len(arg["data"]) == 12 and radius != 0:
                fail = f"{c['cls']}(array of 12 numbers, shape {arg['shape']}) raised {statuses[0]}"
            return {"lines": [line], "impl": impl, "oracle": fail, "nontrivial": True, "tags": tags + ["ctor-refused"],
                    "mutated": snap.changed() if snap else None}
        v = np.asarray(t._vec12, dtype=float)
        isint = np.asarray(t._vec12).dtype.kind in "iu"
        head = " ".join(statuses) + f" | {1 if t._direct else 0} {1 if isint else 0}"
        impl.append(("headvals", head, list(v) + list(np.asarray(t._precond, dtype=float)),
                     (1e-9 if inverted else 1e-12) * (1 + mag(v))))
        lines.append(line)
        if isint:
            tags.append("int-storage")
        if any(s != "ok" for s in statuses[1:]):
            tags.append("op-refused")
        # ---- the final state is all there is: as_affine, getters, copy, compose, inv
        pts = np.array(c["pts"], dtype=float).reshape(-1, 3)
        if np.all(np.isfinite(v)) and mag(v[3:]) < 1e3:
            sc = np.exp(clip(v[6:9], LOG_MAX_DIST))
            lines.append(f"asaffine {frs(v)} {1 if t._direct else 0} {trig(v[3:6])} {frs(sc)} {trig(v[9:12])}")
            Ma = np.asarray(t.as_affine(), dtype=float)
            impl.append(("vals", a34(Ma), 1e-10 * (1 + mag(Ma[:3, :]))))
            try:
                if fail is None:
                    # the matrix depends on the current parameters only: a fresh object of the class holding the
                    # same parameter vector (and direct flag) gives the same matrix, whatever was observed before
                    fresh = cls(radius=radius)
                    fresh._vec12 = np.array(t._vec12, copy=True)
                    fresh._direct = t._direct
                    d = far(np.asarray(fresh.as_affine(), dtype=float), Ma, 1e-12 * (1 + mag(Ma)))
                    if d:
                        fail = (f"{c['cls']}.as_affine() after a history differs from the matrix of a fresh "
                                f"{c['cls']} holding the same parameter vector: {d}")
                if fail is None:
                    g = [t.translation, t.rotation, t.scaling, t.pre_rotation]
                    want = [v[0:3], v[3:6], np.exp(v[6:9]), v[9:12]]
                    for nm, a, b in zip(("translation", "rotation", "scaling", "pre_rotation"), g, want):
                        d = far(a, b, 1e-12 * (1 + mag(b)))
                        if d:
                            fail = f"{c['cls']}.{nm} does not return its slots of the parameter vector: {d}"
                    if bool(t.is_direct) != bool(t._direct):
                        fail = "is_direct differs from the flag"
                    txt = str(t)
                    if "translation" not in txt or "rotation" not in txt:
                        fail = fail or f"str({c['cls']}) does not describe the transform: {txt!r}"
                if fail is None:
                    u = t.copy()
                    d = far(u.as_affine(), Ma, 0.0)
                    if d or not np.array_equal(u.precond, t.precond):
                        fail = f"{c['cls']}.copy() differs from the original: {d}"
                    else:
                        u.translation = np.asarray(u.translation) + 1.0
                        if far(t.as_affine(), Ma, 0.0):
                            fail = f"changing a copy of a {c['cls']} changes the original"
                if in_class(c["cls"], v):
                    tags.append("in-class")
                    if fail is None and mag(Ma) < 1e6:
                        fail = class_invariant(c["cls"], Ma)
                if fail is None and in_class(c["cls"], v) and abs(np.linalg.det(Ma[:3, :3])) > 1e-3 and mag(Ma) < 1e3:
                    S = (1 + mag(pts)) * (1 + mag(Ma[:3, :]))
                    y = t.apply(pts)
                    d = far(y, pts @ Ma[:3, :3].T + Ma[:3, 3], 1e-9 * S)
                    if d:
                        fail = f"{c['cls']}.apply after a history differs from as_affine applied: {d}"
                    other = self._build_spec(c["other"])
                    Mo = np.asarray(other.as_affine(), dtype=float)
                    S2 = S * (1 + mag(Mo[:3, :]))
                    if fail is None:
                        d = far(t.compose(other).apply(pts), t.apply(other.apply(pts)), 5e-7 * S2)
                        if d:
                            fail = f"after a history, {c['cls']}.compose({c['other']['cls']}) is not apply-after-apply: {d}"
                    if fail is None:
                        ti = t.inv()
                        Mi = np.asarray(ti.as_affine(), dtype=float)
                        d = far(ti.apply(y), pts, 5e-7 * (1 + mag(pts, y)) * (1 + mag(Mi[:3, :])) * (1 + mag(Ma[:3, :])))
                        if d:
                            fail = f"after a history, {c['cls']}.inv() does not map transformed points back: {d}"
                    if fail is None:
                        t2 = cls(Ma.copy(), radius=radius)
                        d = far(t2.apply(pts), y, 5e-7 * S)
                        if d:
                            fail = f"after a history, {c['cls']}(t.as_affine()) maps points differently from t: {d}"
            except Exception as e:
                fail = fail or f"observing a {c['cls']} after a history raised {type(e).__name__}: {e}"
        return {"lines": lines, "impl": impl, "oracle": fail, "nontrivial": True, "tags": tags,
                "mutated": snap.changed() if snap else None}

    # -- ChainTransform construction and param histories -------------------------------------------
    def _chain2(self, c):
        from nipy.algorithms.registration import affine as A
        from nipy.algorithms.registration import polyaffine as PA
        from nipy.algorithms.registration.chain_transform import ChainTransform
        from nipy.algorithms.registration.transform import Transform
        pts = np.array(c["pts"], dtype=float).reshape(-1, 3)
        snap = Snapshot(pts=pts)
        gens = {"quad": self._quad, "abs": (lambda p: np.abs(np.asarray(p, dtype=float)))}

        def build(s):
            """-> (python argument, reference transform or None, token)"""
            k = s["s"]
            if k == "none":
                return None, None, "none"
            if k == "gen":
                tr = Transform(gens[s["gen"]])
                return tr, tr, "xf G " + s["gen"]
            if k == "xf":
                tr = self._build_spec(s["spec"])
                return tr, tr, None
            if k == "arr44":
                tr = self._build_spec(s["spec"])
                M = np.array(tr.as_affine(), dtype=float)
                if s.get("neg"):
                    M[:3, :3] *= -1
                return M, A.Affine(M.copy()), "arr " + frs(a34(M))
            if k == "arr12":
                v = np.array(s["spec"]["nat"], dtype=float).reshape(s["shape"])
                ref = A.Affine(v.copy())
                return v, ref, "arr " + frs(a34(ref.as_affine()))
            if k == "bad":
                return np.ones(s["shape"]), None, "bad"
            if k == "poly":
                P = PA.PolyAffine(np.zeros((1, 3)), [A.Affine()], 1.0)
                return P, P, "poly"
            raise ValueError(k)

        oarg, oref, otok = build(c["opt"])
        parg, pref, ptk = build(c["pre"])
        qarg, qref, qtk = build(c["post"])
        lines, impl = [], []
        fail = None
        tags = ["chain2", "opt=" + c["opt"]["s"], "pre=" + c["pre"]["s"], "post=" + c["post"]["s"]]
        try:
            ct = ChainTransform(oarg, pre=parg, post=qarg)
            built = True
        except Exception as e:
            built = False
            err = errname(e)
        supported = c["opt"]["s"] == "xf" and c["pre"]["s"] != "bad" and c["post"]["s"] != "bad"

        def xtok(s, ref, tok):
            if tok is not None:
                return tok
            return f"xf A {s['spec']['cls']} {frs(a34(ref.as_affine()))}"

        if not built:
            ot = otok if otok is not None else xtok(c["opt"], oref, None)
            if c["opt"]["s"] == "arr44":
                ot = "arr " + frs(a34(oarg))
            lines.append(f"chaininit {ot} {xtok(c['pre'], pref, ptk)} {xtok(c['post'], qref, qtk)} 0")
            impl.append(("err", err))
            if supported:
                fail = f"ChainTransform({tags[1:]}) raised {err}"
            return {"lines": lines, "impl": impl, "oracle": fail, "nontrivial": True, "tags": tags + ["refused"],
                    "mutated": snap.changed()}
        if not supported:
            fail = f"ChainTransform accepted an unsupported combination {tags[1:]}"
        # param histories through the chain
        opt = ct.optimizable
        if opt is not oarg and fail is None:
            fail = "ChainTransform.optimizable is not the transform passed in"
        cls = c["opt"]["spec"]["cls"]
        for hi, p in enumerate(c["hist"]):
            if hi % 2 == 0:     # look at the chain between assignments: observations must not influence later results
                try:
                    ct.apply(pts)
                except Exception:     # noqa: BLE001
                    pass
            v0 = np.array(opt._vec12, dtype=float).copy()
            pc = np.array(opt._precond, dtype=float).copy()
            p = np.array(p, dtype=float)
            line = f"setparam {cls} {frs(v0)} {frs(pc)} {len(p)} {frs(p)}".rstrip()
            try:
                ct.param = p
                lines.append(line); impl.append(("vals", list(opt._vec12), 1e-10 * (1 + mag(opt._vec12))))
                if len(p) == len(INDS[cls]) and fail is None:
                    d = far(ct.param, p, 1e-9 * (1 + mag(p)))
                    if d:
                        fail = f"ChainTransform.param read back differs from the assigned vector: {d}"
            except Exception as e:
                lines.append(line); impl.append(("err", errname(e)))
                if len(p) == len(INDS[cls]) and fail is None:
                    fail = f"ChainTransform.param = (length {len(p)}) raised {type(e).__name__}: {e}"
        if fail is None and far(ct.param, opt.param, 0):
            fail = "ChainTransform.param is not the optimisable transform's param"
        Mo = np.asarray(opt.as_affine(), dtype=float)
        ok_mag = np.all(np.isfinite(Mo)) and mag(Mo) < 1e4 and abs(np.linalg.det(Mo[:3, :3])) > 1e-4
        if ok_mag:
            try:
                y = np.asarray(ct.apply(pts), dtype=float).reshape(-1, 3)
                x1 = pref.apply(pts) if pref is not None else pts
                # through a fresh transform of the class holding the current parameter vector
                fresh = type(opt)()
                fresh._precond = np.array(opt._precond, copy=True)
                fresh._vec12 = np.array(opt._vec12, copy=True)
                fresh._direct = opt._direct
                x2 = fresh.apply(x1)
                x3 = qref.apply(x2) if qref is not None else x2
                gen = c["pre"]["s"] == "gen" or c["post"]["s"] == "gen"
                S = (1 + mag(pts, x1, x2, x3)) ** (2 if gen else 1)
                for tr in (pref, opt, qref):
                    if tr is not None and hasattr(tr, "as_affine"):
                        S *= 1 + mag(np.asarray(tr.as_affine())[:3, :3])
                lines.append(f"chaininit xf A {cls} {frs(a34(Mo))} {xtok(c['pre'], pref, ptk)} "
                             f"{xtok(c['post'], qref, qtk)} {ptok(pts)}")
                impl.append(("vals", y.ravel().tolist(), 5e-7 * S))
                d = far(y, np.asarray(x3).reshape(-1, 3), 5e-7 * S)
                if d and fail is None:
                    fail = f"ChainTransform.apply (after {len(c['hist'])} param assignments) differs from post(opt(pre(pts))): {d}"
            except Exception as e:
                if fail is None:
                    fail = f"ChainTransform.apply raised {type(e).__name__}: {e}"
        return {"lines": lines, "impl": impl, "oracle": fail, "nontrivial": len(pts) > 0,
                "tags": tags + [f"assignments={min(len(c['hist']), 3)}"], "mutated": snap.changed()}

    # -- PolyAffine in full ------------------------------------------------------------------------
    def _polyfull(self, c):
        import ctypes
        from harness import cshim
        from nipy.algorithms.registration import affine as A
        from nipy.algorithms.registration import polyaffine as PA
        lib = cshim.load("registration")
        lib.apply_polyaffine.restype = None

        def c_apply(xyz, centers, affines, sigma):
            lib.apply_polyaffine(ctypes.py_object(xyz), ctypes.py_object(np.ascontiguousarray(centers)),
                                 ctypes.py_object(np.ascontiguousarray(affines)), ctypes.py_object(sigma))
        PA._apply_polyaffine = c_apply
        pts = np.array(c["pts"], dtype=float).reshape(-1, 3)
        centers = np.array(c["centers"], dtype=float).reshape(-1, 3)
        affs = [self._build_spec(s) for s in c["affs"]]
        if c["same"] and affs:
            affs = [affs[0]] * len(affs)
        Ms = [np.asarray(a.as_affine(), dtype=float) for a in affs]
        glob = None
        gM = None
        if c["glob"] is not None:
            g = self._build_spec(c["globspec"])
            gM = np.asarray(g.as_affine(), dtype=float)
            glob = g if c["glob"] == "xf" else gM.copy()
        other = self._build_spec(c["other"])
        oM = np.asarray(other.as_affine(), dtype=float)
        snap = Snapshot(pts=pts, centers=centers)
        mode = c["mode"]
        tags = ["polyfull", "mode=" + mode, f"k={len(centers)}", "glob=" + str(c["glob"]),
                "affs=" + ("arrays" if c["as_arrays"] else "transforms")]
        fail = None
        sig = np.zeros(3); sig[:] = c["sigma"]
        gl = "N" if gM is None else "Y " + frs(a34(gM))
        head = (f"polyfull {gl} {len(centers)} {' '.join(frs(x) for x in centers)} {len(Ms)} "
                f"{' '.join(frs(a34(m)) for m in Ms)} {frs(sig)} {mode}" + ("" if mode == "apply" else " " + frs(a34(oM))))
        head = " ".join(head.split())
        try:
            arg = np.array(Ms) if (c["as_arrays"] and Ms) else affs
            P0 = PA.PolyAffine(centers, arg, c["sigma"], glob_affine=glob)
        except Exception as e:
            ok_shape = len(Ms) == len(centers) and len(Ms) > 0
            return {"lines": [head + " 0"], "impl": [("err", errname(e))], "nontrivial": True,
                    "tags": tags + ["ctor-refused"], "mutated": snap.changed(),
                    "oracle": (f"PolyAffine with {len(centers)} centres and {len(Ms)} affines raised "
                               f"{type(e).__name__}: {e}") if ok_shape else None}
        if len(Ms) != len(centers):
            fail = f"PolyAffine accepted {len(Ms)} affines for {len(centers)} centres"
        try:
            P = P0 if mode == "apply" else (P0.compose(other) if mode == "compose" else other.compose(P0))
            y = np.asarray(P.apply(pts), dtype=float).reshape(-1, 3)
        except Exception as e:
            return {"lines": [], "impl": [], "nontrivial": True, "tags": tags + ["raised"], "mutated": snap.changed(),
                    "oracle": f"PolyAffine {mode} raised {type(e).__name__}: {e}"}
        # where the Gaussians are evaluated
        G = gM
        if mode == "compose":
            G = oM if gM is None else gM @ oM
        gx = pts if G is None else pts @ G[:3, :3].T + G[:3, 3]
        sigc = np.maximum(1e-200, sig)
        with np.errstate(all="ignore"):
            d2 = np.sum(((gx[:, None, :] - centers[None, :, :]) / sigc) ** 2, axis=2)
            W = np.exp(-0.5 * d2)
        locM = Ms if mode != "left" else [oM @ m for m in Ms]
        pl = " ".join(f"{frs(pts[i])} {frs(W[i])}" for i in range(len(pts)))
        line = " ".join(f"{head} {len(pts)} {pl}".split())
        vals, tols = [], []
        S = (1 + mag(pts, gx)) * (1 + max([mag(m[:3, :]) for m in locM] + [0.0]))
        wsum = W.sum(axis=1) if len(pts) else np.zeros(0)
        # a clamped (zero) sigma amplifies the rounding of the global affine by 1e200: then only exact inputs compare
        wild = float(np.min(sigc)) < 1e-50 and G is not None
        for i in range(len(pts)):
            under = wsum[i] < 1e-150 or wild
            vals += y[i].tolist(); tols += [(1e-9 * S) if not under else float("inf")] * 3
            for j in range(len(centers)):
                fin = np.isfinite(d2[i, j]) and d2[i, j] < 1e300 and not wild
                vals.append(float(d2[i, j]) if fin else 0.0)
                tols.append(1e-12 * (1 + abs(d2[i, j])) if fin else float("inf"))
        impl = [("tagvals", None, vals, tols)]
        if fail is None:
            for i in range(len(pts)):
                if wsum[i] < 1e-150:
                    tags.append("underflow")
                    continue
                im = np.array([m[:3, :3] @ gx[i] + m[:3, 3] for m in locM])
                if not np.all(np.isfinite(y[i])):
                    fail = f"PolyAffine.apply({pts[i].tolist()}) is not finite: {y[i].tolist()} (sigma {c['sigma']})"
                    break
                lo, hi = im.min(axis=0), im.max(axis=0)
                eps = 1e-9 * (1 + mag(im))
                if np.any(y[i] < lo - eps) or np.any(y[i] > hi + eps):
                    fail = (f"PolyAffine.apply: image {y[i].tolist()} of {pts[i].tolist()} is outside the box spanned by "
                            f"the images under its local affines ({lo.tolist()} .. {hi.tolist()}): not a convex combination")
                    break
                if len(locM) == 1 or c["same"]:
                    d = far(y[i], im[0], 1e-9 * (1 + mag(im)))
                    if d:
                        fail = f"PolyAffine with one distinct local affine does not map like that affine: {d}"
                        break
        return {"lines": [line], "impl": impl, "oracle": fail, "nontrivial": len(pts) > 0,
                "tags": tags, "mutated": snap.changed()}
