"""C19 — array-level analyses respect axis conventions and their decompositions.

Correspondence: `st_*` (+ registry), `np.rollaxis`, `time_slice_diffs`, `pca`
(svd/eigh recorded from the real run and handed to the model), `intersect_masks`,
`largest_cc`, `threshold_connect_components`, `compute_mask`, `parcels`,
`slice_generator` vs the Lean model.  Oracle: the property clauses evaluated on
the real code (axis-moved call, NumPy definitions, orthonormality, SVD, affine
invariance, partitions).
"""
from __future__ import annotations

import itertools
import math
import types
import warnings
from fractions import Fraction

import numpy as np

from harness.core import REPO, PropertyCheck, TieBroken
from harness.props import c19_mask as MK
from harness.props import c19_more as MR
from harness.props import c19_pca as PC
from harness.props import c19_img as IM
from harness.props import c19_registry as RG
from harness.props import c19_source as SRC
from harness.props import c19_expr as EXP
from harness.util import Snapshot, all_close, cmp_rats, errname, fr, frs, parse_rats

SCHEDS = ["st_01234", "st_43210", "st_02413", "st_13024", "st_42031", "st_odd0_even1",
          "st_03142", "st_41302"]
ALIASES = {"st_01234": "ascending", "st_43210": "descending", "st_02413": "asc_alt_2",
           "st_13024": "asc_alt_2_1", "st_42031": "desc_alt_2", "st_odd0_even1": "asc_alt_siemens",
           "st_03142": "asc_alt_half", "st_41302": "desc_alt_half"}
TRS = [1.0, 2.0, 2.5, 3.0, 0.75, 1.1, 0.72, 2.2]
TSD_DTYPES = ["float64"] * 6 + ["uint8", "int16", "int8", "uint16", "int32", "float32"]
PCA_DTYPES = ["float64"] * 7 + ["int8", "int16", "float32", "uint8"]
INT_RANGE = {"uint8": (0, 256), "int8": (-128, 128), "int16": (-30000, 30000), "uint16": (0, 65536),
             "int32": (-40000, 40000)}


def documented_order(name, n):
    """slice acquired at each successive slot, written from the docstrings"""
    ev, od = list(range(0, n, 2)), list(range(1, n, 2))
    if name == "st_01234":
        return list(range(n))
    if name == "st_43210":
        return list(range(n - 1, -1, -1))
    if name == "st_02413":
        return ev + od
    if name == "st_13024":
        return od + ev
    if name == "st_42031":
        return [n - 1 - i for i in ev + od]
    if name == "st_odd0_even1":
        return od + ev if n % 2 == 0 else ev + od
    half = -(-n // 2)  # ceil
    if name == "st_03142":
        out = []
        for k in range(half):
            out.append(k)
            if half + k < n:
                out.append(half + k)
        return out
    if name == "st_41302":
        out = []
        for k in range(half):
            out.append(n - 1 - k)
            if half + k < n:
                out.append(n - 1 - half - k)
        return out
    raise KeyError(name)


def vview(a):
    a = np.asarray(a)
    return f"{a.ndim} " + " ".join(str(int(s)) for s in a.shape) + (" " + frs(a.ravel().tolist()) if a.size else "")


def optvol(a):
    return "0" if a is None else "1 " + frs(np.asarray(a, dtype=float).ravel().tolist())


def pmatf(m):
    m = np.atleast_2d(np.asarray(m, dtype=float))
    return f"{m.shape[0]} {m.shape[1]} " + frs(m.ravel().tolist())


def rand_shape(rng, nd, tmin=2):
    return [rng.choice([1, 2, 2, 3, 3, 4]) for _ in range(nd)]


def int_array(seed, shape, lo=-4, hi=5):
    return np.random.RandomState(seed).randint(lo, hi, size=shape).astype(float)


flood_components = MK.flood_components


class C19(PropertyCheck):
    id = "C19"
    title = "Array-level analyses respect axis conventions and their decompositions"
    lean_modules = ["NipyVerif.Props.C19", "NipyVerif.Props.C19B", "NipyVerif.Props.C19C", "NipyVerif.Props.C19D",
                    "NipyVerif.Props.C19E", "NipyVerif.Props.C19F"]
    driver = "Drivers/C19.lean"
    rule = ("slice schedules: every n in 1..200 for all 8 schedules and their aliases, and every key of the live "
            "SLICETIME_FUNCTIONS against the table regenerated from timefuncs.py; slice times as consumed by "
            "SpaceTimeRealign / FmriRealign4d (str / short / alias / callable / array, slice_info int or (axis, +-1)); "
            "time_slice_diffs: the complete (ndim 2..5) x (time axis, negative included) x (slice axis or None) "
            "table on seeded arrays of float64 / float32 / uint8 / int8 / int16 / uint16 / int32 in C / Fortran / "
            "reversed / strided / big-endian / read-only / list layouts, magnitudes 2**-20 .. 2**40, two further calls "
            "on the same array (earlier result unchanged, repeated call equal), out-of-range axes, named image axes, screens.screen; pca: seeded arrays of "
            "2..5 dims (float64 / float32 / int8 / int16 / int32 / uint8 / uint16; C / Fortran / strided / "
            "negative-stride / read-only / list), every axis, ncomp in {None, 0, 1, 2, T-1, T, T+3, -1}, standardize, "
            "design_keep (full / narrow / rank-deficient), design_resid ('mean' / None / linear / rank-deficient / "
            "one column), tol_ratio, masks (bool / int8 / uint8 weights / signed weights / float / float with NaN / "
            "float32 with NaN, C or Fortran), ~12 % malformed calls (axis None / out of range, mask of another shape, "
            "design row counts); image front ends (pca_image, time_slice_diffs_image, screen, io_axis_indices, "
            "input_axis_index, parse_fname_axes) on coordinate maps with permuted / sheared / zero-scaled affines, "
            "names shared between domain and range, every axis spelling; plot_tsdiffs on an Agg canvas, tsdiffana / "
            "diagnose / write_screen_res through NIfTI files; "
            "masks: collections of 1..13, 127..300 and 2**15 (+1) masks of every dtype with 0/1 and other values, "
            "every threshold separating two voxel counts, files; compute_mask / _files / _sessions (1..300 "
            "sessions, images / 4-D / file lists) on every volume dtype; largest_cc with up to 65600 components; "
            "series_from_mask; generators incl. label sequences of up to 70000 entries; non-trivial = at least two "
            "time points / slices / masks / sessions / labels, a resolvable axis for the image front ends; distinct "
            "by full JSON of the case")
    assumptions = [
        "np.argsort of a permutation is its inverse permutation (model: position lookup); checked for n = 1..200",
        "numpy.linalg.svd / eigh and sqrt are certified parameters of the PCA model: U, S, D, Vs of the real run "
        "(exact dyadic rationals) and the 1 / rmse scales enter the model, which returns the exact residuals of "
        "their contracts (UX UX^T = 1, XZ XZ^T U = U S^2, S sorted, Vs^T Vs = 1, C Vs = Vs D, scale^2 msq = 1); "
        "the harness requires them at rounding level (1e-9 relative; 1e-4 for the scale of float32 data); the "
        "theorems pca_basis_orthonormal_of_cert / pca_diagonalises_of_cert / standardised_unit_msq_of_cert take "
        "exactly these residuals as hypotheses and give explicit bounds",
        "numpy.linalg.pinv: the harness computes the exact rational pseudo-inverse of design_keep / design_resid "
        "(rank factorisation over Fraction); the model decides the four Moore-Penrose equations exactly (mpOK) "
        "and mp_unique shows the certified matrix is the pseudo-inverse; numpy's floating-point pinv enters only "
        "through the tolerant comparison of XZ / covariance / results",
        "np.argsort(-D) is modelled by a stable descending sort; basis vectors of numerically tied eigenvalues "
        "are not compared; runs whose singular-value ratios lie within 1e-9 of tol_ratio, or whose residual "
        "series is rounding noise before standardisation, are not judged",
        "io_orientation (nibabel; the in->out axis pairing that axmap reports) is a parameter of the model of "
        "io_axis_indices / input_axis_index / drop_io_dim / pca_image / time_slice_diffs_image / screen; "
        "coordmap.similar_to (mask image of pca_image) is decided by the real method and passed as a flag; "
        "reordered_axes / rollimg data movement is C02's subject (the model follows the names only)",
        "plot_tsdiffs is observed through matplotlib's Agg canvas (line data, scatter offsets, x-limits); colours, "
        "labels and the PNG files are not compared; write_screen_res / tsdiffana / diagnose: the arrays and images "
        "written are compared with the computed results, file-name plumbing is exercised only",
        "scipy.ndimage.label supplies the component labels to the model of largest_cc / "
        "threshold_connect_components; the oracle re-labels with an independent flood fill; every component case is "
        "also presented as a floating-point map whose non-zero voxels carry +-inf / NaN / +-1e308 / denormal values "
        "(oracle only: the model is rational; components below the threshold become 0, the rest stays bitwise)",
        "ndimage.binary_opening, ndimage.gaussian_filter and the float rounding of threshold*len / m*len are "
        "outside the model (model lines only where the float product is exact; thresholds within 1e-3 of a "
        "voxel count are not judged by the oracle)",
        "the membership count of intersect_masks / compute_mask_sessions is an unbounded integer in the model "
        "(np.int_ in the code: exact below 2**63 masks)",
        "the per-slice highest-difference search of time_slice_diffs is modelled slice by slice (loop interchange)",
        "time_slice_diffs with a single time point (0/0) is outside the model",
        "nibabel file I/O (compute_mask_files, series_from_mask, file-name arguments) is exercised by the oracle "
        "only; the model sees the arrays as loaded",
        "the shape of each st_* body, of _dec_register_stf and of _derived_func is recognised syntactically by "
        "the translator (TieBroken otherwise); interp_slice_times is modelled on rational slice positions",
        "c19_source.py recognises one strict shape per formula-like source line (rank rule, rmse denominator, "
        "percent scale, back-roll offset, default slice axis, screen's positional guess, parse_fname_axes "
        "defaults, plot x-limits, signature defaults) and raises TieBroken otherwise; theorems source_* state "
        "that the regenerated definitions are the model's",
        "c19_expr.py translates the bodies of compute_mask, largest_cc, threshold_connect_components, intersect_masks "
        "(whole; file-name plumbing skipped; the cap `1 - 1.e-7` folded in double precision), the axis "
        "prologue / back-rolls / loop expressions of time_slice_diffs and the project_resid / X / ncomp / axis "
        "statements of pca statement by statement into Lean terms over the numpy leaves of Model/C19E.lean "
        "(TieBroken on any name, operator or call outside its table); ndimage.label, npl.pinv, "
        "ndimage.binary_opening and largest_cc inside compute_mask are named leaves (parameters); theorems "
        "*_as_modelled (Props/C19E, C19F) prove the generated terms equal to the model's definitions, under the "
        "contract of ndimage.label (largest label = label_nb, labels of the map's size) where bincount's length "
        "matters; `int(math.floor(m * n))` is translated for m, M >= 0 only (negative fractions would be Python's "
        "from-the-end slice bounds) and `a - b` of the two gap slices for equal lengths only (numpy would broadcast "
        "a length-1 slice: M = 1 with two values left is outside the model)",
        "the axis tables (time_slice_diffs, pca, output shapes, pca_image names) are proved for arrays / images "
        "of 2..5 dimensions (the property's quantifier), not for arbitrary ndim",
    ]
    level_note = ("PCA orthonormality / SVD equivalence are proved from per-run certificates of svd / eigh / sqrt "
                  "(exact residuals computed by the model, explicit bounds) and an exactly decided Moore-Penrose "
                  "certificate of pinv; the floating-point svd / eigh themselves, io_orientation, "
                  "connected-component labelling, morphological opening and Gaussian smoothing remain "
                  "parameters or oracle-only; 'each position exactly once' is proved for slice_generator over one "
                  "axis (positions and values, 2..5 dims), for the index tuples of multi-axis slice_generator, for "
                  "write_data o data_generator and for parcels / slice_parcels, not for the values of multi-axis slices; "
                  "wave 5: the bodies of compute_mask / largest_cc / intersect_masks / threshold_connect_components (incl. "
                  "their loops, by loop invariants), the axis prologue and loop expressions of time_slice_diffs and the "
                  "projector statements of pca are regenerated from the source text as Lean terms and proved equal to "
                  "the model (an edited comparison / index / constant breaks a proof obligation); the generated terms "
                  "are also run by the driver (x-lines) against the real code; the accumulation loop of "
                  "time_slice_diffs as a whole, _get_covariance / _get_basis_projections and pca_image's body are "
                  "still tied by correspondence only")
    finding_keys = {
        "C19-intersect-nonbinary": "intersect_masks sums mask values (first mask truncated to int) instead of "
                                   "counting memberships",
        "C19-sessions-int8": "compute_mask_sessions counts in int8: wraps from 128 sessions",
        "C19-sessions-threshold-1": "compute_mask_sessions(threshold=1) is empty instead of the intersection",
        "C19-sessions-mean": "compute_mask_sessions(return_mean=True) with image sessions returns a wrong mean "
                             "and writes into the images' data",
        "C19-cmask-integer": "compute_mask on integer volumes: threshold midpoint overflows the integer type",
        "C19-tsd-integer": "time_slice_diffs on integer arrays subtracts / squares in the integer type",
        "C19-pca-integer": "pca(standardize=True, design_resid=None) squares integer data in the integer type",
        "C19-matrix-generator-1d": "matrix_generator raises TypeError on 1-D items (np.prod(()) is a float)",
        "C19-screen-time-name": "screen drops the axis named 't' instead of the time axis it was given",
    }

    def translators(self):
        """nipy/algorithms/slicetiming/timefuncs.py -> lean/NipyVerif/Gen/C19Registry.lean;
        formula-like lines of pca.py / timediff.py / screens.py / commands.py / tsdiffplot.py ->
        lean/NipyVerif/Gen/C19Source.lean; function bodies of mask.py / timediff.py / pca.py as Lean terms ->
        lean/NipyVerif/Gen/C19Expr.lean (harness/props/c19_expr.py)"""
        return RG.translate(REPO, TieBroken) + SRC.translate(REPO, TieBroken) + EXP.translate(REPO, TieBroken)

    # ------------------------------------------------------------------ generation
    def generate(self, rng, tier):
        quick = tier == "quick"
        cases = []
        # slice timing: all n in 1..200 (the property names the domain)
        for n in range(1, 201):
            cases.append({"kind": "st", "n": n, "tr": rng.choice(TRS)})
        cases.append({"kind": "stbad", "name": rng.choice(["st_12345", "asc", "", "ST_01234"])})
        # rollaxis table
        for n in range(1, 6):
            cases.append({"kind": "rollaxis", "n": n})
        # collections of masks first: the large collections are the longest cases
        cases += MK.gen_intersect(rng, quick)
        # time_slice_diffs: complete axis table
        reps = 1 if quick else 8
        for rep in range(reps):
            for nd in range(2, 6):
                for ta in range(-nd, nd):
                    for sa in [None] + list(range(-nd, nd)):
                        shape = rand_shape(rng, nd)
                        shape[ta % nd] = rng.choice([2, 3, 4, 5])
                        cases.append({"kind": "tsd", "shape": shape, "seed": rng.randrange(1 << 30),
                                      "ta": ta, "sa": sa, "frac": rng.random() < 0.2,
                                      "dtype": rng.choice(TSD_DTYPES),
                                      "layout": rng.choice(["C", "C", "F", "rev", "list", "strided", "be", "ro"]),
                                      "scale": rng.choice([0, 0, 0, 20, 40, -20])})
        for _ in range(30 if quick else 300):   # out-of-range axes
            nd = rng.choice([2, 3, 4])
            shape = [rng.choice([2, 3]) for _ in range(nd)]
            ta = rng.choice([nd, nd + 1, -nd - 1, -nd - 2, 0, -1])
            sa = rng.choice([None, nd, -nd - 1, nd + 2, 0, 1])
            cases.append({"kind": "tsd", "shape": shape, "seed": rng.randrange(1 << 30), "ta": ta, "sa": sa,
                          "frac": False})
        for _ in range(40 if quick else 600):
            cases.append({"kind": "tsdimg", "shape": [rng.choice([2, 3, 4]) for _ in range(4)],
                          "seed": rng.randrange(1 << 30),
                          "names": rng.choice(["ijkt", "tijk", "itjk", "ijtk"]),
                          "ta": rng.choice(["t", "t", "T", -1, 0, 3, "i"]),
                          "sa": rng.choice(["k", "z", "j", "i", 2, -2, 1, "slice"]),
                          "rename_slice": rng.random() < 0.3})
        # pca
        for _ in range(120 if quick else 4000):
            nd = rng.choice([2, 3, 3, 4, 5])
            shape = [rng.choice([1, 2, 2, 3]) for _ in range(nd)]
            ax = rng.randrange(-nd, nd)
            shape[ax % nd] = rng.choice([3, 4, 5, 6])
            if all(s == 1 for i, s in enumerate(shape) if i != ax % nd):
                shape[(ax + 1) % nd] = 3
            T = shape[ax % nd]
            cases.append({"kind": "pca", "shape": shape, "seed": rng.randrange(1 << 30), "axis": ax,
                          "mask": rng.choice(["none", "none", "bool", "bool", "float", "int"]),
                          "ncomp": rng.choice([None, None, 1, 2, T - 1]),
                          "standardize": rng.random() < 0.5,
                          "keep": rng.choice([None, None, None, "rand"]),
                          "resid": rng.choice(["mean", "mean", None, "rand"]),
                          "dtype": rng.choice(PCA_DTYPES)})
        cases += PC.gen_pcaf(rng, quick)
        cases += IM.gen_imgax(rng, quick)
        cases += IM.gen_tsdplot(rng, quick)
        for _ in range(10 if quick else 150):
            cases.append({"kind": "pcaimg", "shape": [rng.choice([2, 3]) for _ in range(3)] + [rng.choice([4, 5])],
                          "seed": rng.randrange(1 << 30), "names": rng.choice(["ijkt", "tijk", "ijtk"]),
                          "axis": rng.choice(["t", "t", -1, 0, 3, "i", "x"]), "mask": rng.random() < 0.4})
        # masks (harness/props/c19_mask.py)
        cases += MK.gen_cc(rng, quick)
        cases += MK.gen_cmask(rng, quick)
        cases += MK.gen_sessions(rng, quick)
        cases += MK.gen_cmfiles(rng, quick)
        cases += MK.gen_series(rng, quick)
        # slice-time registry / use in realignment, screens, generators (harness/props/c19_more.py)
        cases += MR.gen_streg(rng, quick)
        cases += MR.gen_strealign(rng, quick)
        cases += MR.gen_screen(rng, quick)
        cases += MR.gen_gens(rng, quick)
        # generators
        for _ in range(80 if quick else 3000):
            nd = rng.choice([1, 2, 3])
            cases.append({"kind": "parcels", "shape": [rng.choice([1, 2, 3, 4]) for _ in range(nd)],
                          "seed": rng.randrange(1 << 30), "nval": rng.choice([1, 2, 3, 5]),
                          "labels": rng.choice(["none", "none", "list", "nested"]),
                          "exclude": rng.choice([[], [], [0.0], [1.0, 2.0]])})
        for _ in range(100 if quick else 4000):
            nd = rng.choice([2, 3, 4, 5])
            shape = [rng.choice([1, 2, 3]) for _ in range(nd)]
            if rng.random() < 0.5:
                axis = rng.randrange(-nd, nd)
            else:
                k = rng.choice([1, 2, 2, 3, 3, min(4, nd)])
                k = min(k, nd)
                axis = rng.sample(range(nd), k)
                axis = [a - nd if rng.random() < 0.25 else a for a in axis]
            cases.append({"kind": "slicegen", "shape": shape, "seed": rng.randrange(1 << 30), "axis": axis})
        return cases

    # ------------------------------------------------------------------ per case
    def run_case(self, case):
        warnings.filterwarnings("ignore")
        np.seterr(all="ignore")
        return self._with_source_lines(getattr(self, "_" + case["kind"])(case))

    # the functions regenerated from the source text (Gen/C19Expr.lean) are run on the same lines as the model
    # (`x` + line kind) and compared with the same observation of the real code
    XKINDS = ("largestcc", "threshcc", "computemask", "tsd", "intersectb")

    @staticmethod
    def _with_source_lines(res):
        lines, impl = res.get("lines"), res.get("impl")
        if not lines or impl is None or len(lines) != len(impl):
            return res
        xl, xi = [], []
        for ln, ob in zip(lines, impl):
            head, _, rest = ln.partition(" ")
            if head not in C19.XKINDS:
                continue
            if head == "threshcc" and int(rest.split(" ", 1)[0]) > 64:
                continue      # the enumerate loop as written is O(components x voxels)
            xl.append("x" + ln)
            xi.append(ob)
        if xl:
            res = dict(res)
            res["lines"] = list(lines) + xl
            res["impl"] = list(impl) + xi
            res["tags"] = list(res.get("tags", [])) + sorted({"source-" + l.split(" ", 1)[0][1:] for l in xl})
        return res

    # ---- slice timing
    def _st(self, c):
        from nipy.algorithms.slicetiming import timefuncs as tf
        n, tr = c["n"], c["tr"]
        lines, impl, fail = [], [], None
        for name in SCHEDS:
            for nm in (name, name[3:], ALIASES[name]):
                f = tf.SLICETIME_FUNCTIONS.get(nm)
                if f is None:
                    fail = fail or f"SLICETIME_FUNCTIONS has no entry {nm!r}"
                    continue
                try:
                    t = np.asarray(f(n, tr), dtype=float)
                except Exception as e:
                    fail = fail or f"{nm}({n}, {tr}) raised {type(e).__name__}: {e}"
                    continue
                lines.append(f"st {nm} {n} {fr(tr)}")
                impl.append(("rats", t.tolist(), 1e-12))
                if fail is None:
                    slot = t / (tr / n)
                    k = np.rint(slot).astype(int)
                    if t.shape != (n,):
                        fail = f"{nm}({n}, {tr}) has shape {t.shape}"
                    elif not np.allclose(slot, k, atol=1e-6) or sorted(k.tolist()) != list(range(n)):
                        fail = (f"{nm}({n}, {tr}): slice times are not one distinct slot k*TR/n, k=0..n-1, "
                                f"per slice: {t.tolist()[:8]}")
                    elif t.min() < 0 or t.max() >= tr:
                        fail = f"{nm}({n}, {tr}): time outside [0, TR)"
                    else:
                        order = np.argsort(k).tolist()
                        want = documented_order(name, n)
                        if order != want:
                            fail = (f"{nm}({n}, {tr}): acquisition order {order[:8]}… differs from the "
                                    f"documented order {want[:8]}…")
        return {"lines": lines, "impl": impl, "oracle": fail, "nontrivial": n >= 2,
                "tags": ["st", "n-even" if n % 2 == 0 else "n-odd"], "mutated": None}

    def _stbad(self, c):
        from nipy.algorithms.slicetiming import timefuncs as tf
        try:
            tf.SLICETIME_FUNCTIONS[c["name"]]
            obs = "found"
        except KeyError as e:
            obs = errname(e)
        if not c["name"]:
            return {"lines": [], "impl": [], "oracle": None, "nontrivial": False, "tags": ["st-unknown-name"]}
        return {"lines": [f"st {c['name']} 3 1"], "impl": [("text", obs)], "oracle": None,
                "nontrivial": False, "tags": ["st-unknown-name"], "mutated": None}

    def _rollaxis(self, c):
        n = c["n"]
        lines, impl = [], []
        a = np.empty([1] * n)
        for ax in range(-n - 1, n + 1):
            for st in range(-n - 2, n + 3):
                lines.append(f"rollaxis {n} {ax} {st}")
                try:
                    lab = np.arange(n).reshape([1] * 0 + [n])  # labels
                    x = np.empty(tuple(range(2, 2 + n)))       # distinct extents identify the axes
                    r = np.rollaxis(x, ax, st)
                    impl.append(("text", " ".join(str(s - 2) for s in r.shape)))
                except Exception as e:
                    impl.append(("text", errname(e)))
        return {"lines": lines, "impl": impl, "oracle": None, "nontrivial": n >= 2, "tags": ["rollaxis"],
                "mutated": None}

    # ---- time_slice_diffs
    def _tsd(self, c):
        from nipy.algorithms.diagnostics.timediff import time_slice_diffs
        dt = c.get("dtype", "float64")
        rt = 1e-5 if dt == "float32" else 1e-12   # float32 volumes are averaged in float32
        if dt in INT_RANGE:
            # integer volumes over the whole range of their type (differences pass the type's maximum)
            a = np.random.RandomState(c["seed"]).randint(*INT_RANGE[dt], size=c["shape"]).astype(dt)
        else:
            a = int_array(c["seed"], c["shape"], *((0, 2) if c["seed"] % 4 == 0 else (-4, 5)))
            if c.get("frac"):
                a = a / 4 + 0.5
            a = a.astype(dt)   # small dyadic values: exact in float32 as well
        if c.get("scale") and a.dtype.kind == "f":
            a = (a * 2.0 ** c["scale"]).astype(dt)   # power-of-two magnitudes: every operation stays exact
        lay = c.get("layout", "C")
        if lay == "F":
            a = np.asfortranarray(a)
        elif lay == "rev":
            a = a[::-1].copy()[::-1]
        elif lay == "strided":                       # every second element of a larger buffer
            big = np.full(tuple(a.shape[:-1]) + (2 * a.shape[-1],), 99, dtype=a.dtype)
            big[..., ::2] = a
            a = big[..., ::2]
        elif lay == "be":                            # non-native byte order
            a = a.astype(a.dtype.newbyteorder(">"))
        elif lay == "ro":
            a = a.copy()
            a.setflags(write=False)
        af = np.asarray(a, dtype=float)
        nd, ta, sa = a.ndim, c["ta"], c["sa"]
        line = f"tsd {vview(af)} {ta} {'none' if sa is None else sa}"
        snap = Snapshot(a=a)
        arg = a.tolist() if lay == "list" else a
        valid = -nd <= ta < nd and (sa is None or -nd <= sa < nd)
        tan = ta % nd if valid else None
        san = ((sa % nd) if sa is not None else (nd - 2 if tan == nd - 1 else nd - 1)) if valid else None
        try:
            r = time_slice_diffs(arg, ta, sa)
        except Exception as e:
            fail = None
            if valid and tan != san:
                fail = f"time_slice_diffs raised {type(e).__name__}: {e} for valid axes time={ta} slice={sa} ndim={nd}"
            if valid and tan == san and not isinstance(e, ValueError):
                fail = f"time_slice_diffs raised {type(e).__name__} instead of ValueError for time axis == slice axis"
            return {"lines": [line], "impl": [("text", errname(e))], "oracle": fail, "nontrivial": False,
                    "tags": ["tsd", "tsd-refused"], "mutated": snap.changed()}
        mut = snap.changed()
        obs = [r["volume_mean_diff2"].ravel().tolist(), r["slice_mean_diff2"].ravel().tolist(),
               r["volume_means"].ravel().tolist(), list(r["diff2_mean_vol"].shape),
               r["diff2_mean_vol"].ravel().tolist(), r["slice_diff2_max_vol"].ravel().tolist()]
        fail = None
        tags = ["tsd", f"tsd-ndim{nd}", "tsd-slice-none" if sa is None else "tsd-slice-given", "tsd-" + dt]
        if not valid:
            tags.append("tsd-out-of-range-accepted")
        elif tan == san:
            fail = "time_slice_diffs accepted time axis == slice axis (documented ValueError)"
        else:
            if ta < 0 or (sa is not None and sa < 0):
                tags.append("tsd-negative-axis")
            rest = [i for i in range(nd) if i not in (tan, san)]
            # (1) axis-moved input at the default position (time last, slice = None)
            b = np.ascontiguousarray(a.transpose(rest + [san, tan]))
            r2 = time_slice_diffs(b)
            volaxes = [i for i in range(nd) if i != tan]
            perm = [volaxes.index(x) for x in rest + [san]]
            for k in ("volume_mean_diff2", "slice_mean_diff2", "volume_means"):
                if r[k].shape != r2[k].shape or not np.allclose(r[k], r2[k], rtol=rt, atol=rt):
                    fail = fail or f"time_slice_diffs(time={ta}, slice={sa}) {k} differs from the call on the axis-moved array"
            for k in ("diff2_mean_vol", "slice_diff2_max_vol"):
                v = r[k].transpose(perm)
                if v.shape != r2[k].shape or not np.allclose(v, r2[k], rtol=rt, atol=rt):
                    fail = fail or f"time_slice_diffs(time={ta}, slice={sa}) {k} is not the transposed result of the axis-moved call"
            # (2) definition
            x = af.transpose([tan, san] + rest)
            T, S = x.shape[:2]
            d = (x[1:] - x[:-1]) ** 2
            dm = d.reshape(T - 1, S, -1).mean(-1)
            defs = {"volume_mean_diff2": d.reshape(T - 1, -1).mean(-1), "slice_mean_diff2": dm,
                    "volume_means": x.reshape(T, -1).mean(-1)}
            for k, v in defs.items():
                if r[k].shape != v.shape or not np.allclose(r[k], v, rtol=rt, atol=rt):
                    fail = fail or f"time_slice_diffs {k} of a {dt} array differs from its definition"
            volperm = [([san] + rest).index(i) for i in volaxes]
            if not np.allclose(r["diff2_mean_vol"], d.mean(0).transpose(volperm), rtol=rt, atol=rt):
                fail = fail or "diff2_mean_vol is not the mean over time of the squared differences"
            mv = np.zeros(x.shape[1:])
            for s in range(S):
                t = int(np.argmax(dm[:, s]))
                mv[s] = d[t, s]
            if not np.allclose(r["slice_diff2_max_vol"], mv.transpose(volperm), rtol=rt, atol=rt):
                fail = fail or "slice_diff2_max_vol is not, per slice, the squared-difference slice of largest mean"
        if fail is None and valid and tan != san:
            # history on one object: a later call with other axes, then the same call again — the earlier
            # result is a value (unchanged), the repeated call returns the same numbers
            keep = {k: np.array(v, copy=True) for k, v in r.items()}
            others = [(t2, s2) for t2 in range(nd) for s2 in range(nd) if t2 != s2 and (t2, s2) != (tan, san)
                      and a.shape[t2] >= 2]
            if others:
                t2, s2 = others[c["seed"] % len(others)]
                time_slice_diffs(arg, t2, s2)
                tags.append("tsd-history")
            r3 = time_slice_diffs(arg, ta, sa)
            for k in keep:
                if not np.array_equal(r[k], keep[k], equal_nan=True):
                    fail = fail or f"time_slice_diffs: {k} of an earlier call was changed by a later call on the same array"
                elif not np.array_equal(r3[k], keep[k], equal_nan=True):
                    fail = fail or f"time_slice_diffs: {k} differs between two identical calls on the same array"
            if snap.changed():
                mut = snap.changed()
        if lay != "C":
            tags.append("tsd-layout-" + lay)
        if c.get("scale") and a.dtype.kind == "f":
            tags.append("tsd-scaled")
        return {"lines": [line], "impl": [("parts", obs, 1e-5 if dt == "float32" else 1e-10)], "oracle": fail,
                "nontrivial": a.shape[tan] >= 2 and a.size > a.shape[tan] if valid and tan != san else False,
                "tags": tags, "mutated": mut}

    def _image(self, c, shape):
        from nipy.core.api import AffineTransform, Image
        names = c["names"]
        out = {"i": "x", "j": "y", "k": "z", "t": "t"}
        dom = list(names)
        if c.get("rename_slice"):
            dom[dom.index("k")] = "slice"
        cm = AffineTransform.from_params(dom, [out[ch] for ch in names], np.diag([2.0, 3.0, 4.0, 5.0, 1.0]))
        data = int_array(c["seed"], shape)
        return Image(data, cm), data, dom, [out[ch] for ch in names]

    @staticmethod
    def _resolve(ax, dom, rng_names):
        """independent reading of the axis convention: int = input axis; str = domain name or
        the range name mapped to it (diagonal affine here)"""
        if isinstance(ax, int):
            return ax % 4 if -4 <= ax < 4 else None
        if ax in dom:
            return dom.index(ax)
        if ax in rng_names:
            return rng_names.index(ax)
        return None

    def _tsdimg(self, c):
        from nipy.algorithms.diagnostics.timediff import time_slice_diffs, time_slice_diffs_image
        img, data, dom, rn = self._image(c, c["shape"])
        ta, sa = c["ta"], c["sa"]
        it, is_ = self._resolve(ta, dom, rn), self._resolve(sa, dom, rn)
        fail = None
        tags = ["tsdimg"]
        try:
            r = time_slice_diffs_image(img, ta, sa)
        except Exception as e:
            tags.append("tsdimg-refused")
            if it is not None and is_ is not None and it != is_:
                fail = (f"time_slice_diffs_image raised {type(e).__name__}: {e} for time axis {ta!r}, slice axis "
                        f"{sa!r} on domain {dom}")
            return {"lines": [], "impl": [], "oracle": fail, "nontrivial": False, "tags": tags, "mutated": None}
        if it is None or is_ is None or it == is_:
            tags.append("tsdimg-unresolvable-accepted")
        else:
            tags.append("tsdimg-named" if isinstance(ta, str) or isinstance(sa, str) else "tsdimg-int")
            r2 = time_slice_diffs(data, it, is_)
            for k in ("volume_mean_diff2", "slice_mean_diff2", "volume_means"):
                if not np.array_equal(r[k], r2[k]):
                    fail = fail or f"time_slice_diffs_image({ta!r}, {sa!r}) {k} differs from the array call on axes ({it}, {is_})"
            for k in ("diff2_mean_vol", "slice_diff2_max_vol"):
                if not np.array_equal(r[k].get_fdata(), r2[k]):
                    fail = fail or f"time_slice_diffs_image({ta!r}, {sa!r}) {k} differs from the array call"
                want = tuple(n for i, n in enumerate(dom) if i != it)
                if tuple(r[k].coordmap.function_domain.coord_names) != want:
                    fail = fail or f"time_slice_diffs_image {k} has axes {r[k].coordmap.function_domain.coord_names}, expected {want}"
        return {"lines": [], "impl": [], "oracle": fail, "nontrivial": True, "tags": tags, "mutated": None}

    # ---- pca
    def _pca_inputs(self, c):
        rs = np.random.RandomState(c["seed"])
        shape = c["shape"]
        data = np.round(rs.randn(*shape) * 8) / 8 + rs.randint(-2, 3)
        dt = c.get("dtype", "float64")
        if dt in INT_RANGE:
            data = rs.randint(*INT_RANGE[dt], size=shape).astype(dt)
        else:
            data = data.astype(dt)
        nd = len(shape)
        ax = c["axis"] % nd
        T = shape[ax]
        vshape = [s for i, s in enumerate(shape) if i != ax]
        mk = c["mask"]
        if mk == "none":
            mask = None
        elif mk == "bool":
            mask = rs.rand(*vshape) > 0.35
            if not mask.any():
                mask.flat[0] = True
        elif mk == "int":
            mask = (rs.rand(*vshape) > 0.35).astype(np.int8)
            mask.flat[0] = 1
        else:
            mask = rs.randint(0, 5, size=vshape) / 4.0
            mask.flat[0] = 1.0
        keep = None
        if c["keep"] == "rand":
            keep = np.round(rs.randn(T, max(2, T - 1)) * 4) / 4
        resid = c["resid"]
        if resid == "rand":
            resid = np.column_stack([np.ones(T), np.arange(T, dtype=float)])
        return data, mask, keep, resid, ax, T

    def _pca(self, c):
        import nipy.algorithms.utils.pca as P
        data, mask, keep, resid, ax, T = self._pca_inputs(c)
        nd = data.ndim
        rec = {}
        real = np.linalg

        def svd(a, **kw):
            r = real.svd(a, **kw)
            rec["svd"] = r
            return r

        def eigh(a):
            r = real.eigh(a)
            rec["C"] = np.array(a, copy=True)
            rec["eigh"] = r
            return r

        shim = types.SimpleNamespace(svd=svd, eigh=eigh, pinv=real.pinv)
        snap = Snapshot(data=data, mask=mask if mask is not None else 0, keep=keep if keep is not None else 0,
                        resid=resid if isinstance(resid, np.ndarray) else 0)
        old = P.npl
        P.npl = shim
        try:
            try:
                r = P.pca(data, c["axis"], mask, c["ncomp"], c["standardize"], keep, resid)
            finally:
                P.npl = old
        except Exception as e:
            return {"lines": [], "impl": [], "nontrivial": True, "tags": ["pca", "pca-raised"], "mutated": None,
                    "oracle": f"pca raised {type(e).__name__}: {e} (axis={c['axis']}, shape={c['shape']}, "
                              f"mask={c['mask']}, ncomp={c['ncomp']}, keep={c['keep']}, resid={c['resid']}, dtype={c.get('dtype')})"}
        mut = snap.changed()
        UXf, SX, _ = rec["svd"]
        D, Vs = rec["eigh"]
        rank = len(D)
        UX = UXf[:, :rank].T
        rolled = np.rollaxis(np.asarray(data, dtype=float), c["axis"])
        Y = rolled.reshape(T, -1)

        def project_resid(Yv):
            if isinstance(resid, str):
                return Yv - Yv.mean(0)[None, ...]
            if resid is None:
                return Yv
            return Yv - np.dot(np.dot(resid, real.pinv(resid)), Yv)

        scales = None
        if c["standardize"]:
            rs_ = project_resid(Y)
            rmse = np.sqrt(np.square(rs_).sum(axis=0) / rs_.shape[0])
            scales = np.where(rmse <= 0, 0, 1. / rmse)
            if np.any((rmse > 0) & (rmse < 1e-7 * max(1.0, np.abs(Y).max()))):
                # a time series lying exactly in the span of design_resid: its residual is rounding
                # noise and 1/rmse amplifies it by ~1e15; no clause of the property is decidable there
                return {"lines": [], "impl": [], "oracle": None, "nontrivial": False,
                        "tags": ["pca", "pca-degenerate-standardisation"], "mutated": mut}
        ncomp = rank if c["ncomp"] is None else min(c["ncomp"], rank)   # only `rank` components exist
        line = (f"pca {vview(np.asarray(data, dtype=float))} {c['axis']} {pmatf(UX)} {optvol(scales)} "
                f"{optvol(None if mask is None else np.asarray(mask, dtype=float))} "
                f"{rank} {frs(D.tolist())} {pmatf(Vs)} {ncomp}")
        bv = r["basis_vectors"]
        bp = r["basis_projections"]
        obs = [rec["C"].ravel().tolist(), r["pcnt_var"].tolist(), bv.T.ravel().tolist(), list(bp.shape),
               bp.ravel().tolist(), [r["axis"]]]
        # ---------------- oracle
        fail = None
        tags = ["pca", f"pca-ndim{nd}", "pca-mask-" + c["mask"], "pca-std" if c["standardize"] else "pca-nostd",
                "pca-neg-axis" if c["axis"] < 0 else "pca-pos-axis", "pca-" + c.get("dtype", "float64")]
        pv = r["pcnt_var"]
        G = bv.T @ bv
        if r["axis"] != ax:
            fail = f"pca returned axis {r['axis']} for axis argument {c['axis']} (ndim {nd})"
        elif bv.shape != (T, rank) or not np.allclose(G, np.eye(rank), atol=1e-8):
            fail = f"pca basis vectors are not orthonormal (max deviation {np.abs(G - np.eye(rank)).max():.3g})"
        elif np.any(np.diff(pv) > 1e-9 * max(1.0, np.abs(pv).max())):
            fail = f"pca percent variance not in decreasing order: {pv.tolist()}"
        elif not np.isfinite(pv).all() or abs(pv.sum() - 100) > 1e-8:
            if np.abs(rec["C"]).max() > 1e-12:
                fail = f"pca percent variance sums to {pv.sum()} instead of 100"
            else:
                tags.append("pca-zero-variance")
        want_shape = list(data.shape); want_shape[ax] = ncomp
        if fail is None and list(bp.shape) != want_shape:
            fail = f"basis_projections shape {bp.shape}, expected {want_shape}"
        w = None
        if fail is None:
            # SVD of the projected, standardised (masked) data
            YX = UX @ Y
            if scales is not None:
                YX = YX * scales
            w = np.ones(Y.shape[1]) if mask is None else np.nan_to_num(np.asarray(mask, dtype=float)).ravel()
            YXm = YX * w
            U, S, _ = real.svd(YXm, full_matrices=False)
            s2 = np.zeros(rank); s2[:len(S)] = S ** 2
            tot = s2.sum()
            if tot > 1e-12:
                if not np.allclose(pv, s2 * 100 / tot, atol=1e-7):
                    fail = "pca percent variance differs from the squared singular values of the projected, standardised data"
                else:
                    # each basis vector with a simple singular value matches a left singular vector up to sign
                    Ub = UX.T @ U
                    gaps = np.abs(np.diff(s2)) / tot
                    for k in range(min(rank, len(S))):
                        iso = (k == 0 or gaps[k - 1] > 1e-6) and (k == rank - 1 or gaps[k] > 1e-6) and s2[k] / tot > 1e-9
                        if iso and min(np.abs(Ub[:, k] - bv[:, k]).max(), np.abs(Ub[:, k] + bv[:, k]).max()) > 1e-5:
                            fail = f"pca basis vector {k} is not the singular vector of the projected, standardised data"
                            break
            # basis projections = basis vectors applied to the (scaled) data
            if fail is None:
                exp = bv.T[:ncomp] @ Y
                if scales is not None:
                    exp = exp * scales
                exp = np.moveaxis(exp.reshape((ncomp,) + rolled.shape[1:]), 0, ax)
                if not np.allclose(bp, exp, atol=1e-8 * max(1.0, np.abs(exp).max())):
                    fail = "basis_projections are not the basis vectors applied to the (standardised) data"
        if fail is None:
            # axis moved to the default position first
            r2 = P.pca(np.ascontiguousarray(np.moveaxis(data, ax, 0)), 0, mask, c["ncomp"], c["standardize"], keep, resid)
            sgn = np.sign((bv * r2["basis_vectors"]).sum(0)); sgn[sgn == 0] = 1
            if not np.allclose(pv, r2["pcnt_var"], atol=1e-8, equal_nan=True):
                fail = f"pca(axis={c['axis']}) percent variance differs from the call with the axis moved to position 0"
            elif np.isfinite(pv).all() and (len(pv) < 2 or np.min(-np.diff(pv)) > 1e-6):
                b0 = np.moveaxis(bp, ax, 0)
                sg = sgn[:ncomp].reshape((-1,) + (1,) * (nd - 1))
                if b0.shape != r2["basis_projections"].shape or not np.allclose(
                        b0, r2["basis_projections"] * sg, atol=1e-6 * max(1.0, np.abs(b0).max())):
                    fail = f"pca(axis={c['axis']}) projections are not the transposed result of the axis-moved call"
        if fail is None and mask is not None and c["mask"] in ("bool", "int"):
            # masked computation equals computation on the extracted voxels
            sel = np.asarray(mask).astype(bool).ravel()
            ext = Y[:, sel]
            if ext.shape[1] >= 1:
                r3 = P.pca(ext, 0, None, c["ncomp"], c["standardize"], keep, resid)
                if not np.allclose(pv, r3["pcnt_var"], atol=1e-7, equal_nan=True):
                    fail = "masked pca percent variance differs from pca of the extracted voxels"
                else:
                    tags.append("pca-masked-eq-extracted")
        return {"lines": [line], "impl": [("pca", obs)], "oracle": fail, "nontrivial": True, "tags": tags,
                "mutated": mut}

    def _pcaf(self, c):
        return PC.run_pcaf(c)

    def _imgax(self, c):
        return IM.run_imgax(c)

    def _tsdplot(self, c):
        return IM.run_tsdplot(c)

    def _pcaimg(self, c):
        import nipy.algorithms.utils.pca as P
        from nipy.core.api import Image
        from nipy.core.reference.coordinate_map import drop_io_dim
        img, data, dom, rn = self._image(c, c["shape"])
        rs = np.random.RandomState(c["seed"] + 1)
        data = data + rs.randn(*data.shape)
        img = Image(data, img.coordmap)
        axn = c["axis"]
        ia = self._resolve(axn, dom, rn)
        fail, tags = None, ["pcaimg"]
        mimg, marr = None, None
        if c["mask"] and ia is not None:
            marr = (rs.rand(*[s for i, s in enumerate(data.shape) if i != ia]) > 0.3).astype(float)
            marr.flat[0] = 1
            mimg = Image(marr, drop_io_dim(img.coordmap, axn))
        try:
            r = P.pca_image(img, axn, mimg)
        except Exception as e:
            if ia is not None:
                fail = f"pca_image raised {type(e).__name__}: {e} for axis {axn!r} on domain {dom}"
            return {"lines": [], "impl": [], "oracle": fail, "nontrivial": False, "tags": tags + ["pcaimg-refused"]}
        r2 = P.pca(data, ia, marr)
        if r["axis"] != ia:
            fail = f"pca_image axis {r['axis']} expected {ia}"
        elif not np.allclose(r["pcnt_var"], r2["pcnt_var"], atol=1e-8):
            fail = f"pca_image({axn!r}) percent variance differs from pca on array axis {ia}"
        else:
            sgn = np.sign((r["basis_vectors"] * r2["basis_vectors"]).sum(0)); sgn[sgn == 0] = 1
            b = r["basis_projections"].get_fdata()
            sh = [1] * 4; sh[ia] = -1
            e = r2["basis_projections"] * sgn[:r2["basis_projections"].shape[ia]].reshape(sh)
            if b.shape != e.shape or not np.allclose(b, e, atol=1e-6 * max(1, np.abs(e).max())):
                fail = f"pca_image({axn!r}) projections differ from pca on array axis {ia}"
            names = list(r["basis_projections"].coordmap.function_domain.coord_names)
            want = list(dom); want[ia] = "PCA components"
            if fail is None and names != want:
                fail = f"pca_image output axes {names}, expected {want}"
        tags.append("pcaimg-named" if isinstance(axn, str) else "pcaimg-int")
        return {"lines": [], "impl": [], "oracle": fail, "nontrivial": True, "tags": tags, "mutated": None}

    # ---- masks
    def _intersect(self, c):
        return MK.run_intersect(c)

    def _cc(self, c):
        return MK.run_cc(c)

    def _cmask(self, c):
        return MK.run_cmask(c)

    def _sessions(self, c):
        return MK.run_sessions(c)

    def _cmfiles(self, c):
        return MK.run_cmfiles(c)

    def _series(self, c):
        return MK.run_series(c)

    def _streg(self, c):
        return MR.run_streg(c)

    def _strealign(self, c):
        return MR.run_strealign(c)

    def _gens(self, c):
        return MR.run_gens(c)

    def _screen(self, c):
        return MR.run_screen(c)

    # ---- generators
    def _parcels(self, c):
        from nipy.core.utils.generators import data_generator, parcels
        rs = np.random.RandomState(c["seed"])
        data = rs.randint(0, c["nval"], size=c["shape"]).astype(float)
        if rs.rand() < 0.3:
            data = data / 2 - 1
        vals = sorted(set(data.ravel().tolist()))
        lab, ltxt = None, "0"
        if c["labels"] == "list":
            lab = [float(x) for x in rs.choice(vals + [7.0], size=rs.randint(1, 4))]
            ltxt = f"1 {len(lab)} " + " ".join(f"one {fr(x)}" for x in lab)
        elif c["labels"] == "nested":
            lab, parts = [], []
            for _ in range(rs.randint(1, 4)):
                if rs.rand() < 0.5:
                    x = float(rs.choice(vals)); lab.append(x); parts.append(f"one {fr(x)}")
                else:
                    xs = [float(x) for x in rs.choice(vals + [9.0], size=rs.randint(1, 3))]
                    lab.append(tuple(xs) if rs.rand() < 0.5 else list(xs))
                    parts.append(f"many {len(xs)} {frs(xs)}")
            ltxt = f"1 {len(lab)} " + " ".join(parts)
        ex = tuple(c["exclude"])
        snap = Snapshot(data=data)
        ps = [np.asarray(p) for p in parcels(data, lab, ex)]
        line = f"parcels {data.size} {frs(data.ravel().tolist())} {ltxt} {len(ex)} {frs(ex)}".rstrip()
        fail = None
        if any(p.dtype != bool or p.shape != data.shape for p in ps):
            fail = "parcels yielded a non-boolean or wrongly shaped array"
        elif lab is None and not ex:
            tot = sum(p.astype(int) for p in ps) if ps else np.zeros(data.shape, int)
            if not np.array_equal(tot, np.ones(data.shape, int)) or len(ps) != len(vals):
                fail = "parcels(data) is not a partition of the voxels into one parcel per distinct value"
        elif lab is not None:
            keep = [l for l in lab if isinstance(l, (list, tuple)) or l not in ex]
            for p, l in zip(ps, keep):
                want = np.isin(data, list(l)) if isinstance(l, (list, tuple)) else data == l
                if not np.array_equal(p, want):
                    fail = f"parcel for label {l} is not data == label"
            if len(ps) != len(keep):
                fail = "parcels yielded a different number of parcels than labels"
        # data_generator: (i, data[i])
        if fail is None:
            got = list(data_generator(data))
            if [i for i, _ in got] != list(range(data.shape[0])) or any(
                    not np.array_equal(d, data[i]) for i, d in got):
                fail = "data_generator(data) is not [(i, data[i]) for i in range(len(data))]"
            elif ps:
                got = list(data_generator(data, ps))
                if any(not np.array_equal(d, data[p]) for (_, d), p in zip(got, ps)):
                    fail = "data_generator(data, parcels) does not extract the masked voxels"
        return {"lines": [line], "impl": [("parts", [p.astype(int).ravel().tolist() for p in ps])],
                "oracle": fail, "nontrivial": len(vals) >= 2, "tags": ["parcels", "parcels-" + c["labels"]],
                "mutated": snap.changed()}

    def _slicegen(self, c):
        from nipy.core.utils.generators import slice_generator
        data = int_array(c["seed"], c["shape"], 0, 50)
        nd = data.ndim
        axis = c["axis"]
        snap = Snapshot(data=data)
        fail, tags = None, ["slicegen"]
        try:
            got = [(i, np.array(d)) for i, d in slice_generator(data, axis)]
        except Exception as e:
            got = None
            err = e
        if isinstance(axis, int):
            tags.append("slicegen-int-neg" if axis < 0 else "slicegen-int")
            a = axis % nd
            line = f"slicegen {vview(data)} {axis}"
            moved = np.moveaxis(data, a, 0)
            if got is None:
                fail = f"slice_generator(data{list(data.shape)}, axis={axis}) raised {type(err).__name__}: {err}"
                obs = ("text", errname(err))
            else:
                obs = ("parts", [d.ravel().tolist() for _, d in got])
                if len(got) != data.shape[a] or any(
                        d.shape != moved[j].shape or not np.array_equal(d, moved[j]) for j, (_, d) in enumerate(got)):
                    fail = (f"slice_generator(data{list(data.shape)}, axis={axis}) does not yield the slices "
                            f"obtained by first moving that axis to position 0")
                elif any(not np.array_equal(data[i], d) for i, d in got):
                    fail = "slice_generator index does not select the yielded slice"
        else:
            tags.append(f"slicegen-multi{len(axis)}")
            line = f"slicegenm {vview(data)} {len(axis)} {' '.join(str(a) for a in axis)}"
            an = [a % nd for a in axis]
            lens = [data.shape[a] for a in an]
            if got is None:
                fail = (f"slice_generator(data{list(data.shape)}, axis={axis}) raised "
                        f"{type(err).__name__}: {err}")
                obs = ("text", errname(err))
            else:
                idxs = [tuple(int(i[a]) for a in an) for i, _ in got]
                obs = ("text", " | ".join(" ".join(map(str, ix)) + " : " + frs(d.ravel().tolist())
                                          for ix, (_, d) in zip(idxs, got)).replace("  ", " "))
                # first listed axis fastest, every combination exactly once
                want = [tuple(reversed(t)) for t in itertools.product(*[range(l) for l in reversed(lens)])]
                if idxs != want:
                    fail = (f"slice_generator(data{list(data.shape)}, axis={axis}) does not enumerate every index "
                            f"combination exactly once with the first axis fastest: {idxs[:6]}…")
                else:
                    rest = [i for i in range(nd) if i not in an]
                    moved = data.transpose(an + rest)
                    for ix, (i, d) in zip(idxs, got):
                        if not np.array_equal(d, moved[ix]) or not np.array_equal(data[i], d):
                            fail = "slice_generator slice differs from indexing the axis-moved array"
                            break
        return {"lines": [line], "impl": [obs], "oracle": fail, "nontrivial": data.size > 1, "tags": tags,
                "mutated": snap.changed()}

    # ------------------------------------------------------------------ compare
    def compare(self, case, impl_obs, model_out):
        kind = impl_obs[0]
        if kind == "text":
            return None if impl_obs[1] == model_out.strip() else f"impl={impl_obs[1]!r} model={model_out[:200]!r}"
        if kind == "rats":
            tol = impl_obs[2]
            return cmp_rats(impl_obs[1], model_out, tol, tol)
        if kind == "bools":
            want = " ".join(str(int(b)) for b in impl_obs[1])
            return None if want == model_out.strip() else f"impl={want[:120]} model={model_out[:120]}"
        if kind == "cmask":
            want = " ".join(str(int(b)) for b in impl_obs[1])
            got = model_out.split("|")[-1].strip()
            return None if want == got else f"impl={want[:120]} model={model_out[:120]}"
        if kind == "parts":
            if model_out.startswith(("error", "bad-op")):
                return f"impl returned values, model says {model_out}"
            parts = [p.strip() for p in model_out.split("|")] if model_out.strip() else []
            if len(parts) == 1 and parts[0] == "" and len(impl_obs[1]) == 0:
                return None
            if len(parts) != len(impl_obs[1]):
                return f"{len(impl_obs[1])} parts from impl, {len(parts)} from model"
            tol = impl_obs[2] if len(impl_obs) > 2 else 1e-10
            for k, (a, b) in enumerate(zip(impl_obs[1], parts)):
                d = cmp_rats(a, b, tol, tol)
                if d:
                    return f"part {k}: {d}"
            return None
        if kind == "pcaf":
            return PC.compare_pcaf(impl_obs[1], model_out)
        if kind == "screenax":
            return IM.compare_screenax(impl_obs, model_out)
        if kind == "pca":
            if model_out.startswith(("error", "bad-op")):
                return f"impl returned values, model says {model_out}"
            parts = [p.strip() for p in model_out.split("|")]
            if len(parts) != 6:
                return f"model returned {len(parts)} parts"
            vals = impl_obs[1]
            scale = max([1.0] + [abs(float(x)) for x in vals[0]])
            names = ["covariance", "pcnt_var", "basis_vectors", "proj shape", "basis_projections", "axis"]
            for k in range(6):
                tol = 1e-7 * scale if k == 0 else 1e-7
                if k == 1 and not all(math.isfinite(x) for x in vals[1]):
                    continue   # zero total variance: 0/0 in the implementation, 0 in exact arithmetic
                if k in (2, 4) and all(math.isfinite(x) for x in vals[1]) and any(
                        abs(a - b) < 1e-7 for a, b in zip(vals[1], vals[1][1:])):
                    continue   # tied eigenvalues: np.argsort's order among the ties is not defined
                if k == 4:
                    tol = 1e-7 * max([1.0] + [abs(float(x)) for x in vals[4]])
                d = cmp_rats(vals[k], parts[k], 1e-7, tol)
                if d:
                    return f"{names[k]}: {d}"
            return None
        return "unknown observation kind"

    # ------------------------------------------------------------------ shrink
    def shrink(self, case):
        yield from MK.shrink(case)
        yield from MR.shrink(case)
        yield from PC.shrink(case)
        yield from IM.shrink(case)
        if "shape" in case:
            for i, s in enumerate(case["shape"]):
                if s > 1:
                    c = dict(case); sh = list(case["shape"]); sh[i] = s - 1; c["shape"] = sh
                    yield c
        if case.get("kind") == "st" and case["tr"] != 1.0:
            c = dict(case); c["tr"] = 1.0
            yield c

    def classify(self, case, failure):
        k = case.get("kind")
        ints = ("uint8", "int8", "int16", "uint16", "int32", "int64")
        if k == "intersect" and case.get("vals") != "01" and ("intersect_masks(threshold" in failure
                                                             or failure.startswith("corr:")):
            return "C19-intersect-nonbinary"
        if k == "sessions":
            if "return_mean=True" in failure:
                return "C19-sessions-mean"
            if case["thr"] == 1.0 and ("is not the intersection" in failure or "threshold-level" in failure
                                       or failure.startswith("corr:")):
                return "C19-sessions-threshold-1"
            if case["n"] >= 128 and ("compute_mask_sessions(threshold" in failure or failure.startswith("corr:")):
                return "C19-sessions-int8"
        if k in ("cmask", "cmfiles") and case.get("dtype") in ints and (
                "thresholded" in failure or "positive affine" in failure or failure.startswith("corr:")):
            return "C19-cmask-integer"
        if k == "tsd" and case.get("dtype") in ints:
            return "C19-tsd-integer"
        if k == "pca" and case.get("dtype") in ints and case.get("standardize") and case.get("resid") is None:
            return "C19-pca-integer"
        if k == "gens" and "matrix_generator raised" in failure:
            return "C19-matrix-generator-1d"
        if k == "screen" and case.get("tname") != "t" and "screen raised AxisError" in failure:
            return "C19-screen-time-name"
        return None


CHECK = C19()
