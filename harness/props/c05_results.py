"""C05 helper: the results API of models/model.py and models/regression.py on fits with one or
several responses (`t`, `vcov`, `Tcontrast`, `Fcontrast`, `conf_int`, residuals, sums of squares,
`logL`/`AIC`/`BIC`), and `nipy.algorithms.utils.matrices`.

One case = one design, one data block, one covariance structure and a *history* of operations on
the same results object.  Correspondence: line kind `res` (one section per operation; the Lean
model returns arrays with their NumPy shape).  Oracle: every operation on the block equals, per
response, the same operation on the single-response fit of that column (any order / grouping of
voxels), plus the defining identities (`t(column=j)` = `Tcontrast(e_j).t`, `vcov(matrix=M)` =
`M cov M' * dispersion_v`, interval centre / half width, `SSR + SSE = SST`, ...).
"""
from __future__ import annotations

import math

import numpy as np

from harness.util import errname, fr, frs, parse_rats, pmat

# ----------------------------------------------------------------------
# generation
# ----------------------------------------------------------------------
DISP_KINDS = ["self", "self", "self", "float", "np64", "a0", "a1"]


def gen_disp(rng, v, oneD, allow=DISP_KINDS):
    k = rng.choice(allow)
    if oneD and k == "a1":
        k = "np64"
    if k == "self":
        return {"k": "self"}
    d = rng.choice([1.0, 2.0, 0.5, 3.0, 0.25, 4.0])
    if k == "a1":
        dd = [rng.choice([1.0, 2.0, 0.5, 3.0, 0.25, 0.0]) for _ in range(v)]
        return {"k": "a1", "d": dd}
    return {"k": k, "d": d}


def gen_cols(rng, p):
    r = rng.random()
    if r < 0.25:
        return list(range(p))
    k = rng.randint(1, min(p, 4) + (1 if rng.random() < 0.3 else 0))
    cols = [rng.randrange(p) for _ in range(k)]          # repeats and any order allowed
    if rng.random() < 0.2:
        cols = [c - p if rng.random() < 0.5 else c for c in cols]   # negative (NumPy) indices
    return cols


def gen_mat(rng, q, p, full_rank=True):
    for _ in range(50):
        M = [[float(rng.randint(-2, 2)) for _ in range(p)] for _ in range(q)]
        if not full_rank or np.linalg.matrix_rank(np.array(M)) == q:
            return M
    return np.eye(p)[:q].tolist()


def gen_ops(rng, p, v, oneD, nops):
    ops = []
    for _ in range(nops):
        r = rng.random()
        if r < 0.22:
            c = rng.random()
            col = None if c < 0.3 else (rng.randrange(-p, p) if c < 0.55 else gen_cols(rng, p))
            ops.append({"op": "t", "col": col})
        elif r < 0.50:
            how = rng.choice(["col", "cols", "cols", "mat", "mat", "full"])
            o = {"op": "vcov", "how": how, "disp": gen_disp(rng, v, oneD)}
            if how == "col":
                o["col"] = rng.randrange(-p, p)
            elif how == "cols":
                o["cols"] = gen_cols(rng, p)
            elif how == "mat":
                q = rng.randint(1, min(p, 3))
                o["M"] = gen_mat(rng, q, p, full_rank=False)
                o["O"] = gen_mat(rng, rng.randint(1, min(p, 3)), p, full_rank=False) if rng.random() < 0.4 else None
            ops.append(o)
        elif r < 0.64:
            c = [float(rng.randint(-2, 2)) for _ in range(p)]
            if not any(c):
                c[rng.randrange(p)] = 1.0
            if rng.random() < 0.3:
                c = [0.0] * p
                c[rng.randrange(p)] = 1.0                      # unit contrast
            store = rng.choice([["t", "effect", "sd"], ["t", "effect", "sd"], ["t"], ["effect"], ["sd"],
                                ["t", "sd"], ["effect", "sd"], []])
            ops.append({"op": "tcon", "c": c, "row": rng.random() < 0.3, "store": store,
                        "disp": gen_disp(rng, v, oneD, ["self", "self", "float", "np64", "a0"])})
        elif r < 0.78:
            q = rng.randint(1, min(p, 3))
            iv = None
            if rng.random() < 0.3:
                A = np.array(gen_mat(rng, q, q), float)
                iv = (A @ A.T + np.eye(q)).tolist()
            ops.append({"op": "fcon", "M": gen_mat(rng, q, p), "invcov": iv,
                        "disp": gen_disp(rng, v, oneD)})
        elif r < 0.90:
            cols = None if rng.random() < 0.4 else [abs(c) for c in gen_cols(rng, p)]
            ops.append({"op": "ci", "cols": cols, "alpha": rng.choice([0.05, 0.1, 0.01, 0.5]),
                        "disp": gen_disp(rng, v, oneD, ["self", "self", "float", "np64"])})
        elif r < 0.95:
            ops.append({"op": "stats"})
        else:
            delta = [0.0] * p if rng.random() < 0.5 else [float(rng.randint(-2, 2)) / 2 for _ in range(p)]
            ops.append({"op": "score", "delta": delta,
                        "sigma": None if rng.random() < 0.5 else rng.choice([1.0, 2.0, 0.5])})
    return ops


# ----------------------------------------------------------------------
# running one operation on a results object
# ----------------------------------------------------------------------
def disp_value(D, sel=None, single=None):
    """the `dispersion=` argument as the caller would pass it (for the block, for a selection of
    responses, or for the single response `single`)"""
    k = D["k"]
    if k == "self":
        return None
    if k == "float":
        return float(D["d"])
    if k == "np64":
        return np.float64(D["d"])
    if k == "a0":
        return np.array(float(D["d"]))
    d = np.asarray(D["d"], float)
    if single is not None:
        return np.float64(d[single])
    if sel is not None:
        return d[sel].copy()
    return d.copy()


def disp_token(D):
    k = D["k"]
    if k == "self":
        return "self"
    if k in ("float", "np64"):
        return "sc " + fr(D["d"])
    if k == "a0":
        return "a0 " + fr(D["d"])
    return f"a1 {len(D['d'])} " + frs(D["d"])


STAT_NAMES = ["SSE", "SST", "SSR", "MSE", "MSR", "MST", "R2", "R2_adj", "F_overall"]


def apply_op(res, op, p, sel=None, single=None):
    """run one operation; returns a list of arrays (None for a field that is not stored)"""
    kind = op["op"]
    if kind == "t":
        col = op["col"]
        return [np.asarray(res.t() if col is None else res.t(column=col), float)]
    if kind == "vcov":
        d = disp_value(op["disp"], sel, single)
        how = op["how"]
        if how == "col":
            return [np.asarray(res.vcov(column=op["col"], dispersion=d), float)]
        if how == "cols":
            return [np.asarray(res.vcov(column=op["cols"], dispersion=d), float)]
        if how == "mat":
            O = None if op.get("O") is None else np.array(op["O"], float)
            return [np.asarray(res.vcov(matrix=np.array(op["M"], float), other=O, dispersion=d), float)]
        return [np.asarray(res.vcov(dispersion=d), float)]
    if kind == "tcon":
        c = np.array(op["c"], float)
        if op.get("row"):
            c = c[None]
        tc = res.Tcontrast(c, store=tuple(op["store"]), dispersion=disp_value(op["disp"], sel, single))
        if tc.t is not None and not np.array_equal(np.asarray(tc), np.asarray(tc.t), equal_nan=True):
            raise AssertionError("np.asarray(TContrastResults) is not its t")
        return [None if x is None else np.asarray(x, float) for x in (tc.effect, tc.sd, tc.t)] + \
               [np.asarray(float(tc.df_den))]
    if kind == "fcon":
        iv = None if op.get("invcov") is None else np.array(op["invcov"], float)
        fc = res.Fcontrast(np.array(op["M"], float), dispersion=disp_value(op["disp"], sel, single), invcov=iv)
        if not np.array_equal(np.asarray(fc), np.asarray(fc.F), equal_nan=True) or "F contrast" not in str(fc):
            raise AssertionError("np.asarray(FContrastResults) is not its F")
        return [np.asarray(fc.F, float), np.asarray(fc.effect, float), np.asarray(fc.covariance, float),
                np.asarray(float(fc.df_num)), np.asarray(float(fc.df_den))]
    if kind == "ci":
        cols = op["cols"]
        return [np.asarray(res.conf_int(alpha=op["alpha"], cols=None if cols is None else tuple(cols),
                                        dispersion=disp_value(op["disp"], sel, single)), float)]
    if kind == "score":
        th = np.asarray(res.theta, float)
        d = np.array(op["delta"], float)
        beta = th + (d[:, None] if th.ndim == 2 else d)
        nu = None if op["sigma"] is None else {"sigma": float(op["sigma"])}
        with np.errstate(all="ignore"):
            sc = np.asarray(res.model.score(beta, res.Y, nuisance=nu), float)
        info = None if nu is None else np.asarray(res.model.information(beta, nuisance=nu), float)
        return [sc, info]
    if kind == "stats":
        with np.errstate(all="ignore"):
            out = [np.asarray(getattr(res, nm), float) for nm in STAT_NAMES[:-1]]
            out.append(np.asarray(res.F_overall["F"], float))
            out += [np.asarray(res.resid, float), np.asarray(res.predicted, float),
                    np.asarray(res.norm_resid, float), np.asarray(res.logL, float),
                    np.asarray(res.AIC, float), np.asarray(res.BIC, float),
                    np.asarray(float(res.F_overall["df_num"])), np.asarray(float(res.F_overall["df_den"]))]
        return out
    raise KeyError(kind)


def base_ndims(op, p):
    """ndim of each output without its response axis"""
    kind = op["op"]
    if kind == "t":
        return [0 if isinstance(op["col"], int) else 1]
    if kind == "vcov":
        return [0 if op["how"] == "col" else 2]
    if kind == "tcon":
        return [0, 0, 0, 0]
    if kind == "fcon":
        return [0, 1, 2, 0, 0]
    if kind == "ci":
        return [2]
    if kind == "score":
        return [1, 2]
    return [0] * 9 + [1, 1, 1, 0, 0, 0, 0, 0]


def per_response(arr, base, j, v):
    """the part of a block result that belongs to response j (None: unexpected shape)"""
    if arr is None:
        return None
    if arr.ndim == base:
        return arr
    if arr.ndim == base + 1:
        if arr.shape[-1] == v:
            return arr[..., j]
        if arr.shape[-1] == 1:
            return arr[..., 0]
    return "shape"


def op_tokens(op, p):
    kind = op["op"]
    if kind == "t":
        col = op["col"]
        if col is None:
            return "t none"
        if isinstance(col, int):
            return f"t int {col}"
        return f"t list {len(col)} " + " ".join(str(c) for c in col)
    if kind == "vcov":
        d = disp_token(op["disp"])
        how = op["how"]
        if how == "col":
            return f"vcov col {op['col']} {d}"
        if how == "cols":
            return f"vcov cols {len(op['cols'])} " + " ".join(str(c) for c in op["cols"]) + " " + d
        if how == "mat":
            if op.get("O") is None:
                return f"vcov mat {pmat(np.array(op['M'], float))} same {d}"
            return f"vcov mat {pmat(np.array(op['M'], float))} other {pmat(np.array(op['O'], float))} {d}"
        return f"vcov full {d}"
    if kind == "tcon":
        c = np.array(op["c"], float)
        return (f"tcon 1 {c.size} {frs(c.tolist())} {len(op['store'])} " + " ".join(op["store"]) + " "
                + disp_token(op["disp"])).replace("  ", " ")
    if kind == "fcon":
        iv = "noiv" if op.get("invcov") is None else "iv " + pmat(np.array(op["invcov"], float))
        return f"fcon {pmat(np.array(op['M'], float))} {disp_token(op['disp'])} {iv}"
    if kind == "ci":
        cols = op["cols"]
        d = disp_token(op["disp"])
        return f"ci all {d}" if cols is None else f"ci cols {len(cols)} " + " ".join(str(c) for c in cols) + " " + d
    if kind == "score":
        return f"score {frs(op['delta'])} " + ("nosig" if op["sigma"] is None else "sig " + fr(op["sigma"]))
    return "stats"


def canon(outs):
    return [None if a is None else (list(a.shape), a.ravel().tolist()) for a in outs]


def pos_recipr(x):
    x = np.asarray(x, float)
    out = np.zeros(x.shape)
    out[x > 0] = 1.0 / x[x > 0]
    return out


# ----------------------------------------------------------------------
# tolerant comparison
# ----------------------------------------------------------------------
def near(a, b, rtol, floor):
    a = np.asarray(a, float); b = np.asarray(b, float)
    if a.shape != b.shape:
        return False
    fa, fb = np.isfinite(a), np.isfinite(b)
    if not np.array_equal(fa, fb):
        return False
    if not fa.all():
        a = a[fa]; b = b[fa]
    if a.size == 0:
        return True
    scale = max(floor, float(np.abs(b).max()), float(np.abs(a).max()))
    return bool(np.all(np.abs(a - b) <= rtol * scale + 1e-300))


def worst(a, b):
    a = np.asarray(a, float); b = np.asarray(b, float)
    if a.shape != b.shape:
        return f"shapes {a.shape} vs {b.shape}"
    if not a.size:
        return "(empty)"
    with np.errstate(all="ignore"):
        d = np.where(np.isfinite(a) & np.isfinite(b), np.abs(a - b), np.inf * (np.isfinite(a) != np.isfinite(b)))
    d = np.nan_to_num(d, nan=0.0, posinf=np.inf)
    i = np.unravel_index(int(np.argmax(d)), a.shape) if a.ndim else ()
    return f"{a[i]!r} vs {b[i]!r} at {tuple(int(k) for k in i)}"


def floors(op, meta):
    """absolute floor (natural size) of each output of an operation"""
    th, var, ss = meta["bfloor"], meta["covs"] * meta["ys"] ** 2, meta["ys"] ** 2 * meta["n"]
    kind = op["op"]
    if kind == "t":
        return [1e-6]
    if kind == "vcov":
        m = 1.0
        if op["how"] == "mat":
            m = float(np.abs(op["M"]).sum(1).max()) * float(np.abs(op["O"] if op.get("O") is not None else op["M"]).sum(1).max())
        dmax = 1.0 if op["disp"]["k"] == "self" else float(np.max(np.abs(op["disp"]["d"])) / max(meta["ys"] ** 2, 1e-300))
        return [var * max(m, 1.0) * max(dmax, 1.0)]

    dmax = 1.0 if op.get("disp", {"k": "self"})["k"] == "self" else \
        float(np.max(np.abs(op["disp"]["d"])) / max(meta["ys"] ** 2, 1e-300))
    if kind == "tcon":
        ca = max(1.0, float(np.abs(op["c"]).sum()))
        return [th * ca, math.sqrt(var * max(dmax, 1.0)) * ca, 1e-6, 0.0]
    if kind == "fcon":
        ma = max(1.0, float(np.abs(op["M"]).sum(1).max()))
        return [1e-9, th * ma, var * ma * ma * max(dmax, 1.0), 0.0, 0.0]
    if kind == "ci":
        return [th]
    if kind == "score":
        sig = op["sigma"] if op["sigma"] is not None else max(meta["ssemin"] / meta["n"], 1e-300)
        grow = 1.0 + float(np.abs(op["delta"]).sum()) * meta["xs"] / max(meta["ys"], 1e-300)
        return [meta["n"] * meta["xs"] * meta["ys"] * grow / sig, meta["n"] * meta["xs0"] ** 2 * max(sig, 1.0)]
    return [ss, ss, ss, ss, ss, ss, 1e-9, 1e-9, 1e-9, meta["ys"], meta["ys"], 1e-6, 1e-9, 1e-9, 1e-9, 0.0, 0.0]


# ----------------------------------------------------------------------
# the case
# ----------------------------------------------------------------------
def run_results(H, case):
    """H: the C05 module (helpers _make_model, _wline, _cond, …)"""
    from nipy.algorithms.statistics.models import regression as reg
    from harness.util import Snapshot
    X = np.array(case["X"], float); Yb = np.array(case["Y"], float)
    if case.get("layout") == "F":
        X = np.asfortranarray(X); Yb = np.asfortranarray(Yb)
    n, p = X.shape; v = Yb.shape[1]
    oneD = bool(case.get("oneD")) and v == 1
    w = case["w"]; ops = case["ops"]
    tags = ["results", "w=" + w["kind"], "1-D" if oneD else ("v=p" if v == p else "v=1" if v == 1 else "v!=p")]
    snap = Snapshot(X=X, Y=Yb)
    try:
        m = H._make_model(reg, w, X)
        Y = Yb[:, 0] if oneD else Yb
        res = m.fit(Y)
        blk = res if not oneD else m.fit(Yb)              # 2-D block with the same columns
        singles = [m.fit(Yb[:, j]) for j in range(v)]
    except Exception as e:
        return {"lines": [], "impl": [], "nontrivial": True, "tags": tags + ["raised"],
                "oracle": f"{w['kind']} model raised {type(e).__name__}: {e} on a full-rank design (n={n}, p={p}, v={v})"}
    wX = np.asarray(m.wdesign, float)
    cond = H._cond(wX); rt = H._rtol(cond); rt_o = 50 * rt
    ys = max(1.0, float(np.abs(Yb).max())) * H._wscale(w, m)
    covs = max(1e-300, float(np.abs(res.cov).max()))
    disp = np.atleast_1d(np.asarray(blk.dispersion, float))
    meta = {"rtol": rt, "ys": ys, "n": n, "p": p, "v": v, "bfloor": H._bfloor(wX, ys), "covs": covs, "cond": cond,
            "oneD": oneD, "ops": ops, "df": n - p, "perfect": bool(np.any(disp < 1e-6 * ys * ys)),
            "xs": max(1.0, float(np.abs(wX).max())), "xs0": max(1.0, float(np.abs(X).max())),
            "ssemin": float(np.min(disp) * (n - p))}
    sel = case.get("sel") or [0]
    fail = None
    impl_ops = []
    for k, op in enumerate(ops):
        tags.append("op=" + op["op"] + (":" + op["how"] if op["op"] == "vcov" else ""))
        fl = floors(op, meta)
        bases = base_ndims(op, p)
        # single-response reference (always well shaped); an invalid operation raises here too
        try:
            ref = [apply_op(singles[j], op, p, single=j) for j in range(v)]
            ref_err = None
        except Exception as e:
            ref, ref_err = None, errname(e)
        try:
            outs = apply_op(res, op, p)
            impl_ops.append(canon(outs))
        except Exception as e:
            impl_ops.append(errname(e))
            if ref_err is None and fail is None:
                fail = (f"results.{_describe(op)} raised {type(e).__name__}: {e} on a fit with {v} response(s) "
                        f"{'(1-D Y) ' if oneD else ''}(n={n}, p={p}) while the same call works on every "
                        f"single-response fit")
            continue
        if ref_err is not None:
            if fail is None:
                fail = (f"results.{_describe(op)} is refused ({ref_err}) on a single-response fit but accepted on "
                        f"the block of {v} responses")
            continue
        if fail is not None:
            continue
        # (a) block = stacked single-response results, for every response
        for j in range(v):
            for i, (a, b, base) in enumerate(zip(outs, ref[j], bases)):
                pj = per_response(a, base, j, v)
                if isinstance(pj, str):
                    fail = (f"results.{_describe(op)}: output {i} has shape {a.shape} on a block of {v} responses "
                            f"(expected {base} leading axes and at most one response axis)")
                    break
                if (pj is None) != (b is None):
                    fail = f"results.{_describe(op)}: stored fields differ between block and single response"
                    break
                if pj is None:
                    continue
                bj = per_response(b, base, 0, 1)
                if meta["perfect"] and _ratio_like(op, i):
                    continue
                if not near(pj, bj, _rt(op, i, rt_o), fl[i]):
                    fail = (f"results.{_describe(op)}: output {i} for response {j} of a block of {v} responses "
                            f"differs from the same call on the single-response fit of that column: "
                            f"{worst(np.asarray(pj), np.asarray(bj))} (n={n}, p={p}, w={w['kind']})")
                    break
            if fail:
                break
        if fail:
            continue
        # (b) defining identities on the block
        fail = _identities(op, outs, res, blk, m, X, Yb, oneD, rt_o, meta, fl)
        if fail:
            continue
        # (c) any selection / order of the responses
        if not oneD and op["op"] != "stats":
            try:
                rs = m.fit(Yb[:, sel])
                outs_s = apply_op(rs, op, p, sel=sel)
            except Exception as e:
                fail = (f"results.{_describe(op)} raised {type(e).__name__}: {e} on the voxel selection {sel} "
                        f"of a block where it works")
                continue
            vs = len(sel)
            for jj, j in enumerate(sel):
                for i, (a, b, base) in enumerate(zip(outs_s, outs, bases)):
                    pa, pb = per_response(a, base, jj, vs), per_response(b, base, j, v)
                    if isinstance(pa, str) or isinstance(pb, str) or pa is None or pb is None:
                        continue
                    if meta["perfect"] and _ratio_like(op, i):
                        continue
                    if not near(pa, pb, _rt(op, i, rt_o), fl[i]):
                        fail = (f"results.{_describe(op)}: output {i} of the fit of the voxel selection {sel} differs "
                                f"at position {jj} from response {j} of the full block: "
                                f"{worst(np.asarray(pa), np.asarray(pb))}")
                        break
                if fail:
                    break
    mut = snap.changed()
    c0 = " ".join(op_tokens(op, p) for op in ops)
    line = (f"res {pmat(X)} {pmat(Yb)} {H._wline(w, m)} {1 if oneD else 0} {len(ops)} {c0}")
    # Student quantiles for the intervals (external numerics: scipy)
    from scipy.stats import t as tdist
    meta["tq"] = [float(tdist.ppf(1 - op["alpha"] / 2, n - p)) if op["op"] == "ci" else None for op in ops]
    return {"lines": [line], "impl": [("res", impl_ops, meta)], "oracle": fail, "tags": tags, "mutated": mut,
            "nontrivial": True}


def _describe(op):
    kind = op["op"]
    d = op.get("disp", {"k": "self"})
    ds = "" if d["k"] == "self" else f", dispersion=<{d['k']}>"
    if kind == "t":
        return f"t(column={op['col']})"
    if kind == "vcov":
        how = op["how"]
        a = {"col": f"column={op.get('col')}", "cols": f"column={op.get('cols')}",
             "mat": f"matrix={op.get('M')}" + (f", other={op.get('O')}" if op.get("O") is not None else ""),
             "full": ""}[how]
        return f"vcov({a}{ds})".replace("(, ", "(")
    if kind == "tcon":
        return f"Tcontrast({op['c']}, store={op['store']}{ds})"
    if kind == "fcon":
        return f"Fcontrast({op['M']}{ds}{', invcov=...' if op.get('invcov') is not None else ''})"
    if kind == "ci":
        return f"conf_int(alpha={op['alpha']}, cols={op['cols']}{ds})"
    if kind == "score":
        return f"model.score(theta + {op['delta']}, Y, nuisance={'None' if op['sigma'] is None else {'sigma': op['sigma']}})"
    return "summary statistics"


def _ratio_like(op, i):
    """outputs that are ratios by (functions of) the dispersion: undefined on a perfect fit"""
    kind = op["op"]
    return (kind == "t") or (kind == "tcon" and i == 2) or (kind == "fcon" and i == 0) or \
           (kind == "score" and i == 0 and op["sigma"] is None) or \
           (kind == "stats" and i in (6, 7, 8, 11, 12, 13, 14))


def _rt(op, i, rt):
    return 1e3 * rt if _ratio_like(op, i) else rt


def _identities(op, outs, res, blk, m, X, Yb, oneD, rt, meta, fl):
    n, p, v = meta["n"], meta["p"], meta["v"]
    kind = op["op"]
    cov = np.asarray(res.cov, float)
    theta = np.asarray(blk.theta, float)                    # (p, v)
    disp = np.atleast_1d(np.asarray(blk.dispersion, float))

    def dj(j):
        D = op.get("disp", {"k": "self"})
        if D["k"] == "self":
            return disp[j]
        return float(np.atleast_1d(np.asarray(D["d"], float))[j if D["k"] == "a1" else 0])

    if kind == "t" and not meta["perfect"]:
        col = op["col"]
        cols = list(range(p)) if col is None else ([col] if isinstance(col, int) else col)
        base = 0 if isinstance(col, int) else 1
        for a, c in enumerate(cols):
            e = np.zeros(p); e[c] = 1.0
            tt = np.atleast_1d(np.asarray(blk.Tcontrast(e).t, float))
            for j in range(v):
                pj = per_response(outs[0], base, j, v)
                val = float(pj) if base == 0 else float(np.asarray(pj)[a])
                if not near(val, tt[j], 1e3 * rt, 1e-6):
                    return (f"t(column={col}) for parameter {c}, response {j} is {val!r} but "
                            f"Tcontrast(e_{c % p}).t is {float(tt[j])!r} (n={n}, p={p}, v={v})")
    if kind == "vcov":
        how = op["how"]
        if how == "col":
            B = np.array([[cov[op["col"], op["col"]]]]); base = 0
        elif how == "cols":
            B = cov[op["cols"]][:, op["cols"]]; base = 2
        elif how == "mat":
            M = np.array(op["M"], float); O = M if op.get("O") is None else np.array(op["O"], float)
            B = M @ cov @ O.T; base = 2
        else:
            B = cov; base = 2
        for j in range(v):
            pj = per_response(outs[0], base, j, v)
            want = B * dj(j) if base == 2 else B[0, 0] * dj(j)
            if not near(pj, want, rt, fl[0]):
                return (f"{_describe(op)} for response {j} is not (M cov M') * dispersion_{j}: "
                        f"{worst(np.asarray(pj), np.asarray(want))} (n={n}, p={p}, v={v})")
    if kind == "ci":
        from scipy.stats import t as tdist
        cols = list(range(p)) if op["cols"] is None else op["cols"]
        q = float(tdist.ppf(1 - op["alpha"] / 2, n - p))
        for j in range(v):
            pj = per_response(outs[0], 2, j, v)
            if isinstance(pj, str) or np.asarray(pj).shape != (len(cols), 2):
                return f"{_describe(op)}: interval array for response {j} has shape {np.shape(pj)}, expected {(len(cols), 2)}"
            for a, c in enumerate(cols):
                half = q * math.sqrt(max(cov[c, c] * dj(j), 0.0))
                if not near(pj[a], [theta[c, j] - half, theta[c, j] + half], rt, fl[0]):
                    return (f"{_describe(op)}: interval of parameter {c}, response {j} is {np.asarray(pj[a]).tolist()}, "
                            f"expected theta -/+ t_q*sd = {[theta[c, j] - half, theta[c, j] + half]}")
    if kind == "tcon" and "effect" in op["store"]:
        c = np.array(op["c"], float)
        eff = np.atleast_1d(outs[0]).ravel()
        if not near(eff, c @ theta, rt, fl[0]):
            return f"{_describe(op)}: effect {eff.tolist()} is not c . theta = {(c @ theta).tolist()}"
    if kind == "fcon":
        if float(outs[3]) != len(op["M"]) or float(outs[4]) != n - p:
            return f"{_describe(op)}: df_num/df_den = {float(outs[3])}/{float(outs[4])}, expected {len(op['M'])}/{n - p}"
        if len(op["M"]) == 1 and op.get("invcov") is None and not meta["perfect"]:
            tt = np.atleast_1d(np.asarray(blk.Tcontrast(np.array(op["M"][0], float),
                                                        dispersion=None).t, float))
            F = np.atleast_1d(outs[0]).ravel()
            dsc = np.array([dj(j) for j in range(v)]) if op["disp"]["k"] != "self" else disp
            with np.errstate(all="ignore"):
                want = np.where(dsc > 0, tt ** 2 * disp / np.where(dsc > 0, dsc, 1.0), 0.0)
            if not near(F, want, 1e3 * rt, 1e-9):
                return f"{_describe(op)}: one-row F {F.tolist()} is not t^2 (rescaled by the dispersion) {want.tolist()}"
    if kind == "score":
        if not any(op["delta"]) and not (meta["perfect"] and op["sigma"] is None):
            sc = np.asarray(outs[0], float)
            if not np.all(np.isfinite(sc)) or float(np.abs(sc).max()) > 1e3 * rt * fl[0] * max(1.0, meta.get("cond", 1.0)):
                return (f"the score (gradient of the log-likelihood) does not vanish at the fitted coefficients: "
                        f"max |score| = {float(np.abs(sc).max())!r} (n={n}, p={p})")
        if outs[1] is not None and not near(outs[1], op["sigma"] * (X.T @ X), rt, fl[1]):
            return "information != sigma * X'X"
    if kind == "stats":
        if int(m.rank) != p:
            return f"OLSModel.rank = {m.rank} for a full-rank design with {p} columns"
        SSE, SST, SSR, MSE = (np.atleast_1d(outs[i]) for i in range(4))
        ss = fl[0]
        if not near(SSR + SSE, SST, rt, ss):
            return f"SSR + SSE != SST: {worst(SSR + SSE, SST)}"
        if not near(MSE, disp, rt, ss):
            return f"MSE {MSE.tolist()} differs from dispersion {disp.tolist()} on a full-rank design"
        with np.errstate(all="ignore"):
            MSR, MST, R2a, Fo = (np.atleast_1d(outs[i]) for i in (4, 5, 7, 8))
            if p > 1 and not near(MSR, SSR / (p - 1), rt, ss):
                return f"MSR != SSR / (df_model - 1): {worst(MSR, SSR / (p - 1))}"
            if n > 1 and not near(MST, SST / (n - 1), rt, ss):
                return f"MST != SST / (df_total - 1): {worst(MST, SST / (n - 1))}"
            if not meta["perfect"] and p > 1 and np.all(SST > 1e-9 * ss):
                want = 1 - (SSE / SST) * ((n - 1.0) / (n - p))
                if not near(R2a, want, 1e3 * rt, 1e-9):
                    return f"R2_adj != 1 - (1 - R2)(n - 1)/(n - p): {worst(R2a, want)}"
                if not near(Fo, (SSR / (p - 1)) / MSE, 1e3 * rt, 1e-9):
                    return f"F_overall != MSR / MSE: {worst(Fo, (SSR / (p - 1)) / MSE)}"
        resid, pred = outs[9], outs[10]
        Yv = Yb[:, 0] if oneD else Yb
        if not near(resid + pred, Yv, rt, meta["ys"]):
            return "resid + predicted != Y"
        if not near(pred, X @ (theta[:, 0] if oneD else theta), rt, meta["ys"]):
            return "predicted != design . theta"
        wres = np.asarray(res.wresid, float)
        if not near((wres ** 2).sum(0), outs[0], rt, ss):
            return "SSE != sum(wresid**2)"
        if type(m).__name__ == "OLSModel" and not near(resid, wres, rt, meta["ys"]):
            return "OLS: resid != wresid"
        if not meta["perfect"]:
            with np.errstate(all="ignore"):
                if not near(outs[11] * np.sqrt(disp if not oneD else disp[0]), resid, 1e3 * rt, meta["ys"]):
                    return "norm_resid * sqrt(dispersion) != resid"
                R2 = np.atleast_1d(outs[6])
                if np.all(SST > 1e-9 * ss):
                    if not near(R2, 1 - SSE / SST, 1e3 * rt, 1e-9):
                        return f"R2 != 1 - SSE/SST: {worst(R2, 1 - SSE / SST)}"
                    if bool(m.has_intercept) and (np.any(R2 < -1e-7) or np.any(R2 > 1 + 1e-7)):
                        return f"model with intercept in its (whitened) column space has R2 outside [0, 1]: {R2.tolist()}"
                sig = SSE / n
                want = -n / 2.0 * np.log(2 * np.pi * sig) - n / 2.0
                L = np.atleast_1d(outs[12])
                if np.all(sig > 0) and not near(L, want, 1e3 * rt, 1.0):
                    return f"logL != -n/2 log(2 pi SSE/n) - n/2: {worst(L, want)}"
                if not near(np.atleast_1d(outs[13]), -2 * L + 2 * p, 1e3 * rt, 1.0):
                    return "AIC != -2 logL + 2p"
                if not near(np.atleast_1d(outs[14]), -2 * L + math.log(n) * p, 1e3 * rt, 1.0):
                    return "BIC != -2 logL + log(n) p"
        if float(outs[15]) != p - 1 or float(outs[16]) != n - p:
            return f"F_overall degrees of freedom {float(outs[15])}/{float(outs[16])}, expected {p - 1}/{n - p}"
    return None


# ----------------------------------------------------------------------
# correspondence
# ----------------------------------------------------------------------
def parse_tensor(s):
    s = s.strip()
    if not s.startswith("["):
        raise ValueError(s[:60])
    k = s.index("]")
    shape = [int(x) for x in s[1:k].split()]
    data = np.array([float(x) for x in parse_rats(s[k + 1:])], float)
    return shape, data


def compare_results(case, obs, meta, model_out):
    if model_out.startswith("bad-op"):
        return "model says bad-op"
    if model_out.startswith("error:singular"):
        return "model: singular Gram matrix on a design the implementation fitted"
    ops = meta["ops"]
    secs = model_out.split(" | ")
    if len(secs) != len(ops):
        return f"model returned {len(secs)} sections for {len(ops)} operations"
    rt = meta["rtol"]
    for k, (op, impl, sec) in enumerate(zip(ops, obs, secs)):
        where = f"op {k} {_describe(op)}"
        if isinstance(impl, str):
            if sec.strip() != impl:
                return f"{where}: impl={impl} model={sec[:80]}"
            continue
        if sec.startswith("error"):
            return f"{where}: impl returned values, model says {sec[:60]}"
        try:
            ts = [parse_tensor(t) for t in sec.split(" ; ")]
        except ValueError as e:
            return f"{where}: unparsable model section {e}"
        fl = floors(op, meta)
        d = _cmp_op(op, impl, ts, meta, rt, fl, meta["tq"][k])
        if d is not None:
            return f"{where}: {d}"
    return None


def _chk(name, impl, shape, data, rtol, floor):
    ishape, idata = impl
    if list(ishape) != list(shape):
        return f"{name}: shape impl={list(ishape)} model={list(shape)}"
    if not near(np.asarray(idata, float), data, rtol, floor):
        return f"{name}: impl/model {worst(np.asarray(idata, float), data)}"
    return None


def _cmp_op(op, impl, ts, meta, rt, fl, tq):
    kind = op["op"]
    perfect = meta["perfect"]
    if kind == "t":
        (sh, th), (sh2, var) = ts
        if sh != sh2:
            return f"model theta/var shapes {sh} {sh2}"
        ishape, idata = impl[0]
        if list(ishape) != sh:
            return f"t: shape impl={list(ishape)} model={sh}"
        if perfect:
            return None
        tm = th * pos_recipr(np.sqrt(np.maximum(var, 0.0)))
        good = var > 1e-9 * meta["covs"] * meta["ys"] ** 2
        a = np.asarray(idata, float)
        return None if near(a[good], tm[good], 1e3 * rt, 1e-6) else f"t: impl/model {worst(a[good], tm[good])}"
    if kind == "vcov":
        return _chk("vcov", impl[0], ts[0][0], ts[0][1], rt, fl[0])
    if kind == "tcon":
        eff, var, teff, tvar = ts
        for name, im, t in (("effect", impl[0], eff), ("sd", impl[1], var), ("t", impl[2], teff)):
            if (im is None) != (t[0] == [0]):
                return f"Tcontrast {name}: stored impl={im is not None} model={t[0] != [0]}"
        if impl[0] is not None:
            d = _chk("Tcontrast effect", impl[0], eff[0], eff[1], rt, fl[0])
            if d:
                return d
        if impl[1] is not None:
            ishape, idata = impl[1]
            d = _chk("Tcontrast sd^2", (ishape, (np.asarray(idata, float) ** 2).tolist()), var[0], var[1], 4 * rt,
                     meta["covs"] * meta["ys"] ** 2 * max(1.0, float(np.abs(op["c"]).sum())) ** 2)
            if d:
                return d
        if impl[2] is not None:
            ishape, idata = impl[2]
            if list(ishape) != teff[0]:
                return f"Tcontrast t: shape impl={list(ishape)} model={teff[0]}"
            if not perfect or op["disp"]["k"] != "self":
                tm = teff[1] * pos_recipr(np.sqrt(np.maximum(tvar[1], 0.0)))
                good = tvar[1] > 1e-9 * meta["covs"] * meta["ys"] ** 2
                a = np.asarray(idata, float)
                if not near(a[good], tm[good], 1e3 * rt, 1e-6):
                    return f"Tcontrast t: impl/model {worst(a[good], tm[good])}"
        if float(impl[3][1][0]) != meta["df"]:
            return f"Tcontrast df_den impl={impl[3][1][0]} model={meta['df']}"
        return None
    if kind == "fcon":
        F, eff, cov, q = ts
        ishape, idata = impl[0]
        if list(ishape) != F[0]:
            return f"Fcontrast F: shape impl={list(ishape)} model={F[0]}"
        if not (perfect and op["disp"]["k"] == "self"):
            cc = max(1.0, np.linalg.cond(np.array(op["M"], float) @ np.eye(meta["p"]) @ np.array(op["M"], float).T))
            if not near(np.asarray(idata, float), F[1], 1e4 * rt * cc, 1e-9):
                return f"Fcontrast F: impl/model {worst(np.asarray(idata, float), F[1])}"
        d = _chk("Fcontrast effect", impl[1], eff[0], eff[1], rt, fl[1]) or \
            _chk("Fcontrast covariance", impl[2], cov[0], cov[1], 4 * rt, fl[2])
        if d:
            return d
        if float(impl[3][1][0]) != float(q[1][0]):
            return f"Fcontrast df_num impl={impl[3][1][0]} model={q[1][0]}"
        return None
    if kind == "ci":
        (shc, cen), (shv, var) = ts
        if shc != shv:
            return f"model centre/var shapes {shc} {shv}"
        half = tq * np.sqrt(np.maximum(var, 0.0))
        k = shc[0]
        lo = (cen - half).reshape([k, 1] + shc[1:]); hi = (cen + half).reshape([k, 1] + shc[1:])
        want = np.concatenate([lo, hi], axis=1)
        return _chk("conf_int", impl[0], list(want.shape), want.ravel(), 10 * rt, fl[0])
    if kind == "score":
        sc, info = ts
        if sc[0] != [0] and not (perfect and op["sigma"] is None):
            d = _chk("score", impl[0], sc[0], sc[1], 1e3 * rt, fl[0])
            if d:
                return d
        if (impl[1] is None) != (info[0] == [0]):
            return "information: presence differs"
        if impl[1] is not None:
            return _chk("information", impl[1], info[0], info[1], rt, fl[1])
        return None
    # stats
    if len(ts) != 13:
        return f"model returned {len(ts)} statistics"
    for i, nm in enumerate(STAT_NAMES):
        sh, data = ts[i]
        ishape, idata = impl[i]
        if sh == [0]:
            continue            # denominator zero: inf/nan in NumPy
        if perfect and i in (6, 7, 8):
            continue
        d = _chk(nm, impl[i], sh, data, (1e3 * rt if i >= 6 else rt), fl[i])
        if d:
            return d
    sig = ts[9]
    d = _chk("resid", impl[9], ts[10][0], ts[10][1], rt, fl[9]) or \
        _chk("predicted", impl[10], ts[11][0], ts[11][1], rt, fl[10])
    if d:
        return d
    if not perfect:
        dispm = ts[12][1]
        rs = ts[10][1].reshape(ts[10][0])
        nr = rs * pos_recipr(np.sqrt(np.maximum(dispm, 0.0)))
        d = _chk("norm_resid", impl[11], list(nr.shape), nr.ravel(), 1e3 * rt, 1e-6)
        if d:
            return d
        n = meta["n"]
        if np.all(sig[1] > 0):
            L = -n / 2.0 * np.log(2 * np.pi * sig[1]) - n / 2.0
            d = _chk("logL", impl[12], sig[0], L, 1e3 * rt, 1.0) or \
                _chk("AIC", impl[13], sig[0], -2 * L + 2 * meta["p"], 1e3 * rt, 1.0) or \
                _chk("BIC", impl[14], sig[0], -2 * L + math.log(n) * meta["p"], 1e3 * rt, 1.0)
            if d:
                return d
    return None


# ----------------------------------------------------------------------
# nipy.algorithms.utils.matrices
# ----------------------------------------------------------------------
def run_matrices(H, case):
    from nipy.algorithms.utils import matrices as mt
    what = case["what"]
    if what == "recip":
        xs = np.array(case["xs"], float)
        shp = case.get("shape")
        a = xs.reshape(shp) if shp else xs
        if case.get("int"):
            a = a.astype(int)
        pr = np.asarray(mt.pos_recipr(a), float); r0 = np.asarray(mt.recipr0(a), float)
        fail = None
        if pr.shape != a.shape or r0.shape != a.shape or pr.dtype != np.float64:
            fail = f"pos_recipr/recipr0 changed the shape or dtype: {pr.shape} {r0.shape} for input {a.shape}"
        line = "recip " + f"{xs.size} " + frs([float(x) for x in np.asarray(a, float).ravel()])
        return {"lines": [line], "impl": [("recip", [pr.ravel().tolist(), r0.ravel().tolist()], {})],
                "oracle": fail, "tags": ["matrices", "recip"], "nontrivial": True, "mutated": None}
    # rank / full_rank on an exact (small integer or dyadic) matrix
    X = np.array(case["X"], float)
    n, p = X.shape
    from nipy.algorithms.statistics.models.regression import OLSModel
    r = int(mt.matrix_rank(X))
    fail = None
    tags = ["matrices", "rank", "rank-deficient" if r < min(n, p) else "full-rank"]
    F = np.asarray(mt.full_rank(X), float)
    if r == 0:
        tags.append("rank-0")          # degenerate: full_rank returns an empty 1-D array; nothing to span
    elif F.shape != (n, r):
        fail = f"full_rank returned shape {F.shape} for a matrix of rank {r}"
    elif int(mt.matrix_rank(F)) != r or int(mt.matrix_rank(np.hstack([F, X]))) != r:
        fail = f"full_rank(X) does not span the column space of X (rank {r})"
    if fail is None and int(mt.matrix_rank(X.T)) != r:
        fail = "matrix_rank(X') != matrix_rank(X)"
    if fail is None and n > p:
        # what the models do with a rank-deficient design (outside the property's domain: recorded,
        # and the parts that stay meaningful are checked): pinv gives a least-squares solution, so the
        # fitted values are those of the full-rank design with the same column space; df_model = rank
        m = OLSModel(X)
        Y = np.array(case["Y"], float)
        res = m.fit(Y)
        if int(m.df_model) != r or int(res.df_resid) != n - r:
            fail = f"OLSModel.df_model = {m.df_model}, df_resid = {res.df_resid} for a design of rank {r} (n={n})"
        elif r >= 1:
            res2 = OLSModel(F).fit(Y)
            sc = max(1.0, float(np.abs(Y).max()))
            sv = np.linalg.svd(X, compute_uv=False)
            cond = float(sv[0] / sv[r - 1]) if sv[r - 1] > 0 else 1e16
            if cond > 1e6:
                tags.append("ill-conditioned")
            # (the fitted values of an ill-conditioned design carry the rounding of pinv: cond * eps)
            if not near(res.predicted, res2.predicted, max(1e-8, 1e-13 * cond), sc):
                fail = (f"fitted values of a rank-{r} design differ from those of full_rank(design): "
                        f"{worst(np.asarray(res.predicted), np.asarray(res2.predicted))}")
            elif cond <= 1e6 and not near(X.T @ np.asarray(res.wresid), 0 * (X.T @ Y), 1e-8,
                                          sc * max(1.0, float(np.abs(X).max())) * n):
                fail = "residuals of a rank-deficient OLS fit are not orthogonal to the design"
            if r < p:
                tags.append("dispersion-uses-p-not-rank")
    line = f"rank {pmat(X)}"
    return {"lines": [line], "impl": [("text", str(r), {})], "oracle": fail, "tags": tags,
            "nontrivial": True, "mutated": None}
