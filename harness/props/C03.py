"""C03 — NIfTI save/load round trip preserves data and geometry, or refuses.

Correspondence: `nipy2nifti` (header fields, data transposition, refusals),
`_find_time_like`, `nifti2nipy` (names, affine, squeeze rule) against the Lean
model `NipyVerif.C03`; `io_orientation` (SVD) results are passed to the model
as a table (parameter of the model).  Oracle: the round trip, in memory and
through .nii / .nii.gz / .hdr+.img / SPM-Analyze .img files, compared with the
input as (xyz position, time-like coordinate, extra coordinates) -> value
tables; refusal (NiftiError) demanded for the inexpressible geometries.
"""
from __future__ import annotations

import itertools
import os
import shutil
import tempfile
import warnings

import numpy as np

from harness.core import PropertyCheck
from harness.props import c03_file as F
from harness.util import close, errname, fr, frac, frs, parse_rats

SPACES = ["scanner", "aligned", "talairach", "mni", "unknown"]
CODES = {"unknown": 0, "scanner": 1, "aligned": 2, "talairach": 3, "mni": 4}
TL_NAMES = {"t": ("t", "time"), "hz": ("hz", "frequency-hz"), "ppm": ("ppm", "concentration-ppm"),
            "rads": ("rads", "radians/s")}
TL_UNITS = {"t": "sec", "hz": "hz", "ppm": "ppm", "rads": "rads"}
DTYPES = ["u1", "i2", "i4", "f4", "f8"]
FORMATS = [".nii", ".nii.gz", ".hdr", ".img"]


def space_names(sp):
    return [f"{sp}-x=L->R", f"{sp}-y=P->A", f"{sp}-z=I->S"]


# ----------------------------------------------------------------------
# generation
# ----------------------------------------------------------------------
def _perm(rng, n, p_id=0.35):
    p = list(range(n))
    if rng.random() >= p_id:
        rng.shuffle(p)
    return p


def _spatial(rng, space, shape3):
    """invertible dyadic 3x3 (rotation / flip / shear / zoom) + translation"""
    if space == "unknown":   # only the header's base affine is expressible
        z = [rng.choice([1.0, 2.0, 0.5, 3.0, 1.5]) for _ in range(3)]
        A = np.diag([-z[0], z[1], z[2]])
        t = np.array([-(shape3[r] - 1) / 2.0 * A[r, r] for r in range(3)])
        return A, t
    z = [rng.choice([1.0, 2.0, 0.5, 3.0, 1.5, 4.0]) for _ in range(3)]
    A = np.diag(z)
    kind = rng.choice(["diag", "flip", "rot", "shear", "rotshear", "perm"])
    if kind in ("flip", "rot", "rotshear"):
        for r in range(3):
            if rng.random() < 0.5:
                A[r, r] = -A[r, r]
    if kind in ("rot", "rotshear", "perm"):
        p = list(range(3)); rng.shuffle(p)
        A = A[p, :]
    if kind in ("shear", "rotshear"):
        # small off-diagonal terms keep the closest-axis assignment unambiguous
        for _ in range(rng.choice([1, 2])):
            r, c = rng.sample(range(3), 2)
            col_big = max(abs(A[:, c]))
            A[r, c] += rng.choice([0.25, -0.25, 0.125]) * col_big
    if abs(np.linalg.det(A)) < 1e-6:
        A = np.diag(z)
    t = np.array([rng.choice([0.0, -12.5, 30.0, 7.0, -90.0, 1.5]) for _ in range(3)])
    return A, t


def _name_design(rng, d, mode=None):
    """(re)assign axis names to the structural fields of a design"""
    k, tl, tpos, space, strict = d["k"], d["tl"], d["tpos"], d["space"], d["strict"]
    mode = mode or (rng.choice(["both", "both", "alias", "in", "out"]) if tl else None)
    plain_in = ["l", "m", "n", "o", "p"]
    plain_out = rng.choice([["u", "v", "w", "q", "r2"], ["a", "b", "c", "d", "e"], ["l", "m", "n", "o", "p"]])
    inn = ["i", "j", "k"] + plain_in[:k]
    if rng.random() < 0.25:
        for nm, pos in zip(rng.sample(["freq", "phase", "slice"], rng.choice([1, 2, 3])), rng.sample(range(3), 3)):
            inn[pos] = nm
    if space != "unknown" and not strict and rng.random() < 0.3:
        outn = ["x", "y", "z"] + plain_out[:k]
        named_space = "scanner"
    else:
        outn = space_names(space) + plain_out[:k]
        named_space = space
    if tl:
        a, b = TL_NAMES[tl]
        ni, no = {"both": (a, a), "alias": rng.choice([(a, b), (b, a), (b, b)]), "in": (a, None),
                  "out": (None, rng.choice([a, b]))}[mode]
        if ni:
            inn[3 + tpos] = ni
        if no:
            outn[3 + tpos] = no
    d.update(inn=inn, outn=outn, named_space=named_space, plain_out=plain_out, mode=mode)
    return d


def make_design(rng, n=None, malformed=None, force=None):
    """structural description of an image NIfTI can express: dimensions, space, spatial affine, time-like axis
    (kind, position among the non-spatial axes, TR, origin), scalings of the other axes; then names"""
    force = force or {}
    n = n if n is not None else rng.choice([3, 4, 4, 5, 5, 6, 7])
    k = n - 3
    space = force.get("space") or rng.choice(SPACES)
    strict = force["strict"] if "strict" in force else rng.random() < 0.5
    shape3 = [rng.choice([1, 2, 2, 3]) for _ in range(3)]
    A, t3 = _spatial(rng, space, shape3)
    tl = rng.choice([None, "t", "t", "hz", "ppm", "rads"]) if k else None
    if "tl" in force:
        tl = force["tl"] if k else None
    if k == 4 and malformed != "toomany":
        tl = tl or "t"           # seven dimensions need a time-like axis
    if k == 4 and malformed == "toomany":
        tl = None
    tpos = rng.randrange(k) if tl else None
    if tl and "tpos" in force:
        tpos = force["tpos"]
    scales, lens, offs = [], [], []
    pool = [0.5, 1.0, 2.0, 3.0, 1.5, 4.0, 2.5]
    rng.shuffle(pool)
    for j in range(k):
        if j == tpos:
            sc = rng.choice([0.0, 0.0, 2.0, 2.5, 1.0, 0.75])
            if "zero_tr" in force:
                sc = 0.0 if force["zero_tr"] else rng.choice([2.0, 2.5, 1.0, 0.75])
            scales.append(sc)
            lens.append(rng.choice([1, 2, 3]))
            offs.append(rng.choice([0.0, 0.0, 14.0, -3.5, 0.25]) if tl == "t" else 0.0)
        else:
            scales.append(pool[j])
            lens.append(rng.choice([1, 2, 2, 3]) if k <= 2 else rng.choice([1, 2]))
            offs.append(0.0)
    if k and rng.random() < 0.18:
        # steps of very different magnitude on the non-spatial axes (Hz / b-value like axes next to seconds):
        # thresholds of the code are absolute, so acceptance must not depend on the scale of the block
        j = rng.randrange(k)
        if scales[j] != 0:
            scales[j] = scales[j] * rng.choice([2.0 ** 18, 2.0 ** 20, 2.0 ** 22, 2.0 ** -10])
    d = {"n": n, "k": k, "space": space, "strict": strict, "shape3": shape3, "A": A.tolist(), "t3": t3.tolist(),
         "tl": tl, "tpos": tpos, "scales": scales, "lens": lens, "offs": offs}
    return _name_design(rng, d, force.get("mode"))


MUTATIONS = ["origin0", "origin0", "origin", "tr", "droptime", "addtime", "retype", "space", "affine", "to3d",
             "addextra", "dropextra", "resize", "rename", "perm"]


def mutate_design(rng, d0):
    """an edit of an image between a load and the next save: time origin reset / changed, TR changed, time
    axis dropped / added / retyped, space renamed, coordmap (spatial affine) reset, axes added / dropped /
    resized / renamed / permuted.  Returns (edit name, new design)."""
    import copy
    for _ in range(20):
        d = copy.deepcopy(d0)
        m = rng.choice(MUTATIONS)
        k, tl, tpos = d["k"], d["tl"], d["tpos"]
        if m == "origin0" and tl == "t" and d["offs"][tpos] != 0:
            d["offs"][tpos] = 0.0
        elif m == "origin" and tl == "t":
            d["offs"][tpos] = rng.choice([x for x in [0.0, 14.0, -3.5, 0.25, 42.0, 7.5] if x != d["offs"][tpos]])
        elif m == "tr" and tl:
            d["scales"][tpos] = rng.choice([x for x in [0.0, 2.0, 2.5, 1.0, 0.75, 3.5] if x != d["scales"][tpos]])
        elif m == "droptime" and tl:
            for key in ("scales", "lens", "offs"):
                d[key].pop(tpos)
            d.update(k=k - 1, n=d["n"] - 1, tl=None, tpos=None)
        elif m == "addtime" and tl is None and k < 4:
            pos = rng.randrange(k + 1)
            kind = rng.choice(["t", "t", "hz", "ppm", "rads"])
            d["scales"].insert(pos, rng.choice([0.0, 2.0, 2.5, 0.75]))
            d["lens"].insert(pos, rng.choice([1, 2, 3]))
            d["offs"].insert(pos, rng.choice([0.0, 0.0, 14.0, -3.5]) if kind == "t" else 0.0)
            d.update(k=k + 1, n=d["n"] + 1, tl=kind, tpos=pos)
        elif m == "retype" and tl:
            d["tl"] = rng.choice([x for x in ["t", "hz", "ppm", "rads"] if x != tl])
            if d["tl"] != "t":
                d["offs"][tpos] = 0.0
        elif m == "space":
            d["space"] = rng.choice([x for x in SPACES if x != d["space"]])
            A, t3 = _spatial(rng, d["space"], d["shape3"])
            d["A"], d["t3"] = A.tolist(), t3.tolist()
        elif m in ("affine", "resize"):
            if m == "resize":
                d["shape3"] = [rng.choice([1, 2, 2, 3]) for _ in range(3)]
                d["lens"] = [rng.choice([1, 2]) for _ in range(k)]
            A, t3 = _spatial(rng, d["space"], d["shape3"])
            d["A"], d["t3"] = A.tolist(), t3.tolist()
        elif m == "to3d" and k:
            d.update(k=0, n=3, tl=None, tpos=None, scales=[], lens=[], offs=[])
        elif m == "addextra" and (k < 3 or (k == 3 and tl)):
            d["scales"].append(rng.choice([0.5, 1.5, 3.0, 6.0]))
            d["lens"].append(rng.choice([1, 2]))
            d["offs"].append(0.0)
            d.update(k=k + 1, n=d["n"] + 1)
        elif m == "dropextra" and k > (1 if tl else 0):
            j = rng.choice([x for x in range(k) if x != tpos])
            for key in ("scales", "lens", "offs"):
                d[key].pop(j)
            d.update(k=k - 1, n=d["n"] - 1, tpos=(tpos - 1 if tl and tpos > j else tpos))
        elif m in ("rename", "perm"):
            d["strict"] = rng.random() < 0.5
        else:
            continue
        return m, _name_design(rng, d)
    return "rename", _name_design(rng, copy.deepcopy(d0))


def make_image_case(rng, malformed=None, n=None, design=None, fix0=None):
    d = design or make_design(rng, n, malformed)
    n, k, space, strict, shape3 = d["n"], d["k"], d["space"], d["strict"], d["shape3"]
    A, t3 = np.array(d["A"]), np.array(d["t3"])
    tl, tpos, scales, lens, offs = d["tl"], d["tpos"], list(d["scales"]), d["lens"], d["offs"]
    inn, outn, named_space, plain_out = list(d["inn"]), list(d["outn"]), d["named_space"], d["plain_out"]
    aff = np.eye(n + 1)
    aff[:3, :3] = A
    aff[:3, -1] = t3
    for j in range(k):
        aff[3 + j, 3 + j] = scales[j]
        aff[3 + j, -1] = offs[j]
    shape = shape3 + lens
    expect = "ok"
    note = []
    # ---- malformed / out-of-quantifier variants --------------------------------
    if malformed == "space-coupled" and k:
        r, c = (rng.randrange(3), 3 + rng.randrange(k))
        if rng.random() < 0.5:
            r, c = c, r
        aff[r, c] = rng.choice([0.5, -1.0, 0.001])
        expect = "refuse"
    elif malformed == "nonspace-coupled" and k >= 2:
        r, c = rng.sample(range(k), 2)
        aff[3 + r, 3 + c] = rng.choice([0.5, -2.0, 0.001])
        # (r, c) joins the diagonal entries (r, r) and (c, c): row r and/or column c then hold two
        # entries unless both scalings are zero (then the coupling is the only entry of its lines)
        expect = "any" if (scales[r] == 0 and scales[c] == 0) else "refuse"
    elif malformed == "world":
        kind = rng.choice(["foreign", "mixed", "plainstrict", "missing"])
        if kind == "foreign":
            outn[:3] = ["foo-x=L->R", "foo-y=P->A", "foo-z=I->S"]
        elif kind == "mixed":
            outn[:3] = [space_names("mni")[0], space_names("scanner")[1], space_names("mni")[2]]
        elif kind == "plainstrict":
            outn[:3] = ["x", "y", "z"]; strict = True
        else:
            outn[rng.randrange(3)] = "r"
        expect = "refuse"
    elif malformed == "toomany":
        expect = "refuse"        # n == 8, or n == 7 without a time-like axis
    elif malformed == "contradict" and tl and k >= 1:
        others = [x for x in TL_NAMES if x != tl]
        kind = rng.choice(["other-out", "other-in", "crossed"] if k >= 2 else ["other-out", "other-in"])
        a, b = TL_NAMES[tl]
        if kind == "other-out":
            inn[3 + tpos] = a; outn[3 + tpos] = rng.choice(TL_NAMES[rng.choice(others)])
        elif kind == "other-in":
            outn[3 + tpos] = a; inn[3 + tpos] = rng.choice(TL_NAMES[rng.choice(others)])
        else:
            q = rng.choice([j for j in range(k) if j != tpos])
            inn[3 + tpos] = a; outn[3 + tpos] = plain_out[tpos]; outn[3 + q] = b
            if scales[tpos] == 0:
                scales[tpos] = 2.0; aff[3 + tpos, 3 + tpos] = 2.0
        expect = "refuse"
    elif malformed == "unknown-incompatible":
        space = named_space = "unknown"
        outn[:3] = space_names("unknown")
        A2, t2 = _spatial(rng, "mni", shape3)
        aff[:3, :3] = A2; aff[:3, -1] = t2 + 1.0
        expect = "refuse"
    elif malformed == "tiny" and k:
        # couplings below the acceptance thresholds (1e-8 to space, 1e-5 among non-space axes)
        if k >= 2 and rng.random() < 0.5:
            r, c = rng.sample(range(k), 2)
            aff[3 + r, 3 + c] = rng.choice([2.0 ** -20, -2.0 ** -18, 2.0 ** -30])
        else:
            aff[rng.randrange(3), 3 + rng.randrange(k)] = rng.choice([2.0 ** -30, -2.0 ** -28])
        expect = "ok-approx" if not (tl and scales[tpos] == 0) else "any"
    elif malformed == "offset-elsewhere" and k:
        j = rng.randrange(k)
        aff[3 + j, -1] = rng.choice([5.0, -2.0])
        expect = "any"; note.append("offset on a non-'t' axis: outside the quantifier")
    elif malformed == "negscale" and k:
        j = rng.randrange(k)
        aff[3 + j, 3 + j] = -abs(aff[3 + j, 3 + j]) or -1.0
        expect = "any"; note.append("negative non-spatial scaling: outside the quantifier")
    elif malformed == "twozero" and k >= 2:
        for j in rng.sample(range(k), 2):
            aff[3 + j, 3 + j] = 0.0
        expect = "any"; note.append("two zero scalings: outside the quantifier")
    elif malformed == "nofix0" and k:
        expect = "any"
    use_fix0 = (malformed != "nofix0") if fix0 is None else fix0
    if not use_fix0 and expect == "ok" and tl and scales[tpos] == 0:
        expect = "any"      # without the zero row / column repair a TR of 0 cannot be matched to its axis
    # ---- permutations of output coordinates among non-spatial axes, then of everything ----
    rows = list(range(n))
    if k >= 2 and rng.random() < 0.3:
        sub = list(range(3, n)); rng.shuffle(sub)
        rows = [0, 1, 2] + sub
    pin, pout = _perm(rng, n), _perm(rng, n)
    rows = [rows[p] for p in pout]
    aff2 = np.eye(n + 1)
    aff2[:n, :] = aff[rows, :]
    aff2[:, :n] = aff2[:, pin]
    outn2 = [outn[r] for r in rows]
    inn2 = [inn[c] for c in pin]
    shape2 = [shape[c] for c in pin]
    if space == "unknown" and expect in ("ok", "ok-approx"):
        # the 'unknown' world only holds the header's base affine (voxel axes in x, y, z order).  When the
        # coordmap already has an xyz affine, as_xyz_image does not transpose and a permuted-diagonal
        # affine is (correctly) refused; either outcome is legal for the property.
        sp_cols = [pin.index(c) for c in range(3)]
        if [rows.index(r) for r in range(3)] == [0, 1, 2] and sorted(sp_cols) == [0, 1, 2] and sp_cols != [0, 1, 2]:
            expect = "any"
    spec = {
        "space": named_space, "tl": tl, "expect": expect, "note": note,
        "xyz_rows": [outn2.index(outn[r]) for r in range(3)],
        "time_row": outn2.index(outn[3 + tpos]) if tl else None,
        "time_col": pin.index(3 + tpos) if tl else None,
        # extras: (input axis, output row) in the given image
        "extras": [[pin.index(3 + j), rows.index(3 + j)] for j in range(k) if j != tpos],
        "plain_xyz": outn[:3] == ["x", "y", "z"],
    }
    dtype = rng.choice(DTYPES)
    if dtype == "u1" and int(np.prod(shape)) > 250:
        dtype = "i2"     # voxel values are 0..N-1 and identify the voxel: keep them exactly storable
    fmts = []
    if expect == "ok" and rng.random() < 0.45:
        fmts = rng.sample(FORMATS, rng.choice([1, 2, 4]))
    return {"kind": "img", "strict": strict, "fix0": use_fix0, "in": inn2, "out": outn2,
            "aff": aff2.tolist(), "shape": shape2, "dtype": dtype, "formats": fmts, "spec": spec,
            "malformed": malformed, "pres": F.choose_pres(rng, int(np.prod(shape2)))}


MALFORMED = ["space-coupled", "nonspace-coupled", "world", "toomany", "contradict", "unknown-incompatible",
             "tiny", "offset-elsewhere", "negscale", "twozero", "nofix0"]


def make_ftl_case(rng):
    """names and non-spatial block straight into `_find_time_like`"""
    k = rng.choice([1, 2, 2, 3, 4])
    n = 3 + k
    pool = ["t", "time", "hz", "frequency-hz", "ppm", "concentration-ppm", "rads", "radians/s"]
    plain_i, plain_o = ["l", "m", "n", "o"], ["u", "v", "w", "q"]
    inn = ["i", "j", "k"] + plain_i[:k]
    outn = space_names("mni") + plain_o[:k]
    for _ in range(rng.choice([1, 2, 2, 3])):
        nm = rng.choice(pool)
        side, j = rng.choice([inn, outn]), 3 + rng.randrange(k)
        if nm not in side:
            side[j] = nm
    aff = np.eye(n + 1)
    aff[:3, :3] = np.diag([2.0, 3.0, 4.0])
    sub = list(range(k))
    if rng.random() < 0.5:
        rng.shuffle(sub)
    blk = np.zeros((k, k))
    for j in range(k):
        blk[sub[j], j] = rng.choice([0.0, 1.0, 2.0, 2.5, 0.5, -1.5])
    aff[3:n, 3:n] = blk
    for j in range(k):
        if rng.random() < 0.3:
            aff[3 + j, -1] = rng.choice([14.0, -2.0])
    fix0 = rng.random() < 0.8
    if k >= 2 and rng.random() < 0.12:
        # a name on both sides whose input axis drives nothing while its output axis is driven by another input
        nm = rng.choice(pool)
        j, r = rng.randrange(k), rng.randrange(k)
        cands = [c for c in range(k) if c != j]
        cc = rng.choice(cands)
        inn = ["i", "j", "k"] + plain_i[:k]; outn = space_names("mni") + plain_o[:k]
        inn[3 + j] = nm; outn[3 + r] = nm
        blk = np.zeros((k, k)); blk[r, cc] = rng.choice([1.0, 2.0, -1.5])
        for q in range(k):
            if q not in (j, cc) and rng.random() < 0.5:
                rows = [x for x in range(k) if x != r and not blk[x].any()]
                if rows:
                    blk[rng.choice(rows), q] = 1.5
        aff[3:n, 3:n] = blk
        fix0 = rng.random() < 0.3
    return {"kind": "ftl", "fix0": fix0, "in": inn, "out": outn, "aff": aff.tolist(),
            "shape": [2] * n}


def make_raw_case(rng):
    """a NIfTI header built directly with nibabel, for `nifti2nipy`"""
    nd = rng.choice([1, 2, 3, 3, 4, 4, 5, 5, 6, 7])
    shape = [rng.choice([1, 2, 3]) for _ in range(min(nd, 3))] + [rng.choice([1, 1, 2]) for _ in range(max(0, nd - 3))]
    A, t = _spatial(rng, "mni", (shape + [1, 1, 1])[:3])
    return {"kind": "raw", "shape": shape, "A": A.tolist(), "t": t.tolist(),
            "sform": rng.choice([0, 1, 2, 3, 4]), "qform": rng.choice([0, 0, 1, 2, 3, 4]),
            "tunits": rng.choice(["unknown", "unknown", "sec", "msec", "usec", "hz", "ppm", "rads"]),
            "sunits": rng.choice(["mm", "mm", "mm", "unknown", "meter", "micron"]),
            "pixdim": [rng.choice([0.0, 1.0, 2.0, 2.5, 0.5, 3.0]) for _ in range(max(0, nd - 3))],
            "toffset": rng.choice([0.0, 0.0, 42.0, -1.5]),
            "diminfo": rng.choice([[None, None, None]] * 3 + [[0, 1, 2], [2, 0, 1], [1, None, 0], [None, 2, None]])}


HDR_CLASSES = ["nifti1", "nifti1", "nifti1", "pair", "nifti2", "spm2", "spm99", "analyze"]
SEED_DTYPES = ["u1", "i2", "i4", "f4", "f8", "i1", "u2"]
VIAS = ["mem", "mem", ".nii", ".nii.gz", ".hdr", ".img", ".hdr.gz", ".img.gz"]


def make_seed_header(rng):
    """an arbitrary header from a previous life of the image: every geometry-bearing field away from its
    default (sform/qform + codes, pixdim incl. pixdim[4:8] beyond the dimensions, toffset, xyzt_units, dim_info),
    scaling, intent, descrip, slice timing, an extension, any storage dtype, any header class"""
    nd = rng.choice([3, 4, 4, 5, 6, 7])
    shape = [rng.choice([1, 2, 3, 5]) for _ in range(nd)]
    A, t = _spatial(rng, "mni", shape[:3])
    A2, t2 = _spatial(rng, "mni", shape[:3])
    return {"cls": rng.choice(HDR_CLASSES), "shape": shape, "dtype": rng.choice(SEED_DTYPES),
            "A": A.tolist(), "t": t.tolist(), "A2": A2.tolist(), "t2": t2.tolist(),
            "sform": rng.choice([0, 1, 2, 3, 4]), "qform": rng.choice([0, 1, 2, 3, 4]),
            "sunits": rng.choice(["unknown", "meter", "mm", "micron"]),
            "tunits": rng.choice(["unknown", "sec", "sec", "msec", "usec", "hz", "ppm", "rads"]),
            "diminfo": rng.choice([[None, None, None], [0, 1, 2], [2, 0, 1], [1, None, 0], [None, 2, None]]),
            "toffset": rng.choice([42.0, 42.0, -1.5, 0.25, 0.0, 1000.0]),
            "pixdim": [rng.choice([0.0, 1.0, 2.0, 2.5, 0.5, 3.0, 7.0]) for _ in range(4)],
            "slope": rng.choice([None, 2.0, 0.5]), "inter": rng.choice([None, 3.0, -1.0]),
            "intent": rng.choice([None, ["t test", [10.0], "tmap"], ["z score", [], ""], ["vector", [], "vec"]]),
            "descrip": rng.choice(["", "previous life", "x" * 40]),
            "slice": rng.choice([None, [0, 1, 1, 0.5], [1, 2, 3, 0.125]]),
            "cal": rng.choice([None, [7.0, -1.0]]), "ext": rng.random() < 0.3,
            "magic_pair": rng.random() < 0.1}


def _effective_dtype(dd, cur, data="f8"):
    """explicit dtype, else the carried header's, else the dtype of the image's array"""
    return dd if dd is not None else (cur if cur is not None else data)


def make_hist_case(rng, tier):
    """a history on one image object: [seed header] → save (memory or file) → load → edit → save → load …"""
    seed = make_seed_header(rng) if rng.random() < 0.7 else None
    nst = rng.choice([1, 2, 2, 3, 3, 4] if seed else [2, 2, 3, 3, 4])
    stages, d, cur = [], None, (seed["dtype"] if seed else None)
    for si in range(nst):
        last = si == nst - 1
        if d is None or rng.random() < 0.3:
            edit, d = "new", make_design(rng)
        else:
            edit, d = mutate_design(rng, d)
        via = rng.choice(VIAS)
        malformed = None
        if last and rng.random() < 0.15:
            malformed = rng.choice(["space-coupled", "nonspace-coupled", "world", "contradict", "unknown-incompatible"])
            via = "mem"
        dsg = d if malformed is None else make_design(rng, rng.choice([4, 5, 5, 6]), malformed)
        # `save` calls nipy2nifti with its defaults (non-strict, fix0)
        c = make_image_case(rng, malformed, design=dsg, fix0=(True if via != "mem" else rng.random() < 0.85))
        c.pop("kind"); c.pop("formats")
        size = int(np.prod(c["shape"]))
        if via == "mem":
            dd = rng.choice([None, None, None] + DTYPES)
            dtype_from = None
        else:
            c["strict"] = False
            dtype_from = rng.choice(["data", "data", "header", "header"] + DTYPES)
            dd = {"data": c["pres"]["dtype"], "header": None}.get(dtype_from, dtype_from)
        eff = _effective_dtype(dd, cur, c["pres"]["dtype"])
        lim = {"u1": 250, "i1": 120}.get(eff)
        if (lim and size > lim) or (via in (".img", ".img.gz") and eff not in DTYPES):
            dd = rng.choice(["i2", "f4", "f8"])
            if via != "mem":
                dtype_from = dd
            eff = dd
        if si == 0 and seed is not None and malformed is None and rng.random() < 0.3:
            # the seed header already has the shape of the image about to be written (nibabel then skips
            # set_data_shape and the unused pixdim tail is not reset)
            k_, tp = d["k"], d["tpos"]
            rest = [d["lens"][j] for j in range(k_) if j != tp]
            seed["shape"] = d["shape3"] + ([d["lens"][tp]] + rest if d["tl"] else ([1] + rest if k_ else []))
        c.update(via=via, dd=dd, dtype_from=dtype_from, edit=edit, eff_dtype=eff,
                 resave=(via not in (".img", ".img.gz") and malformed is None and rng.random() < 0.5))
        stages.append(c)
        cur = eff
    return {"kind": "hist", "seed": seed, "stages": stages}


def make_grid_cases(rng, tier):
    """every combination of strict, fix0, 3..7 dimensions, time-like kind (t, hz, ppm, rads or none), its position
    among the non-spatial axes, zero / non-zero TR and the side(s) it is named on"""
    combos = []
    for strict in (False, True):
        for fix0 in (False, True):
            combos.append((strict, fix0, 3, None, None, False, None))
            for k in (1, 2, 3, 4):
                if k < 4:
                    combos.append((strict, fix0, 3 + k, None, None, False, None))
                for tl in ("t", "hz", "ppm", "rads"):
                    for tpos in range(k):
                        for zero in (False, True):
                            for mode in ("both", "alias", "in", "out"):
                                combos.append((strict, fix0, 3 + k, tl, tpos, zero, mode))
    if tier == "quick":
        combos = rng.sample(combos, 320)
    out = []
    for strict, fix0, n, tl, tpos, zero, mode in combos:
        force = {"strict": strict, "tl": tl, "zero_tr": zero}
        if tl:
            force.update(tpos=tpos, mode=mode)
        c = make_image_case(rng, design=make_design(rng, n, force=force), fix0=fix0)
        c["grid"] = True
        out.append(c)
    return out


def make_misc_case(rng):
    kind = rng.choice(["ftype", "ftype", "f32", "worldcs", "knownspace", "knownspace", "mkxyz", "iodtype", "defhdr",
                       "affable", "affable", "asimage", "xyzspace"])
    if kind == "xyzspace":
        return {"kind": "misc", "what": kind, "a": rng.choice(SPACES + ["hijo", "foo"]),
                "b": rng.choice(SPACES + ["hijo", "foo"]), "extras": rng.choice(["", "t", "tuvw", "ab"]),
                "ndim": rng.choice([3, 4, 5])}
    if kind == "ftype":
        base = rng.choice(["im", "a.b", ".hidden", "dir.x/im", "dir/sub.d/x", "", "x.", "..y", "im.nii", "t.tar"])
        ext = rng.choice(["", ".nii", ".hdr", ".img", ".mnc", ".txt", ".NII", ".nii.gz", ".hdr.gz", ".img.gz",
                          ".nii.bz2", ".img.bz2", ".gz", ".bz2", ".mnc.gz", ".hdr.bz2", ".nii.zip", ".gz.gz"])
        return {"kind": "misc", "what": kind, "name": base + ext}
    if kind == "f32":
        vals = []
        for _ in range(8):
            m = rng.choice([rng.random(), rng.randrange(1, 2 ** 26) * 1.0, rng.choice([1 / 3, 0.1, 2.5, 1e-5, 1e-8])])
            vals.append(m * 2.0 ** rng.choice([-160, -140, -127, -30, -3, 0, 1, 10, 40, 100]) * rng.choice([1, -1]))
        vals.append((2 ** 24 + 1) * 2.0 ** rng.randrange(-20, 20))    # a tie
        vals.append((2 ** 24 + 3) * 2.0 ** rng.randrange(-20, 20))
        return {"kind": "misc", "what": kind, "vals": vals}
    if kind == "worldcs":
        return {"kind": "misc", "what": kind, "world": rng.choice(SPACES + ["foo", "MNI", ""]),
                "ndim": rng.choice([0, 1, 2, 3, 4, 5, 6, 7, 8, 9])}
    if kind == "knownspace":
        names = []
        for sp in rng.sample(SPACES + ["foo"], rng.choice([1, 1, 2])):
            names += space_names(sp)
        names += rng.sample(["t", "u", "x", "y", "z", "time"], rng.choice([0, 1, 2]))
        if rng.random() < 0.4 and names:
            names.pop(rng.randrange(len(names)))
        rng.shuffle(names)
        return {"kind": "misc", "what": kind, "names": names or ["q"]}
    if kind == "mkxyz":
        nd = rng.choice([2, 3, 4, 5, 6, 7, 8, 9])
        shape = [rng.choice([1, 2]) for _ in range(nd)]
        A, t = _spatial(rng, "mni", (shape + [1, 1, 1])[:3])
        zmode = rng.choice(["none", "tuple", "tuple", "scalar", "wrong"])
        k = max(nd - 3, 0)
        zooms = {"none": None, "tuple": [rng.choice([0.5, 2.0, 3.0]) for _ in range(k)],
                 "scalar": [rng.choice([2.0, 2.5])], "wrong": [1.0] * (k + 1)}[zmode]
        return {"kind": "misc", "what": kind, "shape": shape, "A": A.tolist(), "t": t.tolist(), "zmode": zmode,
                "zooms": zooms, "world": rng.choice(SPACES + ["foo"])}
    if kind == "iodtype":
        return {"kind": "misc", "what": kind, "dtype_from": rng.choice(["data", "header", "i2", "f4", "<f8", "uint8",
                                                                        "np.float32", "np.int16"]),
                "name": "im" + rng.choice([".nii", ".hdr", ".img", ".nii.gz", ".mnc", ".hdr.gz", ".xyz", ""])}
    if kind == "defhdr":
        return {"kind": "misc", "what": kind}
    if kind == "asimage":
        return {"kind": "misc", "what": kind, "arg": rng.choice(["image", "path", "int", "none", "array"]),
                "img": make_image_case(rng, n=rng.choice([3, 4]), design=None)}
    return {"kind": "misc", "what": "affable", "img": make_image_case(rng, rng.choice([None, None, "space-coupled", "world", "tiny"]),
                                                                      n=rng.choice([3, 4, 5, 6]))}


# ----------------------------------------------------------------------
# observation helpers
# ----------------------------------------------------------------------
def _names(l):
    return " ".join(l)


def _img_tokens(inn, outn, aff, shape):
    n = len(inn)
    return f"{n} {_names(inn)} {_names(outn)} {frs(np.asarray(aff).ravel().tolist())} {' '.join(map(str, shape))}"


class _Recorder:
    """records every io_orientation call made by the nipy code under test"""

    def __init__(self):
        import nipy.core.image.image_spaces as isp
        import nipy.core.reference.coordinate_map as cmap
        import nipy.core.reference.spaces as sp
        from nibabel.orientations import io_orientation
        self.mods = (isp, cmap, sp)
        self.orig = io_orientation
        self.calls = {}

    def __enter__(self):
        def rec(affine, tol=None):
            a = np.array(affine, dtype=float)
            res = self.orig(affine) if tol is None else self.orig(affine, tol)
            key = f"{a.shape[0]} {a.shape[1]} {frs(a.ravel().tolist())}"
            col = ["-" if np.isnan(v) else str(int(v)) for v in res[:, 0]]
            self.calls.setdefault(key, f"{len(col)} {' '.join(col)}" if col else "0")
            return res
        for m in self.mods:
            m.io_orientation = rec
        return self

    def __exit__(self, *a):
        for m in self.mods:
            m.io_orientation = self.orig

    def table(self):
        return f"{len(self.calls)} " + " ".join(f"{k} {v}" for k, v in self.calls.items()) if self.calls else "0"


def _hdr_obs(ni_img):
    hdr = ni_img.header
    su, tu = hdr.get_xyzt_units()
    return {"shape": list(ni_img.shape), "aff": np.asarray(ni_img.affine).ravel().tolist(),
            "sform": int(hdr["sform_code"]), "qform": int(hdr["qform_code"]),
            "pixdim": [float(z) for z in hdr.get_zooms()[3:]], "toffset": float(hdr["toffset"]),
            "sunits": su, "tunits": tu, "diminfo": list(hdr.get_dim_info())}


def _load_line(o):
    sh = o["shape"]
    d = " ".join("-" if v is None else str(int(v)) for v in o["diminfo"])
    pix = f"{len(o['pixdim'])} {frs(o['pixdim'])}".strip()
    return (f"load {len(sh)} {' '.join(map(str, sh))} {frs(o['aff'])} {o['sform']} {o['qform']} {pix} "
            f"{fr(o['toffset'])} {o['sunits']} {o['tunits']} {d}").replace("  ", " ")


def _img_obs(img):
    cm = img.coordmap
    return {"in": list(cm.function_domain.coord_names), "out": list(cm.function_range.coord_names),
            "aff": np.asarray(cm.affine).ravel().tolist(), "shape": list(img.shape)}


def _table(img, spec, mode):
    """(xyz position, time-like coordinate, extra coordinates) -> value, as a sorted list.

    mode 'orig': `spec` says which rows/columns are what; 'back': canonical layout of nifti2nipy."""
    aff = np.asarray(img.coordmap.affine, dtype=float)
    data = np.asarray(img.get_fdata())
    n = data.ndim
    idx = np.indices(data.shape).reshape(n, -1).T if data.size else np.zeros((0, n))
    world = idx @ aff[:n, :n].T + aff[:n, -1]
    if mode == "orig":
        xyz = world[:, spec["xyz_rows"]]
        tcol = world[:, [spec["time_row"]]] if spec["tl"] else np.zeros((len(idx), 0))
        ex_in = sorted(spec["extras"], key=lambda e: e[0])
        ex_out = sorted(spec["extras"], key=lambda e: e[1])
        keys = []
        for order in (ex_in, ex_out):
            ex = world[:, [e[1] for e in order]] if order else np.zeros((len(idx), 0))
            keys.append(np.hstack([xyz, tcol, ex]))
        return keys, data.ravel()
    xyz = world[:, :3]
    return [world], data.ravel()


def _same_tables(keys_a, vals_a, keys_b, vals_b, ktol, vtol):
    """multiset equality of (key, value) rows up to tolerances; returns None or a description"""
    if keys_a.shape != keys_b.shape:
        return f"table shapes {keys_a.shape} vs {keys_b.shape}"
    if keys_a.shape[0] == 0:
        return None
    scale = max(1.0, float(np.abs(keys_a).max()))

    def canon(k, v):
        # voxel values are distinct integers (arange): rows are matched through their value
        order = np.argsort(np.round(v), kind="stable")
        return k[order], v[order]
    ka, va = canon(keys_a, vals_a)
    kb, vb = canon(keys_b, vals_b)
    dk = np.abs(ka - kb)
    if dk.size and dk.max() > ktol * scale:
        i = int(np.argmax(dk.max(axis=1)))
        return f"position/coordinate row {ka[i].tolist()} became {kb[i].tolist()}"
    dv = np.abs(va - vb)
    if dv.size and dv.max() > vtol:
        i = int(np.argmax(dv))
        return f"value {va[i]} at {ka[i].tolist()} became {vb[i]}"
    return None


def _compare_images(orig, back, spec, ktol, vtol, what, only_xyz=False):
    ko, vo = _table(orig, spec, "orig")
    kb, vb = _table(back, spec, "back")
    kb = kb[0]
    if only_xyz:
        d = _same_tables(ko[0][:, :3], vo, kb[:, :3], vb, ktol, vtol)
        return None if d is None else f"{what}: {d}"
    if kb.shape[1] != ko[0].shape[1]:
        return f"{what}: {ko[0].shape[1]} coordinates (xyz, time-like, extras) became {kb.shape[1]}"
    ds = [_same_tables(k, vo, kb, vb, ktol, vtol) for k in ko]
    if any(d is None for d in ds):
        return None
    return f"{what}: {ds[0]}"


# ----------------------------------------------------------------------
# headers as state
# ----------------------------------------------------------------------
GEO_FIELDS = ["dim_info", "dim", "pixdim", "xyzt_units", "toffset", "qform_code", "sform_code", "quatern_b",
              "quatern_c", "quatern_d", "qoffset_x", "qoffset_y", "qoffset_z", "srow_x", "srow_y", "srow_z"]
MODELLED_FIELDS = GEO_FIELDS + ["datatype", "bitpix", "scl_slope", "scl_inter", "vox_offset", "magic", "sizeof_hdr"]


def _hdr_class(name):
    import nibabel as nib
    from nibabel import analyze, nifti1, nifti2, spm2analyze, spm99analyze
    return {"nifti1": nifti1.Nifti1Header, "pair": nifti1.Nifti1PairHeader, "nifti2": nifti2.Nifti2Header,
            "spm2": spm2analyze.Spm2AnalyzeHeader, "spm99": spm99analyze.Spm99AnalyzeHeader,
            "analyze": analyze.AnalyzeHeader}[name]


def build_seed_header(sd):
    import nibabel as nib
    h = _hdr_class(sd["cls"])()
    h.set_data_dtype(sd["dtype"] if sd["cls"] in ("nifti1", "pair", "nifti2") or sd["dtype"] in DTYPES else "i2")
    h.set_data_shape(sd["shape"])
    nd = len(sd["shape"])
    if "toffset" in h.keys():
        aff = np.eye(4); aff[:3, :3] = sd["A"]; aff[:3, 3] = sd["t"]
        aff2 = np.eye(4); aff2[:3, :3] = sd["A2"]; aff2[:3, 3] = sd["t2"]
        h.set_sform(aff, sd["sform"])
        h.set_qform(aff2, sd["qform"])
        h.set_xyzt_units(None if sd["sunits"] == "unknown" else sd["sunits"],
                         None if sd["tunits"] == "unknown" else sd["tunits"])
        h.set_dim_info(*sd["diminfo"])
        h["toffset"] = sd["toffset"]
        h["pixdim"][4:8] = sd["pixdim"]
        if sd["intent"]:
            h.set_intent(sd["intent"][0], tuple(sd["intent"][1]), name=sd["intent"][2])
        if sd["slice"]:
            h["slice_start"], h["slice_end"], h["slice_code"], h["slice_duration"] = sd["slice"]
        if sd["ext"] and sd["cls"] != "nifti2":
            h.extensions.append(nib.nifti1.Nifti1Extension("comment", b"kept from before"))
        if sd["magic_pair"] and sd["cls"] == "nifti1":
            h["magic"] = h.pair_magic
    else:
        h["pixdim"][4:8] = sd["pixdim"]
        if "origin" in h.keys():
            h["origin"][:3] = [3, 2, 1]
    if "scl_slope" in h.keys():
        h["scl_slope"] = np.nan if sd["slope"] is None else sd["slope"]
    if "scl_inter" in h.keys():
        h["scl_inter"] = np.nan if sd["inter"] is None else sd["inter"]
    h["descrip"] = sd["descrip"].encode()
    if sd["cal"]:
        h["cal_max"], h["cal_min"] = sd["cal"]
    return h


def _kept_tokens(hdr):
    toks = []
    for k in hdr.keys():
        if k not in MODELLED_FIELDS:
            toks.append(f"{k}={np.asarray(hdr[k]).tobytes().hex() or '-'}")
    ext = getattr(hdr, "extensions", [])
    toks.append("ext=" + (",".join(f"{e.get_code()}:{bytes(e.get_content()).hex()}" if isinstance(e.get_content(), (bytes, bytearray))
                                   else f"{e.get_code()}:{e.get_content()!r}".replace(" ", "_") for e in ext) or "-"))
    return toks


def _fnan(x):
    x = float(x)
    return "nan" if np.isnan(x) else fr(x)


def _dim_tok(v):
    return "-" if v is None else str(int(v))


def _raw_obs(hdr):
    """all fields of a Nifti1Header, as the model's `Raw`"""
    su, tu = hdr.get_xyzt_units()
    return {"shape": [int(x) for x in hdr.get_data_shape()], "pixdim": [float(x) for x in hdr["pixdim"]],
            "sform": int(hdr["sform_code"]), "qform": int(hdr["qform_code"]),
            "srow": [float(x) for k in ("srow_x", "srow_y", "srow_z") for x in hdr[k]],
            "quat": [float(hdr[k]) for k in ("quatern_b", "quatern_c", "quatern_d")],
            "qoffset": [float(hdr[k]) for k in ("qoffset_x", "qoffset_y", "qoffset_z")],
            "toffset": float(hdr["toffset"]), "sunits": su, "tunits": tu, "diminfo": list(hdr.get_dim_info()),
            "dtype": hdr.get_data_dtype().name, "slope": float(hdr["scl_slope"]), "inter": float(hdr["scl_inter"]),
            "vox": float(hdr["vox_offset"]), "kept": _kept_tokens(hdr)}


def _raw_tokens(o):
    sh = o["shape"]
    return (f"{len(sh)} {' '.join(map(str, sh))} {frs(o['pixdim'])} {o['sform']} {o['qform']} {frs(o['srow'])} "
            f"{frs(o['quat'])} {frs(o['qoffset'])} {fr(o['toffset'])} {o['sunits']} {o['tunits']} "
            f"{' '.join(_dim_tok(v) for v in o['diminfo'])} {o['dtype']} {_fnan(o['slope'])} {_fnan(o['inter'])} "
            f"{fr(o['vox'])} {len(o['kept'])} {' '.join(o['kept'])}").replace("  ", " ")


def _geo_bytes(hdr):
    """the geometry-bearing fields as stored (srow only when the sform code says it is used)"""
    out = {}
    for k in GEO_FIELDS:
        if k.startswith("srow") and int(hdr["sform_code"]) == 0:
            continue
        out[k] = np.asarray(hdr[k])
    nd = int(hdr["dim"][0])
    out["pixdim"] = out["pixdim"][:nd + 1]       # entries beyond the dimensions are unused by NIfTI (nibabel resets
    out["dim"] = out["dim"][:nd + 1]             # them only when the shape changes: modelled, not geometry)
    return out


def _geo_diff(h_with, h_without):
    a, b = _geo_bytes(h_with), _geo_bytes(h_without)
    for k in a:
        if k not in b or not np.array_equal(a[k], b[k], equal_nan=a[k].dtype.kind == "f"):
            return f"{k}={np.asarray(h_with[k]).tolist()} (without the previous header: {np.asarray(h_without[k]).tolist()})"
    return None


_SITES = None
SITE_TAGS = ["reorder", "spaceCoupled", "nonspaceCoupled", "world", "unknownAffine", "tooMany", "tooManyNoTime",
             "timeNoOutput", "tlBothUnmatched", "tlBothMismatch", "tlInMatchesOther", "tlOutMatchesOther", "lt3d"]


def _lean_str(s):
    return '"' + s.replace("\\", "\\\\").replace('"', '\\"').replace("\n", "\\n") + '"'


def parse_sources(repo):
    """the literal tables and the `raise NiftiError` sites of the anchored sources, from their text"""
    import ast
    from harness.core import TieBroken
    out = {}
    path = os.path.join(repo, "nipy/io/nifti_ref.py")
    try:
        tree = ast.parse(open(path).read())
    except Exception as e:
        raise TieBroken(f"nifti_ref.py does not parse: {e}")
    sites = []
    consts = {}
    for node in tree.body:
        if isinstance(node, ast.FunctionDef):
            for sub in ast.walk(node):
                if isinstance(sub, ast.Raise) and isinstance(sub.exc, ast.Call) and \
                        getattr(sub.exc.func, "id", None) == "NiftiError":
                    arg = sub.exc.args[0] if sub.exc.args else None
                    if isinstance(arg, ast.Constant):
                        msg = str(arg.value)
                    elif isinstance(arg, ast.JoinedStr) and arg.values and isinstance(arg.values[0], ast.Constant):
                        msg = str(arg.values[0].value)
                    else:
                        raise TieBroken(f"nifti_ref.py:{sub.lineno}: NiftiError message is not a literal")
                    sites.append((node.name, msg, sub.lineno, sub.end_lineno))
        elif isinstance(node, ast.Assign) and len(node.targets) == 1 and isinstance(node.targets[0], ast.Name):
            consts[node.targets[0].id] = node.value
    sites.sort(key=lambda t: t[2])
    out["sites"] = sites
    try:
        out["xform2space"] = [k.value for k in consts["XFORM2SPACE"].keys]
        tla = ast.literal_eval(consts["TIME_LIKE_AXES"])
        out["time_like_axes"] = [(k, list(v["aliases"]), v["units"]) for k, v in tla.items()]
        out["time_like_ordered"] = list(ast.literal_eval(consts["TIME_LIKE_ORDERED"]))
        units = consts["TIME_LIKE_UNITS"]
        tlu = []
        for k, v in zip(units.keys, units.values):
            dd = dict(zip([kk.value for kk in v.keys], v.values))
            tlu.append((k.value, dd["name"].value, float(eval(compile(ast.Expression(dd["scaling"]), "<scaling>", "eval")))))
        out["time_like_units"] = tlu
        out["tiny"] = float(ast.literal_eval(consts["TINY"]))
    except TieBroken:
        raise
    except Exception as e:
        raise TieBroken(f"nifti_ref.py: a constant table has an unexpected shape ({type(e).__name__}: {e})")
    # spaces.py
    try:
        tree = ast.parse(open(os.path.join(repo, "nipy/core/reference/spaces.py")).read())
        cls = next(n for n in tree.body if isinstance(n, ast.ClassDef) and n.name == "XYZSpace")
        suf = {}
        for st in cls.body:
            if isinstance(st, ast.Assign) and isinstance(st.targets[0], ast.Name) and st.targets[0].id.endswith("_suffix"):
                suf[st.targets[0].id[0]] = st.value.value
        out["suffixes"] = [suf["x"], suf["y"], suf["z"]]
        loop = next(n for n in tree.body if isinstance(n, ast.For) and getattr(n.target, "id", "") == "_name")
        out["spaces"] = list(ast.literal_eval(loop.iter))
        extras = None
        for st in ast.walk(loop):
            if isinstance(st, ast.Call) and getattr(st.func, "attr", "") == "to_coordsys_maker":
                extras = st.args[0].value
        vox = next(n for n in tree.body if isinstance(n, ast.Assign) and getattr(n.targets[0], "id", "") == "voxel_csm")
        out["extras"] = extras
        out["voxels"] = vox.value.args[0].value
        for prop in "xyz":
            fn = next(n for n in cls.body if isinstance(n, ast.FunctionDef) and n.name == prop)
            ret = next(n for n in ast.walk(fn) if isinstance(n, ast.Return))
            if ast.unparse(ret.value) != "f'{self.name}-{self.%s_suffix}'" % prop:
                raise TieBroken(f"XYZSpace.{prop} is no longer name-suffix")
    except TieBroken:
        raise
    except Exception as e:
        raise TieBroken(f"spaces.py: known-space tables have an unexpected shape ({type(e).__name__}: {e})")
    # files.py: the extension table of _type_from_filename
    try:
        tree = ast.parse(open(os.path.join(repo, "nipy/io/files.py")).read())
        fn = next(n for n in tree.body if isinstance(n, ast.FunctionDef) and n.name == "_type_from_filename")
        table = []
        for st in fn.body:
            if isinstance(st, ast.If) and isinstance(st.test, ast.Compare) and getattr(st.test.left, "id", "") == "ext" \
                    and isinstance(st.body[0], ast.Return):
                cmpv = ast.literal_eval(st.test.comparators[0])
                for e in (cmpv if isinstance(cmpv, tuple) else (cmpv,)):
                    table.append((e, st.body[0].value.value))
        out["filetypes"] = table
        comp = [ast.unparse(st.test) for st in fn.body if isinstance(st, ast.If) and "endswith" in ast.unparse(st.test)]
        out["compressed"] = [ast.unparse(t) for st in fn.body if isinstance(st, ast.If) and "endswith" in ast.unparse(st.test)
                             for t in [st.test] + ([st.orelse[0].test] if st.orelse and isinstance(st.orelse[0], ast.If) else [])]
    except Exception as e:
        raise TieBroken(f"files.py: _type_from_filename has an unexpected shape ({type(e).__name__}: {e})")
    # file level (wave 3): the tests and scalings of nifti2nipy, the if-chains of files.load / files.save, as text
    try:
        def chain(fn, pred):
            res = []
            for st in fn.body:
                if isinstance(st, ast.If) and pred(ast.unparse(st.test)):
                    cur = st
                    while True:
                        res.append((ast.unparse(cur.test), ast.unparse(cur.body[-1])))
                        if cur.orelse and isinstance(cur.orelse[0], ast.If) and len(cur.orelse) == 1:
                            cur = cur.orelse[0]
                        else:
                            if cur.orelse:
                                res.append(("else", ast.unparse(cur.orelse[-1])))
                            break
            return res
        ftree = ast.parse(open(os.path.join(repo, "nipy/io/files.py")).read())
        fload = next(n for n in ftree.body if isinstance(n, ast.FunctionDef) and n.name == "load")
        fsave = next(n for n in ftree.body if isinstance(n, ast.FunctionDef) and n.name == "save")
        out["load_chain"] = chain(fload, lambda t: True)
        out["save_dtype_chain"] = chain(fsave, lambda t: "dtype_from" in t)
        out["save_dispatch_chain"] = [(t, b if "raise" not in b else "raise ValueError")
                                      for t, b in chain(fsave, lambda t: "ftype" in t)]
        ntree = ast.parse(open(path).read())
        n2n = next(n for n in ntree.body if isinstance(n, ast.FunctionDef) and n.name == "nifti2nipy")
        ifs = sorted((n for n in ast.walk(n2n) if isinstance(n, ast.If)), key=lambda n: (n.lineno, n.col_offset))
        out["n2n_tests"] = [ast.unparse(n.test) for n in ifs]
        asg = sorted((n for n in ast.walk(n2n) if isinstance(n, (ast.Assign, ast.AugAssign))
                      and any(k in ast.unparse(n) for k in ("toffset", "scaling", "affine[:3]"))),
                     key=lambda n: (n.lineno, n.col_offset))
        out["n2n_scalings"] = [ast.unparse(n) for n in asg]
    except Exception as e:
        raise TieBroken(f"files.py / nifti_ref.py: load / save / nifti2nipy have an unexpected shape ({type(e).__name__}: {e})")
    return out


def _rat_lit(x):
    f = frac(x)
    return f"(({f.numerator} : Rat) / {f.denominator})"


def _site_of(exc):
    """index of the `raise NiftiError` statement an exception came from → site tag"""
    global _SITES
    import nipy.io.nifti_ref as nr
    if _SITES is None:
        repo = os.path.dirname(os.path.dirname(os.path.dirname(os.path.abspath(nr.__file__))))
        _SITES = parse_sources(repo)["sites"]
    tb, line = exc.__traceback__, None
    while tb is not None:
        if tb.tb_frame.f_code.co_filename == nr.__file__.replace(".pyc", ".py"):
            line = tb.tb_lineno
        tb = tb.tb_next
    for k, (_, _, lo, hi) in enumerate(_SITES):
        if line is not None and lo <= line <= hi:
            return SITE_TAGS[k] if k < len(SITE_TAGS) else f"site{k}"
    return "unknown-site"


def _err_obs(e):
    n = errname(e)
    if n == "error:niftiError":
        n += " " + _site_of(e)
    return ("err", n, f"{type(e).__name__}: {e}")


# ----------------------------------------------------------------------
class C03(PropertyCheck):
    id = "C03"
    title = "NIfTI save/load round trip preserves data and geometry, or refuses"
    lean_modules = ["NipyVerif.Props.C03", "NipyVerif.Props.C03H", "NipyVerif.Props.C03F"]
    driver = "Drivers/C03.lean"
    rule = ("cases are (a) images (3..8-D, invertible dyadic spatial affine with flips/rotations/shears, any "
            "permutation of input axes and output coordinates, five spaces, time-like kind t/hz/ppm/rads or none "
            "named on the input, the output or both, zero/non-zero TR, time offset, positive extra scalings, "
            "strict on/off, fix0 on/off, dtype, file formats) from a seeded PRNG, ~25 % malformed (coupled axes, foreign "
            "world, too many dimensions, contradictory time-like names, ...); (b) HISTORIES on one image object: an "
            "optional seed header of any class (Nifti1 / Nifti1Pair / Nifti2 / Spm2 / Spm99 / Analyze) with every "
            "geometry field off its default (toffset, xyzt_units, dim_info, pixdim[0:8], sform/qform + codes, scaling, "
            "intent, slice timing, extension, dtype, extra dims), then 1-4 stages save (memory, .nii, .nii.gz, .hdr, "
            ".hdr.gz, .img, .img.gz; data_dtype / dtype_from = data / header / explicit) -> load -> edit (time origin "
            "reset or changed, TR changed, time axis dropped / added / retyped, space renamed, coordmap reset, axes "
            "added / dropped / resized / renamed / permuted, or a fresh image) -> save ..., each stage also converted "
            "without its header, half of them saved a second time unchanged; (c) the grid strict x fix0 x 3..7 D x "
            "time-like kind x position x zero TR x naming side (all 1 616 in thorough, 320 sampled in quick); (d) raw "
            "NIfTI headers for nifti2nipy, name/affine configurations for _find_time_like; (e) files.py / spaces.py / "
            "image_spaces.py units (_type_from_filename + save dispatch, io_dtype, get_world_cs, known_space, XYZSpace, "
            "make_xyz_image, is_xyz_affable / as_xyz_image, as_image, float32 rounding, default header); (f) INCOMING "
            "FILES written with nibabel alone: sform only / qform only (signed permutations, the (1/2,1/2,1/2) quaternion, "
            "oblique rotations) / both and different / both equal / neither, every code, mm / meter / micron / unknown, "
            "sec / msec / usec / hz / ppm / rads / unknown, toffset, dim_info, pixdim[4:8] incl. a zero time step, intent, "
            "scl_slope / scl_inter set (dyadic and non-dyadic, negative, slope 0) on u1 i1 i2 u2 i4 u4 i8 f4 f8 storage, "
            "little / big endian, .nii / .nii.gz / .hdr+.img / gzipped pair / NIfTI-2, 3..7-D with length-1 4th axes with "
            "and without time units, the .mnc guard; then 0-3 stages save_image(dtype_from = data / header / dtype, "
            ".nii / .nii.gz / .hdr / .hdr.gz / .img / .img.gz) -> load_image on the loaded object, some saved once "
            "more; (g) every image / history case builds its array in one of 11 dtypes (f8 f4 i2 u1 i4 i1 u2 i8 u4, "
            "big-endian) and 9 memory layouts (C, Fortran, transposed view, negative strides, strided view of a "
            "larger buffer, read-only, memory-mapped file) holding the same numbers.  Non-trivial = "
            "more than 3 dimensions or a non-identity permutation or a refusal or a history or a file; distinct by full JSON")
    assumptions = [
        "nibabel.io_orientation (SVD / polar decomposition) is a parameter of the model: the orientations the "
        "implementation computed are passed to the model as a table, theorems quantify over every orientation function",
        "np.sqrt for column norms is a parameter `sq` with sq(x*x)=x for x>=0 (exact on the dyadic inputs generated)",
        "the incoming header reaches the model as the fields of nibabel's Nifti1Header.from_header(in_hdr) (nibabel's "
        "conversion between header classes is not modelled); the quaternion written by set_qform is a parameter "
        "(`quatOf`): not compared with the model, compared with the quaternion of the header-free conversion",
        "float32 header storage is the parameter `rnd` (theorems: any function; storage idempotence under "
        "rnd(rnd x) = rnd x); the driver uses an exact round-to-nearest-even binary32 `rnd32`, itself checked against "
        "np.float32 (`f32` lines); the 'unknown'-space allclose test is modelled on unrounded zooms (rtol 1e-5 >> 2^-24)",
        "Nifti1Image.update_header rewrites sform/qform only when the header's best affine is not allclose to the image "
        "affine; nipy2nifti has just written that affine (codes are compared on every case)",
        "file level (Model/C03F): the fields of the header on disk reach the model as nibabel's accessors of "
        "Nifti1Header.from_header(nib.load(f).header) return them (byte order, gzip, the header / data pair and the "
        "NIfTI-2 -> NIfTI-1 field conversion are nibabel's; the packed dim_info / xyzt_units bytes are compared with the "
        "model's packing on every file); the affine nibabel reads is modelled exactly (sform rows / qform from the "
        "stored quaternion with fillpositive's threshold / base affine), its square root is the parameter `sq` "
        "(ratSqrt, 1e-15 relative, in the driver; theorems need sq w2 * sq w2 = w2 on the header at hand)",
        "data values: reading is modelled exactly (get_slope_inter + apply_read_scaling in binary64: loaded = "
        "rnd64(rnd64(stored*slope)+inter), compared bit for bit); WRITING float data into an integer dtype (nibabel's "
        "choice of scl_slope / scl_inter and its quantisation) stays a parameter: the oracle bounds the loaded value by "
        "half a quantisation step of the file just written plus the binary32 precision of scl_slope / scl_inter",
        "np.float32 * python-float (NumPy >= 2 'weak scalar' promotion) makes nifti2nipy scale a msec / usec time "
        "step in binary32 (rnd32(z * rnd32(scaling))): modelled as written (`secView`); toffset is NOT scaled by the "
        "time units by nifti2nipy (a file in msec with toffset 42 loads with origin 42 s): modelled as written, "
        "outside the property (which starts from a nipy image), excluded from the file -> file oracle clause",
        "the storage dtypes NIfTI-1 / SPM-Analyze hold are nibabel's tables (`niftiDtypes`, `analyzeDtypes`), checked "
        "by the `dhist` lines; Analyze has no intercept, so nibabel refuses negative values into unsigned storage "
        "(WriterError): tagged, not a finding",
        "the quantifier's 'offset on the time axis only' is read as an offset on a 't' axis: offsets on hz/ppm/rads "
        "or plain axes (which nifti_ref documents and tests as not stored) are correspondence-only",
        "couplings below the acceptance thresholds of the code (1e-8 space/non-space, 1e-5 among non-space axes) are "
        "accepted and dropped; the theorems state exact preservation for exactly block-structured affines and "
        "that acceptance implies the couplings are below those thresholds",
    ]
    level_note = ("in-memory conversion for every incoming header, the affine / pixdim / toffset a NIfTI file keeps (as an "
                  "error bound: at most 2^-24 relative per entry, the driver's binary32 rounding proved to be that), the "
                  "affine read from any incoming header (sform / qform-from-quaternion / base, orthogonality of the "
                  "quaternion rotation, zooms of a qform-only file), load on any header (total for >= 3-D, space named by "
                  "the code of the transform in force, ignores intent / dtype / scaling), dim_info / xyzt_units packing, "
                  "data scaling on read (exact in binary64), the storage dtype along load / save histories (dtype_from "
                  "policies, Analyze refusals) and the file-type dispatch of save proved on the model; byte order, gzip, "
                  "header-class conversion, Analyze origin / .mat handling and the quantisation nibabel applies when "
                  "WRITING float data into integer storage are correspondence + oracle only")

    # ------------------------------------------------------------------
    def generate(self, rng, tier):
        n_img, n_bad, n_ftl, n_raw = (1200, 440, 400, 300) if tier == "quick" else (5000, 1800, 1500, 1000)
        cases = []
        for _ in range(n_img):
            cases.append(make_image_case(rng))
        for i in range(n_bad):
            m = MALFORMED[i % len(MALFORMED)]
            if m == "toomany":
                cases.append(make_image_case(rng, m, n=rng.choice([7, 8])))
            else:
                cases.append(make_image_case(rng, m, n=rng.choice([4, 5, 5, 6])))
        for _ in range(n_ftl):
            cases.append(make_ftl_case(rng))
        for _ in range(n_raw):
            cases.append(make_raw_case(rng))
        n_hist, n_misc = (1100, 320) if tier == "quick" else (9000, 2500)
        for _ in range(n_hist):
            cases.append(make_hist_case(rng, tier))
        cases.extend(make_grid_cases(rng, tier))
        for _ in range(n_misc):
            cases.append(make_misc_case(rng))
        for _ in range(600 if tier == "quick" else 5000):
            cases.append(F.make_infile_case(rng, tier))
        if tier == "thorough":
            # every permutation of input axes and of output coordinates of a 4-D and (sampled) 5-D image
            for n in (4, 5):
                perms = list(itertools.permutations(range(n)))
                pairs = [(a, b) for a in perms for b in perms]
                if n == 5:
                    pairs = rng.sample(pairs, 1500)
                for a, b in pairs:
                    cases.append(self._perm_case(rng, n, list(a), list(b)))
        return cases

    def _perm_case(self, rng, n, pin, pout):
        k = n - 3
        tl = rng.choice(["t", "hz", None]) if k else None
        names_t = {"t": "t", "hz": "hz", None: "l"}[tl]
        inn = ["i", "j", "k", names_t, "m"][:n]
        outn = space_names("mni") + [names_t if tl else "u", "v"][:k]
        aff = np.eye(n + 1)
        aff[:3, :3] = np.array([[2.0, 0.5, 0], [0, -3.0, 0], [0, 0, 4.0]])
        aff[:3, -1] = [10.0, -20.0, 5.0]
        sc = [2.5, 1.5]
        for j in range(k):
            aff[3 + j, 3 + j] = sc[j]
        if tl == "t":
            aff[3, -1] = 14.0
        shape = [2, 3, 2, 3, 2][:n]
        aff2 = np.eye(n + 1)
        aff2[:n, :] = aff[pout, :]
        aff2[:, :n] = aff2[:, pin]
        outn2 = [outn[r] for r in pout]
        spec = {"space": "mni", "tl": tl, "expect": "ok", "note": [],
                "xyz_rows": [pout.index(r) for r in range(3)],
                "time_row": pout.index(3) if tl else None, "time_col": pin.index(3) if tl else None,
                "extras": [[pin.index(3 + j), pout.index(3 + j)] for j in range(k) if not (tl and j == 0)],
                "plain_xyz": False}
        return {"kind": "img", "strict": True, "fix0": True, "in": [inn[c] for c in pin], "out": outn2,
                "aff": aff2.tolist(), "shape": [shape[c] for c in pin], "dtype": "f8", "formats": [],
                "spec": spec, "malformed": None}

    # ------------------------------------------------------------------
    def run_case(self, case):
        import logging
        warnings.filterwarnings("ignore")
        logging.getLogger("nibabel.global").setLevel(logging.CRITICAL)
        self._mmtmp = None
        try:
            return getattr(self, "_run_" + case["kind"])(case)
        finally:
            if self._mmtmp:
                shutil.rmtree(self._mmtmp, ignore_errors=True)
                self._mmtmp = None

    def _mk(self, case, hdr=None, tmpdir=None):
        """the image of a case; its array holds 0..N-1 in the dtype / memory layout `case['pres']` asks for"""
        from nipy.core.api import AffineTransform, CoordinateSystem, Image
        shape = case["shape"]
        if (case.get("pres") or {}).get("layout") == "mm" and tmpdir is None:
            if getattr(self, "_mmtmp", None) is None:
                self._mmtmp = tempfile.mkdtemp(prefix="c03m-")
            tmpdir = self._mmtmp
        data = F.present(shape, case.get("pres"), tmpdir)
        cmap = AffineTransform(CoordinateSystem(case["in"], "voxels"), CoordinateSystem(case["out"], "world"),
                               np.array(case["aff"]))
        return Image(data, cmap, None if hdr is None else {"header": hdr}), data

    # ------------------------------------------------------------------
    def translators(self):
        from harness.core import REPO, TieBroken
        t = parse_sources(os.environ.get("NIPY_VERIF_REPO", REPO))
        if len(t["sites"]) != len(SITE_TAGS):
            # still generate the file: the theorem `raise_sites_modelled` then fails to build
            pass
        L = ["/- GENERATED by harness/props/C03.py::translators from the text of nipy/io/nifti_ref.py,",
             "   nipy/core/reference/spaces.py and nipy/io/files.py.  Do not edit. -/",
             "namespace NipyVerif.C03.Gen", ""]
        L.append("/-- every `raise NiftiError(...)` of nifti_ref.py in source order: (function, leading literal of the message) -/")
        L.append("def raiseSites : List (String × String) :=\n  [" +
                 ",\n   ".join(f"({_lean_str(fn)}, {_lean_str(msg)})" for fn, msg, _, _ in t["sites"]) + "]")
        L.append("def xform2space : List String := [" + ", ".join(map(_lean_str, t["xform2space"])) + "]")
        L.append("def timeLikeAxes : List (String × List String × String) := [" + ", ".join(
            f"({_lean_str(a)}, [{', '.join(map(_lean_str, al))}], {_lean_str(u)})" for a, al, u in t["time_like_axes"]) + "]")
        L.append("def timeLikeOrdered : List String := [" + ", ".join(map(_lean_str, t["time_like_ordered"])) + "]")
        L.append("def timeLikeUnits : List (String × String × Rat) := [" + ", ".join(
            f"({_lean_str(u)}, {_lean_str(nm)}, {_rat_lit(sc)})" for u, nm, sc in t["time_like_units"]) + "]")
        L.append(f"def tiny : Rat := {_rat_lit(t['tiny'])}")
        L.append("def spaceNames : List String := [" + ", ".join(map(_lean_str, t["spaces"])) + "]")
        L.append("def suffixes : List String := [" + ", ".join(map(_lean_str, t["suffixes"])) + "]")
        L.append(f"def worldExtras : String := {_lean_str(t['extras'])}")
        L.append(f"def voxelNames : String := {_lean_str(t['voxels'])}")
        L.append("def fileTypes : List (String × String) := [" + ", ".join(
            f"({_lean_str(e)}, {_lean_str(ty)})" for e, ty in t["filetypes"]) + "]")
        L.append("def compressedTests : List String := [" + ", ".join(map(_lean_str, t["compressed"])) + "]")
        pairs = lambda l: "[" + ",\n   ".join(f"({_lean_str(a)}, {_lean_str(b)})" for a, b in l) + "]"
        L.append("/-- files.load: its `if` statements as (test, last statement of the branch) -/")
        L.append("def loadChain : List (String × String) :=\n  " + pairs(t["load_chain"]))
        L.append("/-- files.save: the `dtype_from` chain and the file-type dispatch chain -/")
        L.append("def saveDtypeChain : List (String × String) :=\n  " + pairs(t["save_dtype_chain"]))
        L.append("def saveDispatchChain : List (String × String) :=\n  " + pairs(t["save_dispatch_chain"]))
        L.append("/-- nifti2nipy: every `if` test in source order; the assignments that scale the affine / time step / origin -/")
        L.append("def n2nTests : List String :=\n  [" + ",\n   ".join(map(_lean_str, t["n2n_tests"])) + "]")
        L.append("def n2nScalings : List String := [" + ", ".join(map(_lean_str, t["n2n_scalings"])) + "]")
        L += ["", "end NipyVerif.C03.Gen", ""]
        return [("NipyVerif/Gen/C03Tables.lean", "\n".join(L))]

    def _run_img(self, c):
        from nipy.io import nifti_ref as nr
        spec = c["spec"]
        img, data = self._mk(c)
        aff_before = np.array(c["aff"]).tobytes()
        tags = ["img", f"ndim={len(c['shape'])}", "expect=" + spec["expect"]]
        if c["malformed"]:
            tags.append("malformed=" + c["malformed"])
        head = f"{int(c['strict'])} {int(c['fix0'])} {_img_tokens(c['in'], c['out'], c['aff'], c['shape'])}"
        lines, impl = [], []
        fail = None
        with _Recorder() as rec:
            try:
                ni = nr.nipy2nifti(img, data_dtype=c["dtype"], strict=c["strict"], fix0=c["fix0"])
                out = ("hdr", _hdr_obs(ni), np.asarray(ni.get_fdata()).ravel().tolist())
            except Exception as e:   # NiftiError is a refusal; anything else is observed too
                ni, out = None, _err_obs(e)
        table = rec.table()
        lines.append(f"save {head} {table}")
        impl.append(out)
        mut = None
        if np.asarray(img.coordmap.affine).tobytes() != aff_before or \
                not np.array_equal(img.get_fdata(), np.arange(data.size, dtype=float).reshape(c["shape"])):
            mut = "nipy2nifti:img"
        if any(v.split().count("-") >= 2 for v in rec.calls.values()):
            # two input axes without a matching output (two zero scalings, outside the quantifier):
            # as_xyz_image orders them with np.argsort on equal keys, whose tie order NumPy does not
            # define; the model (stable order) is not compared on these.
            tags.append("argsort-tie-not-compared")
            return {"lines": [], "impl": [], "oracle": None, "nontrivial": False, "tags": tags, "mutated": mut}
        if ni is None:
            tags.append("refused" if out[1].startswith("error:niftiError") else "raised-" + out[1])
            if out[1].startswith("error:niftiError"):
                tags.append("site=" + out[1].split()[-1])
            if spec["expect"] in ("ok", "ok-approx"):
                fail = (f"nipy2nifti raised {out[2]} for an image whose geometry NIfTI can express "
                        f"(in={c['in']} out={c['out']} shape={c['shape']})")
            return {"lines": lines, "impl": impl, "oracle": fail, "nontrivial": True, "tags": tags, "mutated": mut}
        tags.append("written")
        if spec["expect"] == "refuse":
            fail = (f"nipy2nifti wrote an image whose geometry NIfTI cannot express ({c['malformed']}: "
                    f"in={c['in']} out={c['out']}) instead of raising NiftiError")
        # load side: model answers from the implementation's own header
        try:
            back = nr.nifti2nipy(ni)
            lines.append(_load_line(out[1]))
            impl.append(("img", _img_obs(back), np.asarray(back.get_fdata()).ravel().tolist()))
        except Exception as e:
            back = None
            lines.append(_load_line(out[1]))
            impl.append(_err_obs(e))
            fail = fail or f"nifti2nipy raised {type(e).__name__}: {e} on the image nipy2nifti produced"
        if fail is None and back is not None and spec["expect"] in ("ok", "ok-approx"):
            ktol = 1e-9 if spec["expect"] == "ok" and spec["space"] != "unknown" else 1e-4
            fail = _compare_images(img, back, spec, ktol, 0.0, "in-memory round trip")
            if fail is None and not spec["plain_xyz"]:
                want = space_names(spec["space"])
                got = list(back.coordmap.function_range.coord_names[:3])
                if got != want:
                    fail = f"in-memory round trip: space {want} became {got}"
            if fail is None and spec["tl"]:
                got = back.coordmap.function_range.coord_names[3]
                if got != spec["tl"]:
                    fail = f"in-memory round trip: time-like axis '{spec['tl']}' became '{got}'"
            if fail is None and not spec["tl"] and len(c["shape"]) > 3:
                got = back.coordmap.function_range.coord_names[3]
                if got in ("t", "hz", "ppm", "rads"):
                    fail = f"in-memory round trip: an image without time-like axis got axis '{got}'"
        if fail is None and c["formats"] and spec["expect"] == "ok":
            fail = self._files(c, img, spec, tags)
        nontrivial = len(c["shape"]) > 3 or c["in"][:3] != ["i", "j", "k"] or spec["xyz_rows"] != [0, 1, 2]
        return {"lines": lines, "impl": impl, "oracle": fail, "nontrivial": nontrivial, "tags": tags, "mutated": mut}

    def _files(self, c, img, spec, tags):
        from nipy.io.api import load_image, save_image
        tmp = tempfile.mkdtemp(prefix="c03-")
        try:
            data = np.asarray(img.get_fdata())
            rng_ = float(data.max() - data.min()) if data.size else 0.0
            dt = np.dtype(c["dtype"])
            vtol = 1e-6 * max(1.0, rng_) if dt.kind == "f" else max(rng_ / (2.0 ** (8 * dt.itemsize) - 2), 0) + 1e-6
            if dt.kind in "iu" and data.dtype.kind == "f" and data.size:
                # scl_slope / scl_inter are binary32 fields, and nibabel scales float32 data in binary32
                vtol += 2.0 ** -21 * float(np.abs(data).max())
            for ext in c["formats"]:
                p = os.path.join(tmp, "im" + ext)
                try:
                    save_image(img, p, dtype_from=c["dtype"])
                    back = load_image(p)
                    _ = back.get_fdata()
                except Exception as e:
                    return (f"save/load through {ext} ({c['dtype']}) raised {type(e).__name__}: "
                            + str(e).replace(tmp, "<tmp>"))
                tags.append("file" + ext)
                d = _compare_images(img, back, spec, 1e-5, vtol, f"round trip through {ext} ({c['dtype']})",
                                    only_xyz=(ext == ".img"))
                if d is None and ext != ".img" and not spec["plain_xyz"]:
                    got = list(back.coordmap.function_range.coord_names[:3])
                    if got != space_names(spec["space"]):
                        d = f"round trip through {ext}: space {space_names(spec['space'])} became {got}"
                if d is None and ext != ".img" and spec["tl"] and \
                        back.coordmap.function_range.coord_names[3] != spec["tl"]:
                    d = (f"round trip through {ext}: time-like axis '{spec['tl']}' became "
                         f"'{back.coordmap.function_range.coord_names[3]}'")
                if d:
                    return d
            # dtype_from='data' (the default): the file holds the array's own dtype; integer arrays come back exactly
            ext = c["formats"][0]
            ddt = data.dtype.newbyteorder("=")
            if ext != ".img" or ddt.name in F.ANALYZE_OK:
                import nibabel as nib
                p = os.path.join(tmp, "dd" + ext)
                try:
                    save_image(img, p)
                    back = load_image(p)
                    disk = nib.load(p).header.get_data_dtype().newbyteorder("=")
                except Exception as e:
                    return (f"save/load through {ext} with dtype_from='data' ({ddt.name} array, {c['pres']['layout']} layout) raised "
                            f"{type(e).__name__}: " + str(e).replace(tmp, "<tmp>"))
                tags.append("file-data-policy")
                if disk != ddt:
                    return f"save_image(dtype_from='data') of a {ddt.name} array wrote {disk.name} to {ext}"
                d = _compare_images(img, back, spec, 1e-5, 0.0 if ddt.kind in "iu" or ddt.itemsize == 8 else 1e-6 * max(1.0, rng_),
                                    f"round trip through {ext} with dtype_from='data' ({ddt.name})", only_xyz=(ext == ".img"))
                if d:
                    return d
            return None
        finally:
            shutil.rmtree(tmp, ignore_errors=True)

    # ------------------------------------------------------------------
    def _saveh_line(self, st, table, dd, has_hdr, start_obs, data_dtype="float64"):
        head = f"{int(st['strict'])} {int(st['fix0'])} {_img_tokens(st['in'], st['out'], st['aff'], st['shape'])}"
        return (f"saveh {head} {table} {'-' if dd is None else np.dtype(dd).name} {int(has_hdr)} {data_dtype} "
                f"{_raw_tokens(start_obs)}")

    def _run_hist(self, c):
        import nibabel as nib
        from nipy.io import nifti_ref as nr
        from nipy.io.api import as_image, load_image, save_image
        lines, impl, tags, fail, mut, leak = [], [], ["hist", f"hist-stages={len(c['stages'])}"], None, None, None
        hdr = build_seed_header(c["seed"]) if c["seed"] else None
        if c["seed"]:
            tags.append("seed-" + c["seed"]["cls"])
        tmp = None
        try:
            for si, st in enumerate(c["stages"]):
                spec = st["spec"]
                img, data = self._mk(st, hdr)
                tags += [f"stage-via={st['via']}", "edit=" + st["edit"], "carried-header" if hdr is not None else "no-header"]
                hdr_before = None if hdr is None else (hdr.binaryblock, [bytes(e.get_content()) if isinstance(e.get_content(), (bytes, bytearray)) else repr(e.get_content()) for e in getattr(hdr, "extensions", [])])
                start = nib.Nifti1Header.from_header(hdr)
                start_obs = _raw_obs(start)
                with _Recorder() as rec:
                    try:
                        ni = nr.nipy2nifti(img, data_dtype=st["dd"], strict=st["strict"], fix0=st["fix0"])
                        out = ("rawhdr", _raw_obs(ni.header), np.asarray(ni.affine).ravel().tolist(),
                               np.asarray(ni.get_fdata()).ravel().tolist(), st, "mem")
                    except Exception as e:
                        ni, out = None, _err_obs(e)
                if any(v.split().count("-") >= 2 for v in rec.calls.values()):
                    tags.append("argsort-tie-not-compared")
                    break
                if ni is not None and any(float(v) != 1.0 for v in ni.header["pixdim"][len(ni.shape) + 1:]):
                    tags.append("stale-unused-pixdim-tail")
                line = self._saveh_line(st, rec.table(), st["dd"], hdr is not None, start_obs, data.dtype.name)
                lines.append(line); impl.append(out)
                if hdr is not None and hdr_before != (hdr.binaryblock, [bytes(e.get_content()) if isinstance(e.get_content(), (bytes, bytearray)) else repr(e.get_content()) for e in getattr(hdr, "extensions", [])]):
                    mut = "nipy2nifti:metadata-header"
                # --- the same image without its previous header: geometry must not depend on it
                if hdr is not None:
                    img0, _ = self._mk(st, None)
                    try:
                        ni0 = nr.nipy2nifti(img0, data_dtype=st["dd"], strict=st["strict"], fix0=st["fix0"])
                        e0 = None
                    except Exception as e:
                        ni0, e0 = None, _err_obs(e)[1]
                    if (ni is None) != (ni0 is None) or (ni is None and out[1] != e0):
                        fail = fail or (f"stage {si}: whether nipy2nifti accepts the image depends on the header it carries "
                                        f"({'written' if ni is not None else out[1]} with, {'written' if ni0 is not None else e0} without)")
                    elif ni is not None:
                        d = _geo_diff(ni.header, ni0.header)
                        if d is None and not np.array_equal(ni.affine, ni0.affine):
                            d = "affine differs"
                        if d:
                            leak = leak or (f"stage {si} ({st['edit']}, {st['via']}): nipy2nifti wrote header field {d}: state of the "
                                            f"header carried from the previous load leaks into the saved geometry "
                                            f"(in={st['in']} out={st['out']})")
                if ni is None:
                    tags.append("refused" if out[1].startswith("error:niftiError") else "raised-" + out[1])
                    if spec["expect"] in ("ok", "ok-approx"):
                        fail = fail or (f"stage {si}: nipy2nifti raised {out[2]} for an image whose geometry NIfTI can express "
                                        f"(in={st['in']} out={st['out']} shape={st['shape']})")
                    break
                if spec["expect"] == "refuse":
                    fail = fail or (f"stage {si}: nipy2nifti wrote an image whose geometry NIfTI cannot express ({st['malformed']}: "
                                    f"in={st['in']} out={st['out']}) instead of raising NiftiError")
                # --- back again
                via = st["via"]
                what = f"stage {si} ({st['edit']}) " + ("in-memory round trip" if via == "mem" else f"round trip through {via} ({st['eff_dtype']})")
                try:
                    if via == "mem":
                        ni2, back = ni, nr.nifti2nipy(ni)
                    else:
                        tmp = tmp or tempfile.mkdtemp(prefix="c03h-")
                        pth = os.path.join(tmp, f"s{si}" + via)
                        ret = save_image(img, pth, dtype_from=st["dtype_from"])
                        if ret is not img:
                            fail = fail or f"{what}: save_image did not return its input image"
                        back = as_image(pth) if si % 2 else load_image(pth)
                        nimg = nib.load(pth)
                        ni2 = nib.Nifti1Image(nimg.dataobj, nimg.affine, nimg.header)
                        _ = back.get_fdata()
                except Exception as e:
                    fail = fail or f"{what} raised {type(e).__name__}: " + str(e).replace(tmp or "<none>", "<tmp>")
                    break
                o2 = _hdr_obs(ni2)
                lines.append(_load_line(o2))
                impl.append(("img", _img_obs(back), np.asarray(back.get_fdata()).ravel().tolist() if via == "mem" else None))
                if via in (".nii", ".nii.gz", ".hdr", ".hdr.gz"):
                    # the header read back from the file is the header nipy2nifti produced; the affine is its best affine
                    lines.append(line)
                    impl.append(("rawhdr", _raw_obs(ni2.header), None, None, st, "file"))
                    lines.append("best " + _raw_tokens(_raw_obs(ni2.header)))
                    impl.append(("best", np.asarray(ni2.affine).ravel().tolist()))
                if fail is None and spec["expect"] in ("ok", "ok-approx"):
                    if via == "mem":
                        ktol = 1e-9 if spec["expect"] == "ok" and spec["space"] != "unknown" else 1e-4
                        vtol = 0.0
                    else:
                        ktol = 1e-5
                        rng_ = float(data.max() - data.min()) if data.size else 0.0
                        dt = np.dtype(st["eff_dtype"])
                        vtol = 1e-6 * max(1.0, rng_) if dt.kind == "f" else max(rng_ / (2.0 ** (8 * dt.itemsize) - 2), 0) + 1e-6
                        if dt.kind in "iu" and data.dtype.kind == "f":
                            # scl_slope / scl_inter are binary32 fields: stored*slope+inter carries their rounding
                            vtol += 2.0 ** -21 * float(np.abs(data).max()) if data.size else 0.0
                    analyze = via in (".img", ".img.gz")
                    fail = _compare_images(img, back, spec, ktol, vtol, what, only_xyz=analyze)
                    if fail is None and via != "mem":
                        from nipy.io.nibcompat import get_unscaled_data
                        raw_ = np.asarray(get_unscaled_data(nimg), dtype=float)
                        sl, it = getattr(nimg.dataobj, "slope", None), getattr(nimg.dataobj, "inter", None)
                        if not np.allclose(raw_ * (1.0 if sl is None else sl) + (0.0 if it is None else it),
                                           np.asarray(nimg.get_fdata()), rtol=1e-6, atol=1e-6):
                            fail = f"{what}: get_unscaled_data with the header's slope / intercept is not the data"
                    if not analyze:
                        from nipy.core.reference.spaces import known_space
                        ks = known_space(back)
                        if fail is None and not spec["plain_xyz"] and (ks is None or ks.name != spec["space"]):
                            fail = f"{what}: known_space of the loaded image is {ks!r}, saved in '{spec['space']}'"
                        names = list(back.coordmap.function_range.coord_names)
                        if fail is None and not spec["plain_xyz"] and names[:3] != space_names(spec["space"]):
                            fail = f"{what}: space {space_names(spec['space'])} became {names[:3]}"
                        if fail is None and spec["tl"] and names[3] != spec["tl"]:
                            fail = f"{what}: time-like axis '{spec['tl']}' became '{names[3]}'"
                        if fail is None and not spec["tl"] and len(st["shape"]) > 3 and names[3] in ("t", "hz", "ppm", "rads"):
                            fail = f"{what}: an image without time-like axis got axis '{names[3]}'"
                if fail is None and leak is None and st.get("resave") and spec["expect"] == "ok":
                    fail = self._resave(back, via, tmp, si, what, tags)
                if fail or leak:
                    break
                hdr = back.metadata.get("header")
        finally:
            if tmp:
                shutil.rmtree(tmp, ignore_errors=True)
        if fail and leak:
            fail = fail + " — " + leak
        fail = fail or leak
        return {"lines": lines, "impl": impl, "oracle": fail, "nontrivial": True, "tags": tags, "mutated": mut}

    def _resave(self, back, via, tmp, si, what, tags):
        """second round trip of the loaded image itself (same path, its own header): must be exact"""
        from nipy.io import nifti_ref as nr
        from nipy.io.api import load_image, save_image
        tags.append("resave-" + ("mem" if via == "mem" else "file"))
        try:
            if via == "mem":
                ni = nr.nipy2nifti(back, strict=True)
                again = nr.nifti2nipy(ni)
            else:
                pth = os.path.join(tmp, f"r{si}" + via)
                save_image(back, pth, dtype_from="header")
                again = load_image(pth)
        except Exception as e:
            return f"{what}: saving the loaded image again raised {type(e).__name__}: " + str(e).replace(tmp or "<none>", "<tmp>")
        a, b = back.coordmap, again.coordmap
        if a.function_domain.coord_names != b.function_domain.coord_names or \
                a.function_range.coord_names != b.function_range.coord_names:
            return f"{what}: second round trip changed the axis names {a.function_domain.coord_names}->{a.function_range.coord_names} to {b.function_domain.coord_names}->{b.function_range.coord_names}"
        if not np.array_equal(np.asarray(a.affine), np.asarray(b.affine)):
            return (f"{what}: second round trip is not exact: affine {np.asarray(a.affine).tolist()} became "
                    f"{np.asarray(b.affine).tolist()}")
        d = _geo_diff(again.metadata["header"], back.metadata["header"])
        if d:
            return f"{what}: second round trip changed header field {d}"
        if via == "mem" and not np.array_equal(np.asarray(back.get_fdata()), np.asarray(again.get_fdata())):
            return f"{what}: second round trip changed the data"
        return None

    def _run_misc(self, c):
        import nibabel as nib
        from nipy.core.api import CoordinateSystem
        from nipy.core.image import image_spaces as isp
        from nipy.core.reference import spaces as sp
        from nipy.io import files
        w = c["what"]
        tags = ["misc", "misc-" + w]
        fail = None

        def ename(e):
            return "error:" + type(e).__name__ if type(e).__name__ in ("SpaceError", "CoordSysMakerError") else errname(e)
        if w == "ftype":
            name = c["name"]
            try:
                t = files._type_from_filename(name)
                act = self._save_action(files, name, "data")[0]
                out = f"ok {t} {act}"
            except Exception as e:
                out = errname(e)
            return {"lines": [f"ftype {name or '<>'}"], "impl": [("txt", out)], "oracle": None, "nontrivial": True,
                    "tags": tags + ["ftype-" + out.split()[-1]], "mutated": None}
        if w == "iodtype":
            df = {"np.float32": np.float32, "np.int16": np.int16}.get(c["dtype_from"], c["dtype_from"])
            try:
                act, dd = self._save_action(files, c["name"], df)
            except Exception as e:
                return {"lines": [], "impl": [], "oracle": None, "nontrivial": False, "tags": tags + ["iodtype-" + errname(e)],
                        "mutated": None}
            tok = c["dtype_from"] if c["dtype_from"] in ("data", "header") else np.dtype(df).name
            out = "ok " + ("-" if dd is None else np.dtype(dd).name)
            return {"lines": [f"iodtype {tok} float64"], "impl": [("txt", out)], "oracle": None, "nontrivial": True,
                    "tags": tags, "mutated": None}
        if w == "f32":
            vals = [float(v) for v in c["vals"]]
            with np.errstate(all="ignore"):
                got = [float(np.float32(v)) for v in vals]
            keep = [(v, g) for v, g in zip(vals, got) if np.isfinite(g)]
            return {"lines": [f"f32 {len(keep)} {frs([v for v, _ in keep])}"],
                    "impl": [("txt", "ok " + frs([g for _, g in keep]))], "oracle": None, "nontrivial": True,
                    "tags": tags, "mutated": None}
        if w == "worldcs":
            try:
                cs = sp.get_world_cs(c["world"] or "", c["ndim"])
                out = "ok " + " ".join(cs.coord_names)
            except Exception as e:
                out = ename(e)
            if c["ndim"] == 0 or not c["world"]:
                return {"lines": [], "impl": [], "oracle": None, "nontrivial": False, "tags": tags, "mutated": None}
            return {"lines": [f"worldcs {c['world']} {c['ndim']}"], "impl": [("txt", out.rstrip())], "oracle": None,
                    "nontrivial": True, "tags": tags + ["worldcs-" + out.split()[0]], "mutated": None}
        if w == "knownspace":
            r = sp.known_space(CoordinateSystem(c["names"]))
            out = "ok " + ("-" if r is None else r.name)
            return {"lines": [f"knownspace {len(c['names'])} {' '.join(c['names'])}"], "impl": [("txt", out)],
                    "oracle": None, "nontrivial": True, "tags": tags, "mutated": None}
        if w == "xyzspace":
            A, B = sp.XYZSpace(c["a"]), sp.XYZSpace(c["b"])
            want = tuple(space_names(c["a"]))
            mp = {}
            A.register_to(mp)
            checks = [(A.as_tuple() == want, "as_tuple"), ((A.x, A.y, A.z) == want, "x/y/z"),
                      (A.as_map() == dict(zip("xyz", want)), "as_map"), (mp == dict(zip(want, "xyz")), "register_to"),
                      ((A == B) == (c["a"] == c["b"]) and (A != B) == (c["a"] != c["b"]), "__eq__/__ne__"),
                      (A != "x" and not (A == 3), "__eq__ with a non-space"),
                      (repr(A) == f"XYZSpace('{c['a']}')" and str(A).startswith(c["a"] + ": "), "repr/str"),
                      (sp.is_xyz_space(A) and not sp.is_xyz_space(CoordinateSystem("xyz")), "is_xyz_space"),
                      (CoordinateSystem(list(want) + ["t"]) in A and (CoordinateSystem(space_names(c["b"])) in A) == (c["a"] == c["b"]),
                       "__contains__")]
            n_ex = c["ndim"] - 3
            if n_ex <= len(c["extras"]):
                cs = A.to_coordsys_maker(c["extras"])(c["ndim"])
                checks.append((cs.coord_names == want + tuple(c["extras"][:n_ex]) and cs.name == c["a"], "to_coordsys_maker"))
                checks.append((sp.get_world_cs(A, c["ndim"], c["extras"]).coord_names == cs.coord_names and
                               sp.get_world_cs(cs, c["ndim"]) is cs and
                               sp.get_world_cs(A.to_coordsys_maker(c["extras"]), c["ndim"]).coord_names == cs.coord_names,
                               "get_world_cs(space / coordsys / maker)"))
                try:
                    sp.get_world_cs(cs, c["ndim"] + 1)
                    checks.append((False, "get_world_cs(coordsys of the wrong dimension) did not raise"))
                except sp.SpaceError:
                    pass
            try:
                sp.get_world_cs(3, 3)
                checks.append((False, "get_world_cs(3) did not raise"))
            except ValueError:
                pass
            bad = [nm for ok, nm in checks if not ok]
            line = f"knownspace 3 {' '.join(want)}"
            r = sp.known_space(CoordinateSystem(want))
            out = "ok " + ("-" if r is None else r.name)
            return {"lines": [line], "impl": [("txt", out)], "oracle": ("XYZSpace: " + ", ".join(bad)) if bad else None,
                    "nontrivial": True, "tags": tags, "mutated": None}
        if w == "defhdr":
            h = nib.Nifti1Header.from_header(None)
            o = _raw_obs(h)
            return {"lines": [f"defhdr {len(o['kept'])} {' '.join(o['kept'])}"], "impl": [("rawhdr", o, None, None, None, "def")],
                    "oracle": None, "nontrivial": True, "tags": tags, "mutated": None}
        if w == "mkxyz":
            shape = c["shape"]
            data = np.zeros(shape)
            aff = np.eye(4); aff[:3, :3] = c["A"]; aff[:3, 3] = c["t"]
            z = c["zooms"]
            arg = aff if z is None else (aff, (z[0] if c["zmode"] == "scalar" else tuple(z)))
            try:
                im = isp.make_xyz_image(data, arg, c["world"])
                out = ("img", _img_obs(im), None)
            except Exception as e:
                out = ("err", ename(e), str(e))
            zl = [] if z is None else z
            if c["zmode"] == "scalar" and len(shape) != 4:
                zl = z          # a scalar is one zoom: wrong count unless there is exactly one extra axis
            line = (f"mkxyz {len(shape)} {' '.join(map(str, shape))} {frs(aff.ravel().tolist())} {int(z is not None)} "
                    f"{len(zl)} {frs(zl)} {c['world']}").replace("  ", " ")
            return {"lines": [line], "impl": [out], "oracle": None, "nontrivial": True,
                    "tags": tags + ["mkxyz-" + (out[1] if out[0] == "err" else "ok")], "mutated": None}
        if w == "asimage":
            from nipy.io.api import as_image, save_image
            img, _ = self._mk(c["img"])
            arg = c["arg"]
            tmp = tempfile.mkdtemp(prefix="c03a-")
            try:
                if arg == "image":
                    ok = as_image(img) is img
                    fail = None if ok else "as_image(img) did not pass the image through"
                elif arg == "path":
                    pth = os.path.join(tmp, "a.nii")
                    if c["img"]["spec"]["expect"] == "ok":
                        save_image(img, pth)
                        back = as_image(pth)
                        fail = _compare_images(img, back, c["img"]["spec"], 1e-5, 1e-6 * max(1, img.get_fdata().size), "as_image(path)")
                else:
                    bad = {"int": 3, "none": None, "array": np.zeros((2, 2, 2))}[arg]
                    try:
                        as_image(bad)
                        fail = f"as_image({arg}) returned instead of raising TypeError"
                    except TypeError:
                        pass
            finally:
                shutil.rmtree(tmp, ignore_errors=True)
            return {"lines": [], "impl": [], "oracle": fail, "nontrivial": True, "tags": tags + ["asimage-" + arg], "mutated": None}
        # affable: is_xyz_affable / as_xyz_image (image_spaces.py) and the coordmap-level twins (spaces.py)
        ic = c["img"]
        img, _ = self._mk(ic)
        known = dict(sp.known_names)
        if not ic["strict"]:
            for ch in "xyz":
                known[ch] = ch
        with _Recorder() as rec:
            a = bool(isp.is_xyz_affable(img, known))
            a2 = bool(sp.is_xyz_affable(img.coordmap, known))
            try:
                x = isp.as_xyz_image(img, known)
                reo = "reo " + " ".join(x.coordmap.function_domain.coord_names) + " | " + " ".join(x.coordmap.function_range.coord_names)
                if a and x is not img:
                    fail = "as_xyz_image returned a new image although the image already has an xyz affine"
                if not isp.is_xyz_affable(x, known):
                    fail = "as_xyz_image returned an image without xyz affine"
                elif not np.array_equal(isp.xyz_affine(x, known), sp.xyz_affine(x.coordmap, known)):
                    fail = "image_spaces.xyz_affine and spaces.xyz_affine disagree"
            except (sp.AxesError, sp.AffineError):
                reo = "reo-error"
        if a != a2:
            fail = "image_spaces.is_xyz_affable and spaces.is_xyz_affable disagree"
        nimg = nib.Nifti1Image(np.zeros((2, 2, 2)), np.diag([2.0, 3.0, 4.0, 1.0]))
        if not isp.is_xyz_affable(nimg) or not np.array_equal(isp.xyz_affine(nimg), nimg.affine) or isp.as_xyz_image is None:
            fail = fail or "a nibabel image is not xyz-affable"
        if any(v.split().count("-") >= 2 for v in rec.calls.values()):
            return {"lines": [], "impl": [], "oracle": fail, "nontrivial": False, "tags": tags + ["argsort-tie-not-compared"], "mutated": None}
        line = f"affable {int(ic['strict'])} {_img_tokens(ic['in'], ic['out'], ic['aff'], ic['shape'])} {rec.table()}"
        return {"lines": [line], "impl": [("txt", f"ok {str(a).lower()} {reo}")], "oracle": fail, "nontrivial": True,
                "tags": tags + ["affable-" + str(a).lower()], "mutated": None}

    @staticmethod
    def _save_action(files, name, dtype_from):
        """run the real `save` with the conversions and writers replaced by recorders"""
        import nibabel as nib
        rec = {}

        class Dummy:
            def __init__(self, kind):
                self.kind = kind

            def to_filename(self, fn):
                rec["act"] = self.kind

            def get_data_dtype(self):
                return np.dtype("f8")

        class Img:
            def get_fdata(self):
                return np.zeros((1, 1, 1))
        from unittest import mock

        def fake_n2n(img, data_dtype=None, **kw):
            rec["dd"] = data_dtype
            return Dummy("single")
        with mock.patch.object(files, "nipy2nifti", fake_n2n), \
                mock.patch.object(nib.Nifti1Pair, "from_image", classmethod(lambda k, im: Dummy("pair"))), \
                mock.patch.object(nib.Spm2AnalyzeImage, "from_image", classmethod(lambda k, im: Dummy("analyze"))):
            try:
                files.save(Img(), name, dtype_from)
            except ValueError:
                rec.setdefault("act", "error:valueError")
                if "dd" not in rec:
                    raise
        return rec["act"], rec.get("dd")

    def _run_infile(self, c):
        return F.run_infile(self, c)

    def _run_ftl(self, c):
        from nipy.io import nifti_ref as nr
        img, _ = self._mk(c)
        with _Recorder() as rec:
            try:
                r = nr._find_time_like(img.coordmap, c["fix0"])
                out = ("tl", "ok none" if r[0] is None else
                       f"ok {int(r[0])} {'-' if r[1] is None else int(r[1])} {r[2]}")
            except Exception as e:
                out = ("tl", _err_obs(e)[1])
        line = f"ftl {int(c['fix0'])} {_img_tokens(c['in'], c['out'], c['aff'], c['shape'])} {rec.table()}"
        fail = None
        if out[1].startswith("ok ") and out[1] != "ok none":
            # never both names: the name returned is the canonical name of the input axis or of the output axis
            parts = out[1].split()
            ia, oa, nm = int(parts[1]), parts[2], parts[3]
            canon = {a: k for k, v in TL_NAMES.items() for a in v}
            names = {canon.get(c["in"][ia])} | ({canon.get(c["out"][int(oa)])} if oa != "-" else set())
            names.discard(None)
            if names != {nm}:
                fail = f"_find_time_like returned {out[1]} for in={c['in']} out={c['out']}: axis types {names}"
        return {"lines": [line], "impl": [out], "oracle": fail, "nontrivial": True,
                "tags": ["ftl", "ftl-" + out[1].split()[0].replace("error:", "")] +
                        (["site=" + out[1].split()[-1]] if out[1].startswith("error:niftiError") else []), "mutated": None}

    def _run_raw(self, c):
        import nibabel as nib
        from nipy.io import nifti_ref as nr
        shape = c["shape"]
        data = np.arange(int(np.prod(shape)), dtype=float).reshape(shape)
        aff = np.eye(4)
        aff[:3, :3] = c["A"]; aff[:3, 3] = c["t"]
        hdr = nib.Nifti1Header()
        hdr.set_data_shape(shape)
        hdr.set_sform(aff, c["sform"])
        hdr.set_qform(aff, c["qform"])
        su = None if c["sunits"] == "unknown" else c["sunits"]
        tu = None if c["tunits"] == "unknown" else c["tunits"]
        hdr.set_xyzt_units(su, tu)
        hdr.set_dim_info(*c["diminfo"])
        hdr["toffset"] = c["toffset"]
        ni = nib.Nifti1Image(data, aff, hdr)
        if len(shape) > 3:
            ni.header["pixdim"][4:4 + len(shape) - 3] = c["pixdim"]
        o = _hdr_obs(ni)
        try:
            back = nr.nifti2nipy(ni)
            out = ("img", _img_obs(back), np.asarray(back.get_fdata()).ravel().tolist())
        except Exception as e:
            out = _err_obs(e)
        fail = None
        if len(shape) >= 3 and out[0] == "err":
            fail = f"nifti2nipy raised {out[2]} on a {len(shape)}-D NIfTI image"
        return {"lines": [_load_line(o)], "impl": [out], "oracle": fail, "nontrivial": len(shape) >= 3,
                "tags": ["raw", f"raw-ndim={len(shape)}", "raw-" + out[0]] +
                        (["site=lt3d"] if out[0] == "err" and out[1].endswith("lt3d") else []), "mutated": None}

    # ------------------------------------------------------------------
    @staticmethod
    def _sections(s, keys):
        toks = s.split()
        out, cur = {}, None
        for t in toks[1:]:
            if t in keys and t not in out:
                cur = t; out[cur] = []
            elif cur is not None:
                out[cur].append(t)
        return out

    def compare(self, case, impl_obs, model_out):
        kind = impl_obs[0]
        if kind in ("imgx", "vals", "dhist"):
            return F.compare_file(self, case, impl_obs, model_out)
        if kind == "tl":
            return None if impl_obs[1] == model_out else f"impl={impl_obs[1]!r} model={model_out!r}"
        if kind == "txt":
            return None if impl_obs[1] == model_out else f"impl={impl_obs[1]!r} model={model_out!r}"
        if kind == "best":
            if model_out == "qform":
                return None
            if not model_out.startswith("ok "):
                return f"impl returned an affine, model says {model_out[:80]}"
            ma = parse_rats(model_out[3:])
            if len(ma) != 16 or any(not close(a, b, 1e-12, 1e-12) for a, b in zip(impl_obs[1], ma)):
                return f"affine read from the file impl={impl_obs[1]} model (best affine of the header)={[float(x) for x in ma]}"
            return None
        if kind == "rawhdr":
            return self._compare_raw(impl_obs, model_out)
        if kind == "err":
            return None if impl_obs[1] == model_out else f"impl raised {impl_obs[2][:120]!r} model={model_out[:120]!r}"
        if not model_out.startswith("ok "):
            return f"impl returned a result, model says {model_out[:80]}"
        if kind == "hdr":
            o, flat = impl_obs[1], impl_obs[2]
            m = self._sections(model_out, ["shape", "axes", "aff", "codes", "pixdim", "toffset", "units", "diminfo"])
            if [int(x) for x in m["shape"]] != o["shape"]:
                return f"shape impl={o['shape']} model={m['shape']}"
            ma = parse_rats(" ".join(m["aff"]))
            if len(ma) != 16 or any(not close(a, b, 1e-12, 1e-12) for a, b in zip(o["aff"], ma)):
                return f"affine impl={o['aff']} model={[float(x) for x in ma]}"
            if [int(x) for x in m["codes"]] != [o["sform"], o["qform"]]:
                return f"codes impl={[o['sform'], o['qform']]} model={m['codes']}"
            mp = parse_rats(" ".join(m["pixdim"]))
            if len(mp) != len(o["pixdim"]) or any(not close(a, b, 1e-6, 1e-9) for a, b in zip(o["pixdim"], mp)):
                return f"pixdim impl={o['pixdim']} model={[float(x) for x in mp]}"
            if not close(o["toffset"], parse_rats(m["toffset"][0])[0], 1e-6, 1e-9):
                return f"toffset impl={o['toffset']} model={m['toffset']}"
            if m["units"] != [o["sunits"], o["tunits"]]:
                return f"units impl={[o['sunits'], o['tunits']]} model={m['units']}"
            if m["diminfo"] != ["-" if v is None else str(v) for v in o["diminfo"]]:
                return f"dim_info impl={o['diminfo']} model={m['diminfo']}"
            # data: the model says which original axis each array axis is
            src = np.arange(int(np.prod(case["shape"])), dtype=float).reshape(case["shape"])
            axes = [None if a == "-" else int(a) for a in m["axes"]]
            real = [a for a in axes if a is not None]
            if sorted(real) != list(range(src.ndim)):
                return f"model axes {axes} are not a permutation"
            exp = np.transpose(src, real)
            for k, a in enumerate(axes):
                if a is None:
                    exp = np.expand_dims(exp, k)
            if list(exp.shape) != o["shape"] or exp.ravel().tolist() != flat:
                return f"data: implementation's array is not the transposition {axes} of the input"
            return None
        if kind == "img":
            o, flat = impl_obs[1], impl_obs[2]
            if o.get("shape") is None:
                return "no image"
            m = self._sections(model_out, ["in", "out", "aff", "shape", "axes"])
            if m["in"] != o["in"] or m["out"] != o["out"]:
                return f"names impl={o['in']}->{o['out']} model={m['in']}->{m['out']}"
            if [int(x) for x in m["shape"]] != o["shape"]:
                return f"shape impl={o['shape']} model={m['shape']}"
            ma = parse_rats(" ".join(m["aff"]))
            if len(ma) != len(o["aff"]) or any(not close(a, b, 1e-6, 1e-12) for a, b in zip(o["aff"], ma)):
                return f"affine impl={o['aff']} model={[float(x) for x in ma]}"
            return None
        return "unknown observation kind"

    def _compare_raw(self, impl_obs, model_out):
        _, o, aff, flat, st, where = impl_obs
        if not model_out.startswith("ok "):
            return f"impl returned a header, model says {model_out[:80]}"
        m = self._sections(model_out, ["shape", "pixdim", "codes", "srow", "qoffset", "toffset", "units", "diminfo",
                                       "dtype", "scl", "vox", "kept", "axes", "aff"])
        if [int(x) for x in m["shape"]] != o["shape"]:
            return f"[{where}] shape impl={o['shape']} model={m['shape']}"
        mp = parse_rats(" ".join(m["pixdim"]))
        used = len(o["shape"]) + 1 if where == "file" else 8    # header conversions on the way to a file reset the unused tail
        if len(mp) != 8 or any(not close(a, b, 1e-6, 1e-9) for a, b in list(zip(o["pixdim"], mp))[:used]):
            return f"[{where}] pixdim[0:8] impl={o['pixdim']} model={[float(x) for x in mp]}"
        if [int(x) for x in m["codes"]] != [o["sform"], o["qform"]]:
            return f"[{where}] codes impl={[o['sform'], o['qform']]} model={m['codes']}"
        ms = parse_rats(" ".join(m["srow"]))
        if len(ms) != 12 or any(not close(a, b, 1e-9, 1e-12) for a, b in zip(o["srow"], ms)):
            return f"[{where}] srow impl={o['srow']} model={[float(x) for x in ms]}"
        mq = parse_rats(" ".join(m["qoffset"]))
        if any(not close(a, b, 1e-9, 1e-12) for a, b in zip(o["qoffset"], mq)):
            return f"[{where}] qoffset impl={o['qoffset']} model={[float(x) for x in mq]}"
        if not close(o["toffset"], parse_rats(m["toffset"][0])[0], 1e-9, 1e-12):
            return f"[{where}] toffset impl={o['toffset']} model={m['toffset']}"
        if m["units"] != [o["sunits"], o["tunits"]]:
            return f"[{where}] units impl={[o['sunits'], o['tunits']]} model={m['units']}"
        if m["diminfo"] != [_dim_tok(v) for v in o["diminfo"]]:
            return f"[{where}] dim_info impl={o['diminfo']} model={m['diminfo']}"
        if m["dtype"] != [o["dtype"]]:
            return f"[{where}] dtype impl={o['dtype']} model={m['dtype']}"
        if where == "file":
            return None
        if m["scl"] != [_fnan(o["slope"]), _fnan(o["inter"])] or not close(o["vox"], parse_rats(m["vox"][0])[0]):
            return f"[{where}] scl_slope/scl_inter/vox_offset impl={o['slope']},{o['inter']},{o['vox']} model={m['scl']},{m['vox']}"
        if m["kept"] != o["kept"]:
            d = [(a, b) for a, b in zip(o["kept"], m["kept"]) if a != b][:3]
            return f"[{where}] fields nipy does not set are not carried over from the incoming header: {d}"
        if where == "def":
            return None
        ma = parse_rats(" ".join(m["aff"]))
        if len(ma) != 16 or any(not close(a, b, 1e-12, 1e-12) for a, b in zip(aff, ma)):
            return f"affine impl={aff} model={[float(x) for x in ma]}"
        if where == "geo":      # an image loaded from a file: its data are compared by the oracle
            return None
        src = np.arange(int(np.prod(st["shape"])), dtype=float).reshape(st["shape"])
        axes = [None if a == "-" else int(a) for a in m["axes"]]
        real = [a for a in axes if a is not None]
        if sorted(real) != list(range(src.ndim)):
            return f"model axes {axes} are not a permutation"
        exp = np.transpose(src, real)
        for k, a in enumerate(axes):
            if a is None:
                exp = np.expand_dims(exp, k)
        if list(exp.shape) != o["shape"] or exp.ravel().tolist() != flat:
            return f"data: implementation's array is not the transposition {axes} of the input"
        return None

    # ------------------------------------------------------------------
    def shrink(self, case):
        if case["kind"] == "hist":
            yield from self._shrink_hist(case)
            return
        if case["kind"] == "misc":
            return
        if case["kind"] == "infile":
            yield from F.shrink_infile(case)
            return
        if case.get("formats"):
            for f in case["formats"]:
                c = dict(case); c["formats"] = [f]
                if c != case:
                    yield c
        if case["kind"] in ("img", "ftl"):
            for i, s in enumerate(case["shape"]):
                if s > 1:
                    c = dict(case); c["shape"] = case["shape"][:i] + [s - 1] + case["shape"][i + 1:]
                    if case["kind"] == "img" and case["spec"]["space"] == "unknown":
                        continue       # the base affine depends on the shape
                    yield c

    @staticmethod
    def _rechain(case):
        cur = case["seed"]["dtype"] if case["seed"] else None
        for st in case["stages"]:
            st["eff_dtype"] = _effective_dtype(st["dd"], cur, (st.get("pres") or {}).get("dtype", "f8"))
            cur = st["eff_dtype"]
        return case

    def _shrink_hist(self, case):
        import copy
        st = case["stages"]
        if len(st) > 1:
            c = copy.deepcopy(case); c["stages"] = c["stages"][:-1]; yield self._rechain(c)
            c = copy.deepcopy(case); c["stages"] = c["stages"][1:]; yield self._rechain(c)
            for i in range(1, len(st) - 1):
                c = copy.deepcopy(case); c["stages"].pop(i); yield self._rechain(c)
        if case["seed"] is not None:
            c = copy.deepcopy(case); c["seed"] = None; yield self._rechain(c)
            for key, val in (("cls", "nifti1"), ("ext", False), ("intent", None), ("slice", None), ("cal", None),
                             ("slope", None), ("inter", None), ("descrip", ""), ("diminfo", [None, None, None]),
                             ("sunits", "mm"), ("tunits", "unknown"), ("sform", 0), ("qform", 0),
                             ("pixdim", [1.0, 1.0, 1.0, 1.0]), ("magic_pair", False), ("shape", [1, 1, 1])):
                if case["seed"][key] != val:
                    c = copy.deepcopy(case); c["seed"][key] = val; yield self._rechain(c)
        for i, s_ in enumerate(st):
            if s_["via"] != "mem":
                c = copy.deepcopy(case)
                c["stages"][i].update(via="mem", dd=s_["eff_dtype"], dtype_from=None)
                yield self._rechain(c)
            if s_["spec"]["space"] != "unknown":
                for ax, n_ in enumerate(s_["shape"]):
                    if n_ > 1:
                        c = copy.deepcopy(case)
                        c["stages"][i]["shape"][ax] = n_ - 1
                        yield c

    def classify(self, case, failure):
        return None


CHECK = C03()
