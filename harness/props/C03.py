"""C03 — NIfTI save/load round trip preserves data and geometry, or refuses.

Correspondence: `nipy2nifti` (header fields, data transposition, refusals),
`_find_time_like`, `nifti2nipy` (names, affine, squeeze rule) against the Lean
model `NipyVerif.C03`; `io_orientation` (SVD) results are passed to the model
as a table (parameter of the model).  Oracle: the round trip, in memory and
through .nii / .nii.gz / .hdr+.img / SPM-Analyze .img files, compared with the
input as (xyz position, time-like coordinate, extra coordinates) -> value
tables; refusal (NiftiError) demanded for the inexpressible geometries.
"""
from __future__ import annotations

import itertools
import os
import shutil
import tempfile
import warnings

import numpy as np

from harness.core import PropertyCheck
from harness.util import close, errname, fr, frs, parse_rats

SPACES = ["scanner", "aligned", "talairach", "mni", "unknown"]
CODES = {"unknown": 0, "scanner": 1, "aligned": 2, "talairach": 3, "mni": 4}
TL_NAMES = {"t": ("t", "time"), "hz": ("hz", "frequency-hz"), "ppm": ("ppm", "concentration-ppm"),
            "rads": ("rads", "radians/s")}
TL_UNITS = {"t": "sec", "hz": "hz", "ppm": "ppm", "rads": "rads"}
DTYPES = ["u1", "i2", "i4", "f4", "f8"]
FORMATS = [".nii", ".nii.gz", ".hdr", ".img"]


def space_names(sp):
    return [f"{sp}-x=L->R", f"{sp}-y=P->A", f"{sp}-z=I->S"]


# ----------------------------------------------------------------------
# generation
# ----------------------------------------------------------------------
def _perm(rng, n, p_id=0.35):
    p = list(range(n))
    if rng.random() >= p_id:
        rng.shuffle(p)
    return p


def _spatial(rng, space, shape3):
    """invertible dyadic 3x3 (rotation / flip / shear / zoom) + translation"""
    if space == "unknown":   # only the header's base affine is expressible
        z = [rng.choice([1.0, 2.0, 0.5, 3.0, 1.5]) for _ in range(3)]
        A = np.diag([-z[0], z[1], z[2]])
        t = np.array([-(shape3[r] - 1) / 2.0 * A[r, r] for r in range(3)])
        return A, t
    z = [rng.choice([1.0, 2.0, 0.5, 3.0, 1.5, 4.0]) for _ in range(3)]
    A = np.diag(z)
    kind = rng.choice(["diag", "flip", "rot", "shear", "rotshear", "perm"])
    if kind in ("flip", "rot", "rotshear"):
        for r in range(3):
            if rng.random() < 0.5:
                A[r, r] = -A[r, r]
    if kind in ("rot", "rotshear", "perm"):
        p = list(range(3)); rng.shuffle(p)
        A = A[p, :]
    if kind in ("shear", "rotshear"):
        # small off-diagonal terms keep the closest-axis assignment unambiguous
        for _ in range(rng.choice([1, 2])):
            r, c = rng.sample(range(3), 2)
            col_big = max(abs(A[:, c]))
            A[r, c] += rng.choice([0.25, -0.25, 0.125]) * col_big
    if abs(np.linalg.det(A)) < 1e-6:
        A = np.diag(z)
    t = np.array([rng.choice([0.0, -12.5, 30.0, 7.0, -90.0, 1.5]) for _ in range(3)])
    return A, t


def make_image_case(rng, malformed=None, n=None):
    n = n if n is not None else rng.choice([3, 4, 4, 5, 5, 6, 7])
    k = n - 3
    space = rng.choice(SPACES)
    strict = rng.random() < 0.5
    shape3 = [rng.choice([1, 2, 2, 3]) for _ in range(3)]
    A, t3 = _spatial(rng, space, shape3)
    tl = rng.choice([None, "t", "t", "hz", "ppm", "rads"]) if k else None
    if k == 4 and malformed != "toomany":
        tl = tl or "t"           # seven dimensions need a time-like axis
    if k == 4 and malformed == "toomany":
        tl = None
    tpos = rng.randrange(k) if tl else None
    scales, lens, offs = [], [], []
    pool = [0.5, 1.0, 2.0, 3.0, 1.5, 4.0, 2.5]
    rng.shuffle(pool)
    for j in range(k):
        if j == tpos:
            scales.append(rng.choice([0.0, 0.0, 2.0, 2.5, 1.0, 0.75]))
            lens.append(rng.choice([1, 2, 3]))
            offs.append(rng.choice([0.0, 0.0, 14.0, -3.5, 0.25]) if tl == "t" else 0.0)
        else:
            scales.append(pool[j])
            lens.append(rng.choice([1, 2, 2, 3]) if k <= 2 else rng.choice([1, 2]))
            offs.append(0.0)
    # names
    mode = rng.choice(["both", "both", "alias", "in", "out"]) if tl else None
    plain_in = ["l", "m", "n", "o", "p"]
    plain_out = rng.choice([["u", "v", "w", "q", "r2"], ["a", "b", "c", "d", "e"], ["l", "m", "n", "o", "p"]])
    inn = ["i", "j", "k"] + plain_in[:k]
    if rng.random() < 0.25:
        for nm, pos in zip(rng.sample(["freq", "phase", "slice"], rng.choice([1, 2, 3])), rng.sample(range(3), 3)):
            inn[pos] = nm
    if space != "unknown" and not strict and rng.random() < 0.3:
        outn = ["x", "y", "z"] + plain_out[:k]
        named_space = "scanner"
    else:
        outn = space_names(space) + plain_out[:k]
        named_space = space
    if tl:
        a, b = TL_NAMES[tl]
        ni, no = {"both": (a, a), "alias": rng.choice([(a, b), (b, a), (b, b)]), "in": (a, None),
                  "out": (None, rng.choice([a, b]))}[mode]
        if ni:
            inn[3 + tpos] = ni
        if no:
            outn[3 + tpos] = no
    aff = np.eye(n + 1)
    aff[:3, :3] = A
    aff[:3, -1] = t3
    for j in range(k):
        aff[3 + j, 3 + j] = scales[j]
        aff[3 + j, -1] = offs[j]
    shape = shape3 + lens
    expect = "ok"
    note = []
    # ---- malformed / out-of-quantifier variants --------------------------------
    if malformed == "space-coupled" and k:
        r, c = (rng.randrange(3), 3 + rng.randrange(k))
        if rng.random() < 0.5:
            r, c = c, r
        aff[r, c] = rng.choice([0.5, -1.0, 0.001])
        expect = "refuse"
    elif malformed == "nonspace-coupled" and k >= 2:
        r, c = rng.sample(range(k), 2)
        aff[3 + r, 3 + c] = rng.choice([0.5, -2.0, 0.001])
        # (r, c) joins the diagonal entries (r, r) and (c, c): row r and/or column c then hold two
        # entries unless both scalings are zero (then the coupling is the only entry of its lines)
        expect = "any" if (scales[r] == 0 and scales[c] == 0) else "refuse"
    elif malformed == "world":
        kind = rng.choice(["foreign", "mixed", "plainstrict", "missing"])
        if kind == "foreign":
            outn[:3] = ["foo-x=L->R", "foo-y=P->A", "foo-z=I->S"]
        elif kind == "mixed":
            outn[:3] = [space_names("mni")[0], space_names("scanner")[1], space_names("mni")[2]]
        elif kind == "plainstrict":
            outn[:3] = ["x", "y", "z"]; strict = True
        else:
            outn[rng.randrange(3)] = "r"
        expect = "refuse"
    elif malformed == "toomany":
        expect = "refuse"        # n == 8, or n == 7 without a time-like axis
    elif malformed == "contradict" and tl and k >= 1:
        others = [x for x in TL_NAMES if x != tl]
        kind = rng.choice(["other-out", "other-in", "crossed"] if k >= 2 else ["other-out", "other-in"])
        a, b = TL_NAMES[tl]
        if kind == "other-out":
            inn[3 + tpos] = a; outn[3 + tpos] = rng.choice(TL_NAMES[rng.choice(others)])
        elif kind == "other-in":
            outn[3 + tpos] = a; inn[3 + tpos] = rng.choice(TL_NAMES[rng.choice(others)])
        else:
            q = rng.choice([j for j in range(k) if j != tpos])
            inn[3 + tpos] = a; outn[3 + tpos] = plain_out[tpos]; outn[3 + q] = b
            if scales[tpos] == 0:
                scales[tpos] = 2.0; aff[3 + tpos, 3 + tpos] = 2.0
        expect = "refuse"
    elif malformed == "unknown-incompatible":
        space = named_space = "unknown"
        outn[:3] = space_names("unknown")
        A2, t2 = _spatial(rng, "mni", shape3)
        aff[:3, :3] = A2; aff[:3, -1] = t2 + 1.0
        expect = "refuse"
    elif malformed == "tiny" and k:
        # couplings below the acceptance thresholds (1e-8 to space, 1e-5 among non-space axes)
        if k >= 2 and rng.random() < 0.5:
            r, c = rng.sample(range(k), 2)
            aff[3 + r, 3 + c] = rng.choice([2.0 ** -20, -2.0 ** -18, 2.0 ** -30])
        else:
            aff[rng.randrange(3), 3 + rng.randrange(k)] = rng.choice([2.0 ** -30, -2.0 ** -28])
        expect = "ok-approx" if not (tl and scales[tpos] == 0) else "any"
    elif malformed == "offset-elsewhere" and k:
        j = rng.randrange(k)
        aff[3 + j, -1] = rng.choice([5.0, -2.0])
        expect = "any"; note.append("offset on a non-'t' axis: outside the quantifier")
    elif malformed == "negscale" and k:
        j = rng.randrange(k)
        aff[3 + j, 3 + j] = -abs(aff[3 + j, 3 + j]) or -1.0
        expect = "any"; note.append("negative non-spatial scaling: outside the quantifier")
    elif malformed == "twozero" and k >= 2:
        for j in rng.sample(range(k), 2):
            aff[3 + j, 3 + j] = 0.0
        expect = "any"; note.append("two zero scalings: outside the quantifier")
    elif malformed == "nofix0" and k:
        expect = "any"
    # ---- permutations of output coordinates among non-spatial axes, then of everything ----
    rows = list(range(n))
    if k >= 2 and rng.random() < 0.3:
        sub = list(range(3, n)); rng.shuffle(sub)
        rows = [0, 1, 2] + sub
    pin, pout = _perm(rng, n), _perm(rng, n)
    rows = [rows[p] for p in pout]
    aff2 = np.eye(n + 1)
    aff2[:n, :] = aff[rows, :]
    aff2[:, :n] = aff2[:, pin]
    outn2 = [outn[r] for r in rows]
    inn2 = [inn[c] for c in pin]
    shape2 = [shape[c] for c in pin]
    if space == "unknown" and expect == "ok":
        # the 'unknown' world only holds the header's base affine (voxel axes in x, y, z order).  When the
        # coordmap already has an xyz affine, as_xyz_image does not transpose and a permuted-diagonal
        # affine is (correctly) refused; either outcome is legal for the property.
        sp_cols = [pin.index(c) for c in range(3)]
        if [rows.index(r) for r in range(3)] == [0, 1, 2] and sorted(sp_cols) == [0, 1, 2] and sp_cols != [0, 1, 2]:
            expect = "any"
    spec = {
        "space": named_space, "tl": tl, "expect": expect, "note": note,
        "xyz_rows": [outn2.index(outn[r]) for r in range(3)],
        "time_row": outn2.index(outn[3 + tpos]) if tl else None,
        "time_col": pin.index(3 + tpos) if tl else None,
        # extras: (input axis, output row) in the given image
        "extras": [[pin.index(3 + j), rows.index(3 + j)] for j in range(k) if j != tpos],
        "plain_xyz": outn[:3] == ["x", "y", "z"],
    }
    dtype = rng.choice(DTYPES)
    if dtype == "u1" and int(np.prod(shape)) > 250:
        dtype = "i2"     # voxel values are 0..N-1 and identify the voxel: keep them exactly storable
    fmts = []
    if expect == "ok" and rng.random() < 0.45:
        fmts = rng.sample(FORMATS, rng.choice([1, 2, 4]))
    return {"kind": "img", "strict": strict, "fix0": malformed != "nofix0", "in": inn2, "out": outn2,
            "aff": aff2.tolist(), "shape": shape2, "dtype": dtype, "formats": fmts, "spec": spec,
            "malformed": malformed}


MALFORMED = ["space-coupled", "nonspace-coupled", "world", "toomany", "contradict", "unknown-incompatible",
             "tiny", "offset-elsewhere", "negscale", "twozero", "nofix0"]


def make_ftl_case(rng):
    """names and non-spatial block straight into `_find_time_like`"""
    k = rng.choice([1, 2, 2, 3, 4])
    n = 3 + k
    pool = ["t", "time", "hz", "frequency-hz", "ppm", "concentration-ppm", "rads", "radians/s"]
    plain_i, plain_o = ["l", "m", "n", "o"], ["u", "v", "w", "q"]
    inn = ["i", "j", "k"] + plain_i[:k]
    outn = space_names("mni") + plain_o[:k]
    for _ in range(rng.choice([1, 2, 2, 3])):
        nm = rng.choice(pool)
        side, j = rng.choice([inn, outn]), 3 + rng.randrange(k)
        if nm not in side:
            side[j] = nm
    aff = np.eye(n + 1)
    aff[:3, :3] = np.diag([2.0, 3.0, 4.0])
    sub = list(range(k))
    if rng.random() < 0.5:
        rng.shuffle(sub)
    blk = np.zeros((k, k))
    for j in range(k):
        blk[sub[j], j] = rng.choice([0.0, 1.0, 2.0, 2.5, 0.5, -1.5])
    aff[3:n, 3:n] = blk
    for j in range(k):
        if rng.random() < 0.3:
            aff[3 + j, -1] = rng.choice([14.0, -2.0])
    return {"kind": "ftl", "fix0": rng.random() < 0.8, "in": inn, "out": outn, "aff": aff.tolist(),
            "shape": [2] * n}


def make_raw_case(rng):
    """a NIfTI header built directly with nibabel, for `nifti2nipy`"""
    nd = rng.choice([1, 2, 3, 3, 4, 4, 5, 5, 6, 7])
    shape = [rng.choice([1, 2, 3]) for _ in range(min(nd, 3))] + [rng.choice([1, 1, 2]) for _ in range(max(0, nd - 3))]
    A, t = _spatial(rng, "mni", (shape + [1, 1, 1])[:3])
    return {"kind": "raw", "shape": shape, "A": A.tolist(), "t": t.tolist(),
            "sform": rng.choice([0, 1, 2, 3, 4]), "qform": rng.choice([0, 0, 1, 2, 3, 4]),
            "tunits": rng.choice(["unknown", "unknown", "sec", "msec", "usec", "hz", "ppm", "rads"]),
            "sunits": rng.choice(["mm", "mm", "mm", "unknown", "meter", "micron"]),
            "pixdim": [rng.choice([0.0, 1.0, 2.0, 2.5, 0.5, 3.0]) for _ in range(max(0, nd - 3))],
            "toffset": rng.choice([0.0, 0.0, 42.0, -1.5]),
            "diminfo": rng.choice([[None, None, None]] * 3 + [[0, 1, 2], [2, 0, 1], [1, None, 0], [None, 2, None]])}


# ----------------------------------------------------------------------
# observation helpers
# ----------------------------------------------------------------------
def _names(l):
    return " ".join(l)


def _img_tokens(inn, outn, aff, shape):
    n = len(inn)
    return f"{n} {_names(inn)} {_names(outn)} {frs(np.asarray(aff).ravel().tolist())} {' '.join(map(str, shape))}"


class _Recorder:
    """records every io_orientation call made by the nipy code under test"""

    def __init__(self):
        import nipy.core.image.image_spaces as isp
        import nipy.core.reference.coordinate_map as cmap
        import nipy.core.reference.spaces as sp
        from nibabel.orientations import io_orientation
        self.mods = (isp, cmap, sp)
        self.orig = io_orientation
        self.calls = {}

    def __enter__(self):
        def rec(affine, tol=None):
            a = np.array(affine, dtype=float)
            res = self.orig(affine) if tol is None else self.orig(affine, tol)
            key = f"{a.shape[0]} {a.shape[1]} {frs(a.ravel().tolist())}"
            col = ["-" if np.isnan(v) else str(int(v)) for v in res[:, 0]]
            self.calls.setdefault(key, f"{len(col)} {' '.join(col)}" if col else "0")
            return res
        for m in self.mods:
            m.io_orientation = rec
        return self

    def __exit__(self, *a):
        for m in self.mods:
            m.io_orientation = self.orig

    def table(self):
        return f"{len(self.calls)} " + " ".join(f"{k} {v}" for k, v in self.calls.items()) if self.calls else "0"


def _hdr_obs(ni_img):
    hdr = ni_img.header
    su, tu = hdr.get_xyzt_units()
    return {"shape": list(ni_img.shape), "aff": np.asarray(ni_img.affine).ravel().tolist(),
            "sform": int(hdr["sform_code"]), "qform": int(hdr["qform_code"]),
            "pixdim": [float(z) for z in hdr.get_zooms()[3:]], "toffset": float(hdr["toffset"]),
            "sunits": su, "tunits": tu, "diminfo": list(hdr.get_dim_info())}


def _load_line(o):
    sh = o["shape"]
    d = " ".join("-" if v is None else str(int(v)) for v in o["diminfo"])
    pix = f"{len(o['pixdim'])} {frs(o['pixdim'])}".strip()
    return (f"load {len(sh)} {' '.join(map(str, sh))} {frs(o['aff'])} {o['sform']} {o['qform']} {pix} "
            f"{fr(o['toffset'])} {o['sunits']} {o['tunits']} {d}").replace("  ", " ")


def _img_obs(img):
    cm = img.coordmap
    return {"in": list(cm.function_domain.coord_names), "out": list(cm.function_range.coord_names),
            "aff": np.asarray(cm.affine).ravel().tolist(), "shape": list(img.shape)}


def _table(img, spec, mode):
    """(xyz position, time-like coordinate, extra coordinates) -> value, as a sorted list.

    mode 'orig': `spec` says which rows/columns are what; 'back': canonical layout of nifti2nipy."""
    aff = np.asarray(img.coordmap.affine, dtype=float)
    data = np.asarray(img.get_fdata())
    n = data.ndim
    idx = np.indices(data.shape).reshape(n, -1).T if data.size else np.zeros((0, n))
    world = idx @ aff[:n, :n].T + aff[:n, -1]
    if mode == "orig":
        xyz = world[:, spec["xyz_rows"]]
        tcol = world[:, [spec["time_row"]]] if spec["tl"] else np.zeros((len(idx), 0))
        ex_in = sorted(spec["extras"], key=lambda e: e[0])
        ex_out = sorted(spec["extras"], key=lambda e: e[1])
        keys = []
        for order in (ex_in, ex_out):
            ex = world[:, [e[1] for e in order]] if order else np.zeros((len(idx), 0))
            keys.append(np.hstack([xyz, tcol, ex]))
        return keys, data.ravel()
    xyz = world[:, :3]
    return [world], data.ravel()


def _same_tables(keys_a, vals_a, keys_b, vals_b, ktol, vtol):
    """multiset equality of (key, value) rows up to tolerances; returns None or a description"""
    if keys_a.shape != keys_b.shape:
        return f"table shapes {keys_a.shape} vs {keys_b.shape}"
    if keys_a.shape[0] == 0:
        return None
    scale = max(1.0, float(np.abs(keys_a).max()))

    def canon(k, v):
        # voxel values are distinct integers (arange): rows are matched through their value
        order = np.argsort(np.round(v), kind="stable")
        return k[order], v[order]
    ka, va = canon(keys_a, vals_a)
    kb, vb = canon(keys_b, vals_b)
    dk = np.abs(ka - kb)
    if dk.size and dk.max() > ktol * scale:
        i = int(np.argmax(dk.max(axis=1)))
        return f"position/coordinate row {ka[i].tolist()} became {kb[i].tolist()}"
    dv = np.abs(va - vb)
    if dv.size and dv.max() > vtol:
        i = int(np.argmax(dv))
        return f"value {va[i]} at {ka[i].tolist()} became {vb[i]}"
    return None


def _compare_images(orig, back, spec, ktol, vtol, what, only_xyz=False):
    ko, vo = _table(orig, spec, "orig")
    kb, vb = _table(back, spec, "back")
    kb = kb[0]
    if only_xyz:
        d = _same_tables(ko[0][:, :3], vo, kb[:, :3], vb, ktol, vtol)
        return None if d is None else f"{what}: {d}"
    if kb.shape[1] != ko[0].shape[1]:
        return f"{what}: {ko[0].shape[1]} coordinates (xyz, time-like, extras) became {kb.shape[1]}"
    ds = [_same_tables(k, vo, kb, vb, ktol, vtol) for k in ko]
    if any(d is None for d in ds):
        return None
    return f"{what}: {ds[0]}"


# ----------------------------------------------------------------------
class C03(PropertyCheck):
    id = "C03"
    title = "NIfTI save/load round trip preserves data and geometry, or refuses"
    lean_modules = ["NipyVerif.Props.C03"]
    driver = "Drivers/C03.lean"
    rule = ("cases are images (3..8-D, invertible dyadic spatial affine with flips/rotations/shears, any "
            "permutation of input axes and output coordinates, five spaces, time-like kind t/hz/ppm/rads or none "
            "named on the input, the output or both, zero/non-zero TR, time offset, positive extra scalings, "
            "strict on/off, dtype, file formats) from a seeded PRNG, ~25 % malformed (coupled axes, foreign world, "
            "too many dimensions, contradictory time-like names, ...), plus raw NIfTI headers for nifti2nipy and "
            "name/affine configurations for _find_time_like; non-trivial = more than 3 dimensions or a non-identity "
            "permutation or a refusal; distinct by full JSON of the case")
    assumptions = [
        "nibabel.io_orientation (SVD / polar decomposition) is a parameter of the model: the orientations the "
        "implementation computed are passed to the model as a table, theorems quantify over every orientation function",
        "np.sqrt for column norms is a parameter `sq` with sq(x*x)=x for x>=0 (exact on the dyadic inputs generated; "
        "pixdim is float32 in the header, zooms are compared to 1e-6 relative)",
        "nibabel header mechanics (set_sform/set_qform storage in float32, quaternion round-off, get_best_affine, "
        "file writing, gzip, data scaling to the storage dtype) are exercised by the oracle only",
        "the quantifier's 'offset on the time axis only' is read as an offset on a 't' axis: offsets on hz/ppm/rads "
        "or plain axes (which nifti_ref documents and tests as not stored) are correspondence-only",
        "couplings below the acceptance thresholds of the code (1e-8 space/non-space, 1e-5 among non-space axes) are "
        "accepted and dropped; the theorems state exact preservation for exactly block-structured affines and "
        "that acceptance implies the couplings are below those thresholds",
    ]
    level_note = ("in-memory conversion proved on the model; file formats (.nii/.nii.gz/.hdr/.img Analyze) and the "
                  "nibabel header storage are correspondence + oracle only")

    # ------------------------------------------------------------------
    def generate(self, rng, tier):
        n_img, n_bad, n_ftl, n_raw = (1200, 440, 400, 300) if tier == "quick" else (5000, 1800, 1500, 1000)
        cases = []
        for _ in range(n_img):
            cases.append(make_image_case(rng))
        for i in range(n_bad):
            m = MALFORMED[i % len(MALFORMED)]
            if m == "toomany":
                cases.append(make_image_case(rng, m, n=rng.choice([7, 8])))
            else:
                cases.append(make_image_case(rng, m, n=rng.choice([4, 5, 5, 6])))
        for _ in range(n_ftl):
            cases.append(make_ftl_case(rng))
        for _ in range(n_raw):
            cases.append(make_raw_case(rng))
        if tier == "thorough":
            # every permutation of input axes and of output coordinates of a 4-D and (sampled) 5-D image
            for n in (4, 5):
                perms = list(itertools.permutations(range(n)))
                pairs = [(a, b) for a in perms for b in perms]
                if n == 5:
                    pairs = rng.sample(pairs, 1500)
                for a, b in pairs:
                    cases.append(self._perm_case(rng, n, list(a), list(b)))
        return cases

    def _perm_case(self, rng, n, pin, pout):
        k = n - 3
        tl = rng.choice(["t", "hz", None]) if k else None
        names_t = {"t": "t", "hz": "hz", None: "l"}[tl]
        inn = ["i", "j", "k", names_t, "m"][:n]
        outn = space_names("mni") + [names_t if tl else "u", "v"][:k]
        aff = np.eye(n + 1)
        aff[:3, :3] = np.array([[2.0, 0.5, 0], [0, -3.0, 0], [0, 0, 4.0]])
        aff[:3, -1] = [10.0, -20.0, 5.0]
        sc = [2.5, 1.5]
        for j in range(k):
            aff[3 + j, 3 + j] = sc[j]
        if tl == "t":
            aff[3, -1] = 14.0
        shape = [2, 3, 2, 3, 2][:n]
        aff2 = np.eye(n + 1)
        aff2[:n, :] = aff[pout, :]
        aff2[:, :n] = aff2[:, pin]
        outn2 = [outn[r] for r in pout]
        spec = {"space": "mni", "tl": tl, "expect": "ok", "note": [],
                "xyz_rows": [pout.index(r) for r in range(3)],
                "time_row": pout.index(3) if tl else None, "time_col": pin.index(3) if tl else None,
                "extras": [[pin.index(3 + j), pout.index(3 + j)] for j in range(k) if not (tl and j == 0)],
                "plain_xyz": False}
        return {"kind": "img", "strict": True, "fix0": True, "in": [inn[c] for c in pin], "out": outn2,
                "aff": aff2.tolist(), "shape": [shape[c] for c in pin], "dtype": "f8", "formats": [],
                "spec": spec, "malformed": None}

    # ------------------------------------------------------------------
    def run_case(self, case):
        warnings.filterwarnings("ignore")
        return getattr(self, "_run_" + case["kind"])(case)

    def _mk(self, case):
        from nipy.core.api import AffineTransform, CoordinateSystem, Image
        shape = case["shape"]
        data = np.arange(int(np.prod(shape)), dtype=float).reshape(shape)
        cmap = AffineTransform(CoordinateSystem(case["in"], "voxels"), CoordinateSystem(case["out"], "world"),
                               np.array(case["aff"]))
        return Image(data, cmap), data

    def _run_img(self, c):
        from nipy.io import nifti_ref as nr
        spec = c["spec"]
        img, data = self._mk(c)
        aff_before = np.array(c["aff"]).tobytes()
        tags = ["img", f"ndim={len(c['shape'])}", "expect=" + spec["expect"]]
        if c["malformed"]:
            tags.append("malformed=" + c["malformed"])
        head = f"{int(c['strict'])} {int(c['fix0'])} {_img_tokens(c['in'], c['out'], c['aff'], c['shape'])}"
        lines, impl = [], []
        fail = None
        with _Recorder() as rec:
            try:
                ni = nr.nipy2nifti(img, data_dtype=c["dtype"], strict=c["strict"], fix0=c["fix0"])
                out = ("hdr", _hdr_obs(ni), np.asarray(ni.get_fdata()).ravel().tolist())
            except Exception as e:   # NiftiError is a refusal; anything else is observed too
                ni, out = None, ("err", errname(e), f"{type(e).__name__}: {e}")
        table = rec.table()
        lines.append(f"save {head} {table}")
        impl.append(out)
        mut = None
        if np.asarray(img.coordmap.affine).tobytes() != aff_before or \
                not np.array_equal(img.get_fdata(), np.arange(data.size, dtype=float).reshape(c["shape"])):
            mut = "nipy2nifti:img"
        if any(v.split().count("-") >= 2 for v in rec.calls.values()):
            # two input axes without a matching output (two zero scalings, outside the quantifier):
            # as_xyz_image orders them with np.argsort on equal keys, whose tie order NumPy does not
            # define; the model (stable order) is not compared on these.
            tags.append("argsort-tie-not-compared")
            return {"lines": [], "impl": [], "oracle": None, "nontrivial": False, "tags": tags, "mutated": mut}
        if ni is None:
            tags.append("refused" if out[1] == "error:niftiError" else "raised-" + out[1])
            if spec["expect"] in ("ok", "ok-approx"):
                fail = (f"nipy2nifti raised {out[2]} for an image whose geometry NIfTI can express "
                        f"(in={c['in']} out={c['out']} shape={c['shape']})")
            return {"lines": lines, "impl": impl, "oracle": fail, "nontrivial": True, "tags": tags, "mutated": mut}
        tags.append("written")
        if spec["expect"] == "refuse":
            fail = (f"nipy2nifti wrote an image whose geometry NIfTI cannot express ({c['malformed']}: "
                    f"in={c['in']} out={c['out']}) instead of raising NiftiError")
        # load side: model answers from the implementation's own header
        try:
            back = nr.nifti2nipy(ni)
            lines.append(_load_line(out[1]))
            impl.append(("img", _img_obs(back), np.asarray(back.get_fdata()).ravel().tolist()))
        except Exception as e:
            back = None
            lines.append(_load_line(out[1]))
            impl.append(("err", errname(e), str(e)))
            fail = fail or f"nifti2nipy raised {type(e).__name__}: {e} on the image nipy2nifti produced"
        if fail is None and back is not None and spec["expect"] in ("ok", "ok-approx"):
            ktol = 1e-9 if spec["expect"] == "ok" and spec["space"] != "unknown" else 1e-4
            fail = _compare_images(img, back, spec, ktol, 0.0, "in-memory round trip")
            if fail is None and not spec["plain_xyz"]:
                want = space_names(spec["space"])
                got = list(back.coordmap.function_range.coord_names[:3])
                if got != want:
                    fail = f"in-memory round trip: space {want} became {got}"
            if fail is None and spec["tl"]:
                got = back.coordmap.function_range.coord_names[3]
                if got != spec["tl"]:
                    fail = f"in-memory round trip: time-like axis '{spec['tl']}' became '{got}'"
            if fail is None and not spec["tl"] and len(c["shape"]) > 3:
                got = back.coordmap.function_range.coord_names[3]
                if got in ("t", "hz", "ppm", "rads"):
                    fail = f"in-memory round trip: an image without time-like axis got axis '{got}'"
        if fail is None and c["formats"] and spec["expect"] == "ok":
            fail = self._files(c, img, spec, tags)
        nontrivial = len(c["shape"]) > 3 or c["in"][:3] != ["i", "j", "k"] or spec["xyz_rows"] != [0, 1, 2]
        return {"lines": lines, "impl": impl, "oracle": fail, "nontrivial": nontrivial, "tags": tags, "mutated": mut}

    def _files(self, c, img, spec, tags):
        from nipy.io.api import load_image, save_image
        tmp = tempfile.mkdtemp(prefix="c03-")
        try:
            data = np.asarray(img.get_fdata())
            rng_ = float(data.max() - data.min()) if data.size else 0.0
            dt = np.dtype(c["dtype"])
            vtol = 1e-6 * max(1.0, rng_) if dt.kind == "f" else max(rng_ / (2.0 ** (8 * dt.itemsize) - 2), 0) + 1e-6
            for ext in c["formats"]:
                p = os.path.join(tmp, "im" + ext)
                try:
                    save_image(img, p, dtype_from=c["dtype"])
                    back = load_image(p)
                    _ = back.get_fdata()
                except Exception as e:
                    return (f"save/load through {ext} ({c['dtype']}) raised {type(e).__name__}: "
                            + str(e).replace(tmp, "<tmp>"))
                tags.append("file" + ext)
                d = _compare_images(img, back, spec, 1e-5, vtol, f"round trip through {ext} ({c['dtype']})",
                                    only_xyz=(ext == ".img"))
                if d is None and ext != ".img" and not spec["plain_xyz"]:
                    got = list(back.coordmap.function_range.coord_names[:3])
                    if got != space_names(spec["space"]):
                        d = f"round trip through {ext}: space {space_names(spec['space'])} became {got}"
                if d is None and ext != ".img" and spec["tl"] and \
                        back.coordmap.function_range.coord_names[3] != spec["tl"]:
                    d = (f"round trip through {ext}: time-like axis '{spec['tl']}' became "
                         f"'{back.coordmap.function_range.coord_names[3]}'")
                if d:
                    return d
            return None
        finally:
            shutil.rmtree(tmp, ignore_errors=True)

    def _run_ftl(self, c):
        from nipy.io import nifti_ref as nr
        img, _ = self._mk(c)
        with _Recorder() as rec:
            try:
                r = nr._find_time_like(img.coordmap, c["fix0"])
                out = ("tl", "ok none" if r[0] is None else
                       f"ok {int(r[0])} {'-' if r[1] is None else int(r[1])} {r[2]}")
            except Exception as e:
                out = ("tl", errname(e))
        line = f"ftl {int(c['fix0'])} {_img_tokens(c['in'], c['out'], c['aff'], c['shape'])} {rec.table()}"
        fail = None
        if out[1].startswith("ok ") and out[1] != "ok none":
            # never both names: the name returned is the canonical name of the input axis or of the output axis
            parts = out[1].split()
            ia, oa, nm = int(parts[1]), parts[2], parts[3]
            canon = {a: k for k, v in TL_NAMES.items() for a in v}
            names = {canon.get(c["in"][ia])} | ({canon.get(c["out"][int(oa)])} if oa != "-" else set())
            names.discard(None)
            if names != {nm}:
                fail = f"_find_time_like returned {out[1]} for in={c['in']} out={c['out']}: axis types {names}"
        return {"lines": [line], "impl": [out], "oracle": fail, "nontrivial": True,
                "tags": ["ftl", "ftl-" + out[1].split()[0].replace("error:", "")], "mutated": None}

    def _run_raw(self, c):
        import nibabel as nib
        from nipy.io import nifti_ref as nr
        shape = c["shape"]
        data = np.arange(int(np.prod(shape)), dtype=float).reshape(shape)
        aff = np.eye(4)
        aff[:3, :3] = c["A"]; aff[:3, 3] = c["t"]
        hdr = nib.Nifti1Header()
        hdr.set_data_shape(shape)
        hdr.set_sform(aff, c["sform"])
        hdr.set_qform(aff, c["qform"])
        su = None if c["sunits"] == "unknown" else c["sunits"]
        tu = None if c["tunits"] == "unknown" else c["tunits"]
        hdr.set_xyzt_units(su, tu)
        hdr.set_dim_info(*c["diminfo"])
        hdr["toffset"] = c["toffset"]
        ni = nib.Nifti1Image(data, aff, hdr)
        if len(shape) > 3:
            ni.header["pixdim"][4:4 + len(shape) - 3] = c["pixdim"]
        o = _hdr_obs(ni)
        try:
            back = nr.nifti2nipy(ni)
            out = ("img", _img_obs(back), np.asarray(back.get_fdata()).ravel().tolist())
        except Exception as e:
            out = ("err", errname(e), str(e))
        fail = None
        if len(shape) >= 3 and out[0] == "err":
            fail = f"nifti2nipy raised {out[2]} on a {len(shape)}-D NIfTI image"
        return {"lines": [_load_line(o)], "impl": [out], "oracle": fail, "nontrivial": len(shape) >= 3,
                "tags": ["raw", f"raw-ndim={len(shape)}", "raw-" + out[0]], "mutated": None,
                }

    # ------------------------------------------------------------------
    @staticmethod
    def _sections(s, keys):
        toks = s.split()
        out, cur = {}, None
        for t in toks[1:]:
            if t in keys and t not in out:
                cur = t; out[cur] = []
            elif cur is not None:
                out[cur].append(t)
        return out

    def compare(self, case, impl_obs, model_out):
        kind = impl_obs[0]
        if kind == "tl":
            return None if impl_obs[1] == model_out else f"impl={impl_obs[1]!r} model={model_out!r}"
        if kind == "err":
            return None if impl_obs[1] == model_out else f"impl raised {impl_obs[2][:120]!r} model={model_out[:120]!r}"
        if not model_out.startswith("ok "):
            return f"impl returned a result, model says {model_out[:80]}"
        if kind == "hdr":
            o, flat = impl_obs[1], impl_obs[2]
            m = self._sections(model_out, ["shape", "axes", "aff", "codes", "pixdim", "toffset", "units", "diminfo"])
            if [int(x) for x in m["shape"]] != o["shape"]:
                return f"shape impl={o['shape']} model={m['shape']}"
            ma = parse_rats(" ".join(m["aff"]))
            if len(ma) != 16 or any(not close(a, b, 1e-12, 1e-12) for a, b in zip(o["aff"], ma)):
                return f"affine impl={o['aff']} model={[float(x) for x in ma]}"
            if [int(x) for x in m["codes"]] != [o["sform"], o["qform"]]:
                return f"codes impl={[o['sform'], o['qform']]} model={m['codes']}"
            mp = parse_rats(" ".join(m["pixdim"]))
            if len(mp) != len(o["pixdim"]) or any(not close(a, b, 1e-6, 1e-9) for a, b in zip(o["pixdim"], mp)):
                return f"pixdim impl={o['pixdim']} model={[float(x) for x in mp]}"
            if not close(o["toffset"], parse_rats(m["toffset"][0])[0], 1e-6, 1e-9):
                return f"toffset impl={o['toffset']} model={m['toffset']}"
            if m["units"] != [o["sunits"], o["tunits"]]:
                return f"units impl={[o['sunits'], o['tunits']]} model={m['units']}"
            if m["diminfo"] != ["-" if v is None else str(v) for v in o["diminfo"]]:
                return f"dim_info impl={o['diminfo']} model={m['diminfo']}"
            # data: the model says which original axis each array axis is
            src = np.arange(int(np.prod(case["shape"])), dtype=float).reshape(case["shape"])
            axes = [None if a == "-" else int(a) for a in m["axes"]]
            real = [a for a in axes if a is not None]
            if sorted(real) != list(range(src.ndim)):
                return f"model axes {axes} are not a permutation"
            exp = np.transpose(src, real)
            for k, a in enumerate(axes):
                if a is None:
                    exp = np.expand_dims(exp, k)
            if list(exp.shape) != o["shape"] or exp.ravel().tolist() != flat:
                return f"data: implementation's array is not the transposition {axes} of the input"
            return None
        if kind == "img":
            o, flat = impl_obs[1], impl_obs[2]
            m = self._sections(model_out, ["in", "out", "aff", "shape", "axes"])
            if m["in"] != o["in"] or m["out"] != o["out"]:
                return f"names impl={o['in']}->{o['out']} model={m['in']}->{m['out']}"
            if [int(x) for x in m["shape"]] != o["shape"]:
                return f"shape impl={o['shape']} model={m['shape']}"
            ma = parse_rats(" ".join(m["aff"]))
            if len(ma) != len(o["aff"]) or any(not close(a, b, 1e-6, 1e-12) for a, b in zip(o["aff"], ma)):
                return f"affine impl={o['aff']} model={[float(x) for x in ma]}"
            return None
        return "unknown observation kind"

    # ------------------------------------------------------------------
    def shrink(self, case):
        if case.get("formats"):
            for f in case["formats"]:
                c = dict(case); c["formats"] = [f]
                if c != case:
                    yield c
        if case["kind"] in ("img", "ftl"):
            for i, s in enumerate(case["shape"]):
                if s > 1:
                    c = dict(case); c["shape"] = case["shape"][:i] + [s - 1] + case["shape"][i + 1:]
                    if case["kind"] == "img" and case["spec"]["space"] == "unknown":
                        continue       # the base affine depends on the shape
                    yield c

    def classify(self, case, failure):
        return None


CHECK = C03()
