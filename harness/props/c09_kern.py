"""C09 extension — translator for the C kernels: regenerates `lean/NipyVerif/Gen/C09Kernel.lean` from the
*text* of nipy/algorithms/registration/joint_histogram.c (macros FLOOR / UROUND / ROUND, the inside
test, the neighbour offsets and the hand-derived weight algebra behind APPEND_NEIGHBOR, the dispatch on
`interp`) and wichmann_prng.c (the four Schrage recurrences, the wrap-around constants, the returned
value).  `Props/C09D.lean` proves that the generated definitions are the ones the hand-written model
uses, so the theorems are re-checked against what the C says now.

A tiny C-expression translator: identifiers, numeric literals, `+ - * / %`, comparisons, `&&`, `?:`,
the cast `(int)`, calls of the macros.  Two target types: `Rat` (doubles) and `Int`.
"""
from __future__ import annotations

import os
import re
from fractions import Fraction


class CParseError(Exception):
    pass


TOK = re.compile(r"\s*(?:(\d+\.\d*(?:[eE][-+]?\d+)?|\.\d+|\d+[eE][-+]?\d+|\d+)|([A-Za-z_][A-Za-z_0-9]*(?:->[A-Za-z_]\w*)?)|"
                 r"(>=|<=|==|!=|&&|\|\||[-+*/%()?:<>!,]))")


def tokenize(src):
    out, pos = [], 0
    src = src.strip()
    while pos < len(src):
        m = TOK.match(src, pos)
        if not m:
            raise CParseError(f"cannot tokenize {src[pos:pos + 20]!r}")
        if m.group(1):
            out.append(("num", m.group(1)))
        elif m.group(2):
            out.append(("id", m.group(2)))
        else:
            out.append(("op", m.group(3)))
        pos = m.end()
    return out


class Parser:
    """AST: ('num', text) ('id', name) ('bin', op, a, b) ('neg', a) ('not', a) ('cast', a) ('call', f, [args])
    ('tern', c, a, b)"""

    def __init__(self, toks):
        self.t, self.i = toks, 0

    def peek(self):
        return self.t[self.i] if self.i < len(self.t) else (None, None)

    def eat(self, val=None):
        k, v = self.peek()
        if val is not None and v != val:
            raise CParseError(f"expected {val!r}, found {v!r}")
        self.i += 1
        return k, v

    def parse(self):
        e = self.ternary()
        if self.i != len(self.t):
            raise CParseError(f"trailing tokens {self.t[self.i:]}")
        return e

    def ternary(self):
        c = self.binary(0)
        if self.peek()[1] == "?":
            self.eat("?")
            a = self.ternary()
            self.eat(":")
            b = self.ternary()
            return ("tern", c, a, b)
        return c

    LEVELS = [["||"], ["&&"], ["==", "!="], [">", "<", ">=", "<="], ["+", "-"], ["*", "/", "%"]]

    def binary(self, lvl):
        if lvl == len(self.LEVELS):
            return self.unary()
        a = self.binary(lvl + 1)
        while self.peek()[0] == "op" and self.peek()[1] in self.LEVELS[lvl]:
            op = self.eat()[1]
            b = self.binary(lvl + 1)
            a = ("bin", op, a, b)
        return a

    def unary(self):
        k, v = self.peek()
        if v == "-":
            self.eat()
            return ("neg", self.unary())
        if v == "!":
            self.eat()
            return ("not", self.unary())
        if v == "(" and self.i + 2 < len(self.t) and self.t[self.i + 1] == ("id", "int") and self.t[self.i + 2] == ("op", ")"):
            self.i += 3
            return ("cast", self.unary())
        return self.primary()

    def primary(self):
        k, v = self.eat()
        if k == "num":
            return ("num", v)
        if k == "id":
            if self.peek()[1] == "(":
                self.eat("(")
                args = []
                if self.peek()[1] != ")":
                    args.append(self.ternary())
                    while self.peek()[1] == ",":
                        self.eat(",")
                        args.append(self.ternary())
                self.eat(")")
                return ("call", v, args)
            return ("id", v)
        if v == "(":
            e = self.ternary()
            self.eat(")")
            return e
        raise CParseError(f"unexpected token {v!r}")


def cparse(src):
    return Parser(tokenize(src)).parse()


def lean_name(n):
    return n.replace("rng->", "")


def emit(e, ty, macros=()):
    """Lean text of expression `e` at type `ty` ('Rat' doubles / 'Int' C ints on which `/`, `%` truncate)"""
    k = e[0]
    if k == "num":
        f = Fraction(e[1].rstrip("."))
        if ty == "Int":
            if f.denominator != 1:
                raise CParseError(f"non-integer literal {e[1]} in an int expression")
            return f"({f.numerator} : Int)"
        return f"({f.numerator} : Rat)" if f.denominator == 1 else f"(({f.numerator} : Rat) / {f.denominator})"
    if k == "id":
        return lean_name(e[1])
    if k == "neg":
        return f"(-{emit(e[1], ty, macros)})"
    if k == "cast":      # (int) of a double
        inner = emit(e[1], "Rat", macros)
        return f"(truncC {inner})" if ty == "Int" else f"((truncC {inner} : Int) : Rat)"
    if k == "call":
        if e[1] not in macros:
            raise CParseError(f"call of {e[1]} (not a translated macro)")
        return "(" + e[1] + " " + " ".join(emit(a, "Rat", macros) for a in e[2]) + ")"
    if k == "tern":
        return f"(if {emit_prop(e[1], ty, macros)} then {emit(e[2], ty, macros)} else {emit(e[3], ty, macros)})"
    if k == "bin":
        op, a, b = e[1:]
        if op in ("+", "-", "*"):
            return f"({emit(a, ty, macros)} {op} {emit(b, ty, macros)})"
        if op == "/":
            return f"(Int.tdiv {emit(a, ty, macros)} {emit(b, ty, macros)})" if ty == "Int" else \
                f"({emit(a, ty, macros)} / {emit(b, ty, macros)})"
        if op == "%":
            if ty != "Int":
                raise CParseError("% on doubles")
            return f"(Int.tmod {emit(a, ty, macros)} {emit(b, ty, macros)})"
    raise CParseError(f"cannot translate {e} as a {ty} value")


def emit_prop(e, ty, macros=()):
    k = e[0]
    if k == "bin" and e[1] in (">", "<", ">=", "<=", "==", "!="):
        op = {">": ">", "<": "<", ">=": "≥", "<=": "≤", "==": "=", "!=": "≠"}[e[1]]
        return f"({emit(e[2], ty, macros)} {op} {emit(e[3], ty, macros)})"
    if k == "bin" and e[1] == "&&":
        return f"({emit_prop(e[2], ty, macros)} ∧ {emit_prop(e[3], ty, macros)})"
    if k == "bin" and e[1] == "||":
        return f"({emit_prop(e[2], ty, macros)} ∨ {emit_prop(e[3], ty, macros)})"
    if k == "not":
        return f"(¬ {emit_prop(e[1], ty, macros)})"
    raise CParseError(f"not a condition: {e}")


def strip_comments(src):
    return re.sub(r"/\*.*?\*/", " ", src, flags=re.S)


def translate(repo, TieBroken):
    def read(rel):
        p = os.path.join(repo, rel)
        try:
            return strip_comments(open(p).read())
        except OSError as e:
            raise TieBroken(f"cannot read {p}: {e}")
    rel = "nipy/algorithms/registration/joint_histogram.c"
    src = read(rel)
    L = ["/- GENERATED by harness/props/c09_kern.py from the text of /repo:",
         "   nipy/algorithms/registration/joint_histogram.c and wichmann_prng.c.  Do not edit. -/",
         "namespace NipyVerif.C09.Kern", "",
         "/-- C `(int)a` for a double in `int` range: truncation toward zero -/",
         "def truncC (a : Rat) : Int := if 0 ≤ a then a.floor else -((-a).floor)", ""]
    try:
        # ---- macros ------------------------------------------------------
        macros = []
        for name in ("FLOOR", "UROUND", "ROUND"):
            m = re.search(r"#define\s+" + name + r"\((\w+)\)\s*(.*)", src)
            if not m:
                raise TieBroken(f"{rel}: macro {name} not found")
            arg, body = m.group(1), m.group(2).strip()
            L += [f"/-- `#define {name}({arg}) {body}` -/",
                  f"def {name} ({arg} : Rat) : Rat := {emit(cparse(body), 'Rat', macros)}"]
            macros.append(name)
        m = re.search(r"#define\s+APPEND_NEIGHBOR\(q,\s*w\)\s*\\\n(.*?)\n\n", src, re.S)
        body = re.sub(r"[\s\\]+", "", m.group(1)) if m else None
        if body != "j=J[q];if(j>=0){*bufJnn=j;bufJnn++;*bufW=w;bufW++;nn++;}":
            raise TieBroken(f"{rel}: APPEND_NEIGHBOR is not `j = J[q]; if (j>=0) append (j, w)`: {body}")
        # ---- the inside test ---------------------------------------------
        m = re.search(r"if\s*\((\(i>=0\).*?)\)\s*\{", src, re.S)
        if not m:
            raise TieBroken(f"{rel}: inside test not found")
        cond = " ".join(m.group(1).split())
        L += ["", f"/-- `if ({cond})` -/",
              "def insideTest (i Tx Ty Tz dimJX dimJY dimJZ : Rat) : Prop := " + emit_prop(cparse(cond), "Rat")]
        # ---- neighbours: offsets and weights -------------------------------
        decl = dict(re.findall(r"size_t\s+(u\d)\s*=\s*([^;]+);", src))
        if sorted(decl) != ["u2", "u3", "u4", "u5", "u6", "u7"] or \
                decl["u2"].replace(" ", "") != "dimJ[2]" or decl["u4"].replace(" ", "") != "dimJ[1]*u2":
            raise TieBroken(f"{rel}: stride variables u2..u7 not recognised: {decl}")
        blk = re.search(r"nx\s*=\s*FLOOR.*?interpolate\(i,", src, re.S)
        if not blk:
            raise TieBroken(f"{rel}: neighbour block not found")
        stmts = [s.strip() for s in blk.group(0).split(";") if s.strip()]
        lets, offs, ws = [], [], []
        for st in stmts[:-1]:
            m1 = re.match(r"APPEND_NEIGHBOR\((.*),(.*)\)$", st, re.S)
            if m1:
                offs.append(emit(cparse(m1.group(1)), "Rat"))
                ws.append(emit(cparse(m1.group(2)), "Rat", macros))
                continue
            m2 = re.match(r"(\w+)\s*=\s*(.*)$", st, re.S)
            if not m2:
                raise TieBroken(f"{rel}: unexpected statement in the neighbour block: {st!r}")
            if m2.group(1) in ("bufJnn", "bufW", "nn"):
                continue
            lets.append((m2.group(1), emit(cparse(m2.group(2)), "Rat", macros)))
        if len(ws) != 8:
            raise TieBroken(f"{rel}: {len(ws)} APPEND_NEIGHBOR calls, expected 8")
        wl = [(n, v) for n, v in lets if n != "off"]
        L += ["", "/-- the eight neighbour weights, statement by statement as in the C loop body -/",
              "def neighbourWeights (Tx Ty Tz : Rat) : List Rat :="]
        L += [f"  let {n} := {v}" for n, v in wl]
        L += ["  [" + ", ".join(ws) + "]"]
        L += ["", "/-- `off` and the eight flat indices read from the padded image -/",
              "def neighbourOffsets (Tx Ty Tz u2 u4 : Rat) : List Rat :="]
        L += [f"  let {n} := {emit(cparse(decl[n]), 'Rat')}" for n in ("u3", "u5", "u6", "u7")]
        L += [f"  let {n} := {v}" for n, v in lets if n in ("nx", "ny", "nz", "off")]
        L += ["  [" + ", ".join(offs) + "]"]
        # ---- dispatch on interp --------------------------------------------
        m = re.search(r"if\s*\(interp==0\)\s*interpolate\s*=\s*&(\w+);\s*else if\s*\(interp>0\)\s*interpolate\s*=\s*&(\w+);"
                      r"\s*else\s*\{\s*interpolate\s*=\s*&(\w+);\s*prng_seed\(([^,]+),", src)
        if not m:
            raise TieBroken(f"{rel}: dispatch on `interp` not recognised")
        L += ["", "/-- `if (interp==0) … else if (interp>0) … else { …; prng_seed(-interp, &rng) }` -/",
              f'def interpolator (interp : Int) : String := if interp = 0 then "{m.group(1)}" else if interp > 0 then '
              f'"{m.group(2)}" else "{m.group(3)}"',
              f"def seedOf (interp : Int) : Int := {emit(cparse(m.group(4)), 'Int')}"]
        if "memset((void*)H, 0, clampI*clampJ*sizeof(double));" not in src:
            raise TieBroken(f"{rel}: the histogram is no longer reset with memset before the loop")
        # ---- loop skeleton: every source voxel is read through the iterator, in iterator order ----
        flat = "".join(src.split())
        for needle in ("if(PyArray_TYPE(iterI->ao)!=NPY_SHORT){fprintf(stderr,\"Invalidtypeforthearrayiterator\\n\");return-1;}"
                       "if((!PyArray_ISCONTIGUOUS(imJ_padded))||(!PyArray_ISCONTIGUOUS(JH))||(!PyArray_ISCONTIGUOUS(Tvox))){",
                       "PyArray_ITER_RESET(iterI);", "while(iterI->index<iterI->size){",
                       "bufI=(signedshort*)PyArray_ITER_DATA(iterI);i=bufI[0];",
                       "Tx=*tvox;tvox++;Ty=*tvox;tvox++;Tz=*tvox;tvox++;",
                       "interpolate(i,H,clampJ,Jnn,W,nn,interp_params);}PyArray_ITER_NEXT(iterI);}return0;}"):
            if flat.count(needle) != 1:
                raise TieBroken(f"{rel}: loop skeleton changed (the model visits the source voxels through the "
                                f"array iterator, one `Tvox` triple per voxel): {needle!r} occurs {flat.count(needle)} times")
        if len(re.findall(r"\bbufI\s*=[^=]", src)) != 1 or len(re.findall(r"\btvox\s*(?:=[^=]|\+=|--)", src)) != 1:
            raise TieBroken(f"{rel}: the source pointer `bufI` / the coordinate pointer `tvox` are assigned elsewhere")
        # ---- wichmann_prng.c -------------------------------------------------
        rel2 = "nipy/algorithms/registration/wichmann_prng.c"
        s2 = read(rel2)
        body = re.search(r"double prng_double\(prng_state\*\s*rng\)\s*\{(.*?)\n\}", s2, re.S)
        if not body:
            raise TieBroken(f"{rel2}: prng_double not found")
        b = body.group(1)
        L += ["", "/-- `prng_double`: the four recurrences with their wrap-around, C integer `/` and `%` -/"]
        for v in ("ix", "iy", "iz", "it"):
            m1 = re.search(r"rng->%s\s*=\s*([^;]*?%%[^;]*);" % v, b)
            m2 = re.search(r"if\s*\(rng->%s\s*<\s*0\)\s*rng->%s\s*=\s*([^;]+);" % (v, v), b)
            if not (m1 and m2):
                raise TieBroken(f"{rel2}: recurrence for {v} not recognised")
            L += [f"def step_{v} ({v} : Int) : Int :=",
                  f"  let {v} := {emit(cparse(m1.group(1)), 'Int')}",
                  f"  if {v} < 0 then {emit(cparse(m2.group(1)), 'Int')} else {v}"]
        mw = re.search(r"W\s*=\s*([^;]+);\s*return\s+([^;]+);", b)
        if not mw:
            raise TieBroken(f"{rel2}: returned value not recognised")
        L += ["def value (ix iy iz it : Rat) : Rat :=", f"  let W := {emit(cparse(' '.join(mw.group(1).split())), 'Rat')}",
              f"  {emit(cparse(mw.group(2)), 'Rat')}"]
    except CParseError as e:
        raise TieBroken(f"C text not in the translated fragment: {e}")
    L += ["", "end NipyVerif.C09.Kern", ""]
    return [("NipyVerif/Gen/C09Kernel.lean", "\n".join(L))]
