"""C07 translator: regenerates lean/NipyVerif/Gen/C07Source.lean from the *text* of
nipy/modalities/fmri/{hemodynamic_models,design_matrix}.py — the basis-suffix table of
`_regressor_names`, the fir / drift / default user-regressor name formats, and the expressions that
build the high-resolution grid, the repetition time and the fir kernels.  `Props/C07Source.lean`
states that these are what the model implements; when the source changes shape or content the
theorems there stop building (a broken obligation), so the proofs are re-examined against the code."""
from __future__ import annotations

import ast
import os


def _lean_str(s: str) -> str:
    out = ['"']
    for ch in s:
        if ch == '"':
            out.append('\\"')
        elif ch == "\\":
            out.append("\\\\")
        elif ch == "\n":
            out.append("\\n")
        elif ch == "\t":
            out.append("\\t")
        else:
            out.append(ch)
    out.append('"')
    return "".join(out)


def _func(tree, name, TieBroken):
    for n in ast.walk(tree):
        if isinstance(n, ast.FunctionDef) and n.name == name:
            return n
    raise TieBroken(f"function {name} not found")


def _assigns(fn, target):
    return [ast.unparse(n.value) for n in ast.walk(fn)
            if isinstance(n, ast.Assign) and any(ast.unparse(t) == target for t in n.targets)]


def translate(repo, TieBroken):
    def parse(rel):
        try:
            return ast.parse(open(os.path.join(repo, rel)).read())
        except Exception as e:  # pragma: no cover
            raise TieBroken(f"{rel} does not parse: {e}")

    hm = parse("nipy/modalities/fmri/hemodynamic_models.py")
    dm = parse("nipy/modalities/fmri/design_matrix.py")

    # --- _regressor_names: if/elif chain over hrf_model ---------------------------------
    fn = _func(hm, "_regressor_names", TieBroken)
    table, fir_fmt = [], None
    node = next((n for n in fn.body if isinstance(n, ast.If)), None)
    while node is not None:
        t = node.test
        if not (isinstance(t, ast.Compare) and ast.unparse(t.left) == "hrf_model" and len(t.ops) == 1
                and isinstance(t.ops[0], ast.Eq) and isinstance(t.comparators[0], ast.Constant)):
            raise TieBroken("_regressor_names: unexpected test " + ast.unparse(t))
        model = t.comparators[0].value
        ret = next((s for s in node.body if isinstance(s, ast.Return)), None)
        if ret is None:
            raise TieBroken(f"_regressor_names: no return for {model!r}")
        v = ret.value
        if isinstance(v, ast.List):
            sfx = []
            for e in v.elts:
                if ast.unparse(e) == "con_name":
                    sfx.append("")
                elif (isinstance(e, ast.BinOp) and isinstance(e.op, ast.Add) and ast.unparse(e.left) == "con_name"
                      and isinstance(e.right, ast.Constant) and isinstance(e.right.value, str)):
                    sfx.append(e.right.value)
                else:
                    raise TieBroken("_regressor_names: unexpected element " + ast.unparse(e))
            table.append((model, sfx))
        elif isinstance(v, ast.ListComp):
            e = v.elt
            ok = (isinstance(e, ast.BinOp) and isinstance(e.op, ast.Add) and ast.unparse(e.left) == "con_name"
                  and isinstance(e.right, ast.BinOp) and isinstance(e.right.op, ast.Mod)
                  and isinstance(e.right.left, ast.Constant) and len(v.generators) == 1
                  and ast.unparse(v.generators[0].iter) == "fir_delays"
                  and ast.unparse(e.right.right) == ast.unparse(v.generators[0].target))
            if not ok or model != "fir":
                raise TieBroken("_regressor_names: unexpected comprehension " + ast.unparse(v))
            fir_fmt = e.right.left.value
        else:
            raise TieBroken("_regressor_names: unexpected return " + ast.unparse(v))
        nxt = node.orelse
        node = nxt[0] if (len(nxt) == 1 and isinstance(nxt[0], ast.If)) else None
    if fir_fmt is None:
        raise TieBroken("_regressor_names: no fir branch")

    # --- _hrf_kernel: the fir kernels ------------------------------------------------------
    fn = _func(hm, "_hrf_kernel", TieBroken)
    fir_kernel = None
    for n in ast.walk(fn):
        if isinstance(n, ast.If) and ast.unparse(n.test) == "hrf_model == 'fir'":
            a = _assigns(n, "hkernel")
            fir_kernel = a[0] if a else None
    if fir_kernel is None:
        raise TieBroken("_hrf_kernel: fir branch not found")

    # --- _sample_condition: the high-resolution grid ---------------------------------------
    fn = _func(hm, "_sample_condition", TieBroken)
    grid = []
    for target in ("n", "tr", "dt", "n_pre", "hr_frametimes", "t_onset", "t_offset"):
        a = _assigns(fn, target)
        grid.append((target, a[0] if a else "<absent>"))
    tmm = [ast.unparse(n.value) for n in ast.walk(fn) if isinstance(n, ast.Assign)
           and ast.unparse(n.targets[0]) == "(t_min, t_max)"]
    grid.append(("t_min, t_max", tmm[0] if tmm else "<absent>"))

    # --- compute_regressor: the repetition time --------------------------------------------
    fn = _func(hm, "compute_regressor", TieBroken)
    a = _assigns(fn, "tr")
    compute_tr = a[0] if a else "<absent>"

    # --- design_matrix: drift names, default user names, polynomial normalisation -----------
    fn = _func(dm, "_make_drift", TieBroken)
    a = _assigns(fn, "names")
    drift_names = a[0] if a else "<absent>"
    appended = [ast.unparse(n.args[0]) for n in ast.walk(fn) if isinstance(n, ast.Call)
                and ast.unparse(n.func) == "names.append" and n.args]
    fn = _func(dm, "make_dmtx", TieBroken)
    a = _assigns(fn, "add_reg_names")
    default_names = a[0] if a else "<absent>"
    fn = _func(dm, "_poly_drift", TieBroken)
    a = _assigns(fn, "tmax")
    poly_tmax = a[0] if a else "<absent>"
    fn = _func(dm, "_cosine_drift", TieBroken)
    a = _assigns(fn, "order")
    cos_order = a[0] if a else "<absent>"
    # the columns themselves: normalisation, sample index, the loop over k and the constant column
    cos_exprs = []
    for target in ("len_tim", "n_times", "nfct", "cdrift[:, k - 1]", "cdrift[:, order - 1]"):
        a = _assigns(fn, target)
        cos_exprs.append((target, a[-1] if a else "<absent>"))
    loops = [ast.unparse(n.iter) for n in ast.walk(fn) if isinstance(n, ast.For)]
    cos_exprs.append(("for k in", loops[0] if len(loops) == 1 else "<absent>"))

    L = ["/- GENERATED by harness/props/c07_translate.py from the text of",
         "   nipy/modalities/fmri/hemodynamic_models.py and design_matrix.py.  Do not edit. -/",
         "namespace NipyVerif.C07.Gen", "",
         "/-- `_regressor_names`: haemodynamic model ↦ suffixes appended to the condition name -/",
         "def suffixTable : List (String × List String) :=\n  [" + ",\n   ".join(
             f"({_lean_str(m)}, [{', '.join(_lean_str(x) for x in sfx)}])" for m, sfx in table) + "]",
         f"def firNameFormat : String := {_lean_str(fir_fmt)}",
         f"def firKernelExpr : String := {_lean_str(fir_kernel)}",
         "/-- assignments of `_sample_condition` that build the grid and the indices -/",
         "def gridExprs : List (String × String) :=\n  [" + ",\n   ".join(
             f"({_lean_str(t)}, {_lean_str(v)})" for t, v in grid) + "]",
         f"def computeTrExpr : String := {_lean_str(compute_tr)}",
         f"def driftNamesExpr : String := {_lean_str(drift_names)}",
         "def driftNamesAppended : List String := [" + ", ".join(_lean_str(x) for x in appended) + "]",
         f"def defaultRegNamesExpr : String := {_lean_str(default_names)}",
         f"def polyTmaxExpr : String := {_lean_str(poly_tmax)}",
         f"def cosineOrderExpr : String := {_lean_str(cos_order)}",
         "/-- assignments of `_cosine_drift` that build the columns -/",
         "def cosineExprs : List (String × String) :=\n  [" + ",\n   ".join(
             f"({_lean_str(t)}, {_lean_str(v)})" for t, v in cos_exprs) + "]",
         "", "end NipyVerif.C07.Gen", ""]
    from harness.props import c07_expr
    return [("NipyVerif/Gen/C07Source.lean", "\n".join(L)), c07_expr.translate_exprs(repo, TieBroken)]
