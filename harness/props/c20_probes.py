"""C20 direct probes: public routines called with C / Fortran / strided / reversed /
read-only / singleton / empty inputs; the observation is (mutated argument | None,
exception class | None).  A Python exception is an accepted refusal; a mutation of
caller data (unless the routine is documented in place) or an interpreter crash
is a violation of C20."""
from __future__ import annotations

import os

import numpy as np

from harness.util import Snapshot

LAYOUTS = ["C", "F", "strided", "reversed", "readonly", "bigendian", "subclass", "memmap"]
PROBES = {}
_TMPDIRS = []


def probe(name, sizes=(6, 1, 0)):
    def deco(f):
        PROBES[name] = (f, sizes)
        return f
    return deco


class Sub(np.ndarray):
    """a plain ndarray subclass (array-likes of this kind reach the routines through np.asarray)"""


def _cleanup():
    import shutil
    while _TMPDIRS:
        shutil.rmtree(_TMPDIRS.pop(), ignore_errors=True)


def lay(a, layout):
    """Return an array equal to `a` with the requested memory layout / flavour."""
    a = np.asarray(a)
    if layout == "C":
        return np.ascontiguousarray(a).copy()
    if layout == "F":
        return np.asfortranarray(a).copy(order="F")
    if layout == "strided":
        big = np.zeros(tuple(2 * s for s in a.shape), dtype=a.dtype)
        v = big[tuple(slice(None, None, 2) for _ in a.shape)]
        v[...] = a
        return v
    if layout == "reversed":
        big = a[tuple(slice(None, None, -1) for _ in a.shape)].copy()
        return big[tuple(slice(None, None, -1) for _ in a.shape)]
    if layout == "readonly":
        b = np.ascontiguousarray(a).copy()
        b.setflags(write=False)
        return b
    if layout == "bigendian":        # non-native byte order (data read from big-endian files)
        if a.dtype.kind in "iuf" and a.dtype.itemsize > 1:
            return np.ascontiguousarray(a).astype(a.dtype.newbyteorder(">"))
        return np.ascontiguousarray(a).copy()
    if layout == "subclass":
        return np.ascontiguousarray(a).copy().view(Sub)
    if layout == "memmap":           # a writable memory map: an in-place routine would change the file
        import atexit
        import tempfile
        if a.size == 0:
            return np.ascontiguousarray(a).copy()
        if not _TMPDIRS:
            atexit.register(_cleanup)
        d = tempfile.mkdtemp(prefix="c20mm-")
        _TMPDIRS.append(d)
        m = np.memmap(os.path.join(d, "a.dat"), dtype=a.dtype, mode="w+", shape=a.shape)
        m[...] = a
        m.flush()
        return m
    raise ValueError(layout)


def call(fn, **objs):
    """Run `fn`: a thunk, a list of thunks, or a list of (qualified routine name, thunk), each run independently
    with its own snapshot of the caller's objects.  Returns
      (name of the first modified argument | None, '+'-joined exception class names | None,
       [(routine | None, modified argument | None) per thunk])."""
    excs, events, first = [], [], None
    for item in (fn if isinstance(fn, (list, tuple)) else [fn]):
        routine, f = item if isinstance(item, tuple) else (None, item)
        snap = Snapshot(**objs)
        try:
            f()
        except Exception as e:  # accepted refusal
            excs.append(type(e).__name__)
            if os.environ.get("C20_PROBE_DEBUG"):
                import traceback
                print("PROBE-EXC", routine, "".join(traceback.format_exception_only(type(e), e)).strip()[:300],
                      "@", traceback.extract_tb(e.__traceback__)[-1][:3])
        ch = snap.changed()
        events.append((routine, ch))
        if ch and first is None:
            first = ch
    _cleanup()        # the files behind memory-mapped inputs (unlinking them does not disturb the live maps)
    return first, ("+".join(sorted(set(excs))) or None), events


def each(*fs):
    """run every thunk (so that one refusal does not hide the routines after it); the first exception is re-raised"""
    first = None
    for f in fs:
        try:
            f()
        except Exception as e:
            first = first or e
    if first is not None:
        raise first


def forked(f, timeout=60):
    """run f() in a forked child: ('ok', None) | ('exc', class name) | ('crash', signal) | ('hang', None)"""
    import signal
    import time
    pid = os.fork()
    if pid == 0:
        code = 0
        try:
            try:
                f()
            except Exception:
                code = 7
        finally:
            os._exit(code)
    t0 = time.time()
    while True:
        done, status = os.waitpid(pid, os.WNOHANG)
        if done:
            break
        if time.time() - t0 > timeout:
            os.kill(pid, signal.SIGKILL)
            os.waitpid(pid, 0)
            return "hang", None
        time.sleep(0.01)
    if os.WIFSIGNALED(status):
        return "crash", os.WTERMSIG(status)
    return ("exc", None) if os.WEXITSTATUS(status) == 7 else ("ok", None)


def rs(v):
    return np.random.RandomState(v["seed"])


# ---------------------------------------------------------------- statistics
@probe("regression.yule_walker")
def _(v):
    from nipy.algorithms.statistics.models.regression import yule_walker
    X = lay(rs(v).randint(-5, 6, size=v["n"] + 3).astype(float), v["layout"])
    return call(lambda: yule_walker(X, order=2), X=X)


@probe("regression.OLSModel.fit")
def _(v):
    from nipy.algorithms.statistics.models.regression import OLSModel
    r = rs(v); n = v["n"] + 3
    X = lay(np.column_stack([np.ones(n), r.randint(-3, 4, size=n)]).astype(float), v["layout"])
    Y = lay(r.randint(-5, 6, size=(n, 2)).astype(float), v["layout"])
    return call(lambda: OLSModel(X).fit(Y), X=X, Y=Y)


@probe("regression.ARModel.fit")
def _(v):
    from nipy.algorithms.statistics.models.regression import ARModel
    r = rs(v); n = v["n"] + 4
    X = lay(np.column_stack([np.ones(n), np.arange(n)]).astype(float), v["layout"])
    Y = lay(r.randint(-5, 6, size=n).astype(float), v["layout"])
    rho = np.array([0.25])
    return call(lambda: ARModel(X, rho).fit(Y), X=X, Y=Y, rho=rho)


@probe("utils.multiple_mahalanobis")
def _(v):
    from nipy.algorithms.statistics.utils import multiple_mahalanobis
    r = rs(v); k = max(v["n"], 1)
    eff = lay(r.randint(-3, 4, size=(3, k)).astype(float), v["layout"])
    A = r.randint(-2, 3, size=(k, 3, 3)).astype(float)
    cov = np.einsum("kij,klj->ilk", A, A) + 3 * np.eye(3)[:, :, None]
    cov = lay(cov, v["layout"])
    return call(lambda: multiple_mahalanobis(eff, cov), eff=eff, cov=cov)


@probe("utils.z_score")
def _(v):
    from nipy.algorithms.statistics.utils import z_score
    p = lay(rs(v).rand(v["n"]), v["layout"])
    return call(lambda: z_score(p), p=p)


@probe("empirical_pvalue.fdr")
def _(v):
    from nipy.algorithms.statistics.empirical_pvalue import fdr, fdr_threshold
    p = lay(rs(v).rand(v["n"]), v["layout"])
    return call(lambda: (fdr(p), fdr_threshold(p, 0.2)), p=p)


@probe("onesample.estimate_mean")
def _(v):
    from nipy.algorithms.statistics.onesample import estimate_mean, estimate_varatio
    r = rs(v)
    Y = lay(r.randn(4, v["n"]), v["layout"]); sd = lay(1 + r.rand(4, v["n"]), v["layout"])
    return call(lambda: (estimate_mean(Y, sd), estimate_varatio(Y, sd)), Y=Y, sd=sd)


@probe("onesample.estimate_varatio(df)")
def _(v):
    from nipy.algorithms.statistics.onesample import estimate_varatio
    r = rs(v)
    Y = lay(r.randn(4, v["n"]), v["layout"]); sd = lay(1 + r.rand(4, v["n"]), v["layout"])
    df = lay(np.array([3., 5., 2., 30.]), v["layout"])
    return call(lambda: estimate_varatio(Y, sd, df=df, niter=3), Y=Y, sd=sd, df=df)


@probe("mixed_effects_stat.one_sample_ttest")
def _(v):
    from nipy.algorithms.statistics.mixed_effects_stat import one_sample_ttest
    r = rs(v)
    Y = lay(r.randn(6, v["n"]), v["layout"]); V1 = lay(1 + r.rand(6, v["n"]), v["layout"])
    return call(lambda: one_sample_ttest(Y, V1, n_iter=3), Y=Y, V1=V1)


@probe("_quantile.quantile+median")
def _(v):
    from nipy.algorithms.statistics import quantile, median
    X = lay(rs(v).randint(-9, 10, size=(v["n"], 3)).astype(float), v["layout"])
    return call(lambda: (quantile(X, 0.3, axis=0), median(X, axis=0)), X=X)


@probe("histogram.histogram")
def _(v):
    from nipy.algorithms.statistics.histogram import histogram
    x = lay(rs(v).randint(0, 7, size=(v["n"], 2)).astype(np.uintp), v["layout"])
    return call(lambda: histogram(x), x=x)


@probe("intvol.EC3d+Lips3d")
def _(v):
    from nipy.algorithms.statistics import intvol
    r = rs(v); n = max(v["n"] // 2, 1) if v["n"] else 0
    m = lay(r.randint(0, 2, size=(n, 3, 2)), v["layout"])
    c = lay(np.indices((n, 3, 2)).astype(float), v["layout"])
    return call(lambda: (intvol.EC3d(m), intvol.Lips3d(c, m)), m=m, c=c)


@probe("intvol.EC2d+Lips2d+EC1d+Lips1d")
def _(v):
    from nipy.algorithms.statistics import intvol
    r = rs(v); n = v["n"]
    m2 = lay(r.randint(0, 2, size=(n, 3)), v["layout"]); c2 = lay(np.indices((n, 3)).astype(float), v["layout"])
    m1 = lay(r.randint(0, 2, size=(n,)), v["layout"]); c1 = lay(np.indices((n,)).astype(float), v["layout"])
    return call(lambda: (intvol.EC2d(m2), intvol.Lips2d(c2, m2), intvol.EC1d(m1), intvol.Lips1d(c1, m1)),
                m2=m2, c2=c2, m1=m1, c1=c1)


# ---------------------------------------------------------------- utils / diagnostics
@probe("pca.pca")
def _(v):
    from nipy.algorithms.utils.pca import pca
    r = rs(v); n = v["n"] + 2
    d = lay(r.randn(n, 3, 2), v["layout"]); mask = lay(r.randint(0, 2, size=(3, 2)), v["layout"])
    # weight masks as callers hold them: floating point, with non-finite entries, 3-D, 1-D
    d4 = lay(r.randn(n, 3, 2, 2), v["layout"])
    fm = r.randint(0, 2, size=(3, 2, 2)).astype(float)
    fm[0, 0, 0], fm[1, 1, 0], fm[2, 0, 1] = np.nan, np.inf, 1.0
    fmask = lay(fm, v["layout"])
    d2 = lay(r.randn(n, 4), v["layout"])
    m1 = lay(np.array([1.0, np.nan, 0.0, 1.0]), v["layout"])
    return call([("pca", lambda: pca(d, axis=0, mask=mask, ncomp=2)),
                 ("pca", lambda: pca(d4, axis=0, mask=fmask, ncomp=2)),
                 ("pca", lambda: pca(d4, axis=0, mask=fmask.astype(np.float32), ncomp=1)),
                 ("pca", lambda: pca(d2, axis=0, mask=m1, ncomp=1))],
                d=d, mask=mask, d4=d4, fmask=fmask, d2=d2, m1=m1)


@probe("timediff.time_slice_diffs")
def _(v):
    from nipy.algorithms.diagnostics.timediff import time_slice_diffs
    d = lay(rs(v).randint(0, 9, size=(3, 2, 2, v["n"])).astype(float), v["layout"])
    return call(lambda: time_slice_diffs(d), d=d)


@probe("mask.routines")
def _(v):
    from nipy.labs import mask as M
    r = rs(v); n = v["n"]
    vol = lay(r.randint(0, 100, size=(n, 4, 3)).astype(float), v["layout"])
    m1 = lay(r.randint(0, 2, size=(n, 4, 3)).astype(bool), v["layout"])
    m2 = lay(r.randint(0, 2, size=(n, 4, 3)).astype(bool), v["layout"])

    def go():
        M.compute_mask(vol)
        M.largest_cc(m1)
        M.threshold_connect_components(vol, 30)
        M.intersect_masks([m1, m2], threshold=0.5, cc=False)
    return call(go, vol=vol, m1=m1, m2=m2)


@probe("matrices")
def _(v):
    from nipy.algorithms.utils import matrices as mm
    X = lay(rs(v).randint(-2, 3, size=(v["n"], 3)).astype(float), v["layout"])
    return call(lambda: (mm.matrix_rank(X), mm.full_rank(X), mm.pos_recipr(X), mm.recipr0(X)), X=X)


@probe("fast_distance.euclidean_distance")
def _(v):
    from nipy.algorithms.utils.fast_distance import euclidean_distance
    r = rs(v)
    X = lay(r.randn(v["n"], 2), v["layout"]); Y = lay(r.randn(3, 2), v["layout"])
    return call(lambda: (euclidean_distance(X, Y), euclidean_distance(X)), X=X, Y=Y)


# ---------------------------------------------------------------- graph / clustering
@probe("graph.builders+algorithms")
def _(v):
    from nipy.algorithms.graph import graph as G
    r = rs(v); n = v["n"]
    X = lay(r.randint(-3, 4, size=(n, 2)).astype(float), v["layout"])

    ops = [lambda: G.knn(X, 2).dijkstra(0), lambda: G.knn(X, 1).cc(), lambda: G.eps_nn(X, 2.0),
           lambda: G.mst(X), lambda: G.knn(X, 20), lambda: G.lil_cc([[1], [0], []])]
    return call(ops, X=X)


@probe("graph.WeightedGraph(edges)")
def _(v):
    from nipy.algorithms.graph.graph import WeightedGraph
    r = rs(v); n = max(v["n"], 1); e = 2 * n
    edges = lay(r.randint(0, n, size=(e, 2)), v["layout"]); w = lay(r.randint(0, 4, size=e).astype(float), v["layout"])

    mk = lambda: WeightedGraph(n, edges, w)
    ops = [lambda: mk().dijkstra(0), lambda: mk().floyd(), lambda: mk().cc(),
           lambda: mk().remove_trivial_edges(), lambda: mk().cut_redundancies(),
           lambda: mk().normalize(0), lambda: mk().symmeterize(), lambda: mk().anti_symmeterize(),
           lambda: mk().voronoi_labelling([0]), lambda: mk().kruskal(), lambda: mk().to_coo_matrix(),
           lambda: mk().subgraph(np.arange(n) % 2 == 0), lambda: mk().compact_neighb()]
    return call(ops, edges=edges, w=w)


@probe("field.Field ops")
def _(v):
    from nipy.algorithms.graph.field import field_from_graph_and_data
    from nipy.algorithms.graph.graph import wgraph_from_3d_grid
    r = rs(v); n = v["n"]
    xyz = lay(np.array([[i, i % 2, 0] for i in range(n)]).reshape(n, 3), v["layout"])
    f = lay(r.randint(0, 5, size=(n, 1)).astype(float), v["layout"])

    mk = lambda: field_from_graph_and_data(wgraph_from_3d_grid(xyz, 18), f)
    # dilation / erosion / opening / closing / diffusion are documented to change the field's own
    # data in place ("self.field is changed inplace"), and Field keeps the array it is given:
    # those run on a Field built from a copy
    mkc = lambda: field_from_graph_and_data(wgraph_from_3d_grid(xyz, 18), f.copy())
    ops = [lambda: mk().local_maxima(), lambda: mk().custom_watershed(), lambda: mk().threshold_bifurcations(),
           lambda: mkc().dilation(1), lambda: mkc().erosion(1), lambda: mkc().opening(1), lambda: mkc().closing(1),
           lambda: mk().ward(2), lambda: mkc().diffusion(2), lambda: mk().highest_neighbor(),
           lambda: mk().copy().dilation(1), lambda: mk().subfield(np.arange(n) % 2 == 0)]
    return call(ops, xyz=xyz, f=f)


@probe("clustering.kmeans+voronoi")
def _(v):
    from nipy.algorithms.clustering.utils import kmeans, voronoi
    r = rs(v); n = v["n"] + 2
    X = lay(r.randint(-4, 5, size=(n, 2)).astype(float), v["layout"])
    lab = lay(r.randint(0, 2, size=n), v["layout"]); cen = lay(r.randn(2, 2), v["layout"])
    return call(lambda: (kmeans(X, 2, Labels=lab, maxiter=5), voronoi(X, cen)), X=X, lab=lab, cen=cen)


@probe("clustering.ward")
def _(v):
    from nipy.algorithms.clustering.hierarchical_clustering import ward, ward_quick
    from nipy.algorithms.graph.graph import knn
    r = rs(v); n = v["n"] + 3
    X = lay(r.randint(-4, 5, size=(n, 2)).astype(float), v["layout"])

    ops = [lambda: ward(knn(X, 2), X).split(2), lambda: ward(knn(X, 2), X).partition(1.0),
           lambda: ward_quick(knn(X, 2), X)]
    return call(ops, X=X)


@probe("gmm.GMM")
def _(v):
    from nipy.algorithms.clustering.gmm import GMM
    r = rs(v); n = v["n"] + 6
    X = lay(r.randn(n, 2), v["layout"])

    def go():
        g = GMM(2, 2)
        g.initialize(X); g.estimate(X, niter=3); g.likelihood(X); g.map_label(X)
    return call(go, X=X)


# ---------------------------------------------------------------- registration / smoothing / resampling
@probe("affine.transforms")
def _(v):
    from nipy.algorithms.registration.affine import Affine, Rigid, Similarity
    r = rs(v)
    pts = lay(r.randn(v["n"], 3), v["layout"]); vec = lay(r.randn(12) * 0.1, v["layout"][0] == "r" and "C" or "C")
    m44 = lay(np.eye(4) + 0.1 * r.randn(4, 4) * np.array([1, 1, 1, 0])[:, None], v["layout"])

    ops = [lambda: Affine(vec).apply(pts), lambda: Affine(vec).compose(Rigid()).apply(pts),
           lambda: Rigid().compose(Affine(vec)).apply(pts), lambda: Affine(vec).inv().apply(pts),
           lambda: Similarity(m44).apply(pts), lambda: Rigid(m44).as_affine()]
    return call(ops, pts=pts, vec=vec, m44=m44)


@probe("cubic_spline")
def _(v):
    from nipy.algorithms.registration._registration import _cspline_transform, _cspline_sample3d
    r = rs(v); n = v["n"]
    d = lay(r.randn(n, 4, 3), v["layout"])

    def go():
        c = _cspline_transform(d)
        X, Y, Z = [lay(a.astype(float), v["layout"]) for a in np.indices((n, 4, 3))]
        R = np.zeros((n, 4, 3))
        _cspline_sample3d(R, c, X, Y, Z, mx="reflect", my="nearest", mz="zero")
    return call(go, d=d)


@probe("joint_histogram via HistogramRegistration")
def _(v):
    from nipy.core.api import Image
    from nipy.core.api import vox2mni
    from nipy.algorithms.registration import HistogramRegistration, Affine
    r = rs(v); n = v["n"] + 3
    a = lay(r.randint(0, 50, size=(n, 5, 4)).astype(np.int16), v["layout"])
    b = lay(r.randint(0, 50, size=(n, 5, 4)).astype(np.int16), v["layout"])

    def go():
        I = Image(a, vox2mni(np.eye(4))); J = Image(b, vox2mni(np.eye(4)))
        for interp in ("pv", "tri", "rand"):
            R = HistogramRegistration(I, J, interp=interp, from_bins=8, to_bins=8)
            R.eval(Affine()); R.eval(Affine(np.array([40., 0, 0, 0, 0, 0, 1, 1, 1, 0, 0, 0])))
    return call(go, a=a, b=b)


@probe("kernel_smooth.LinearFilter")
def _(v):
    from nipy.core.api import Image
    from nipy.core.api import vox2mni
    from nipy.algorithms.kernel_smooth import LinearFilter
    d = lay(rs(v).randint(0, 9, size=(v["n"], 4, 3)).astype(float), v["layout"])

    def go():
        img = Image(d, vox2mni(np.diag([2., 1, 3, 1])))
        LinearFilter(img.coordmap, img.shape, fwhm=3.0).smooth(img)
    return call(go, d=d)


@probe("resample.resample")
def _(v):
    from nipy.core.api import Image
    from nipy.core.api import vox2mni
    from nipy.algorithms.resample import resample
    d = lay(rs(v).randint(0, 9, size=(v["n"], 4, 3)).astype(float), v["layout"])
    A = np.eye(4)

    def go():
        img = Image(d, vox2mni(np.diag([2., 1, 3, 1])))
        resample(img, img.coordmap, A, img.shape, order=1)
    return call(go, d=d, A=A)


@probe("image ops")
def _(v):
    from nipy.core.api import Image
    from nipy.core.api import vox2mni, rollimg
    d = lay(rs(v).randint(0, 9, size=(v["n"], 4, 3)).astype(float), v["layout"])
    aff = np.diag([2., 1, 3, 1])

    def go():
        img = Image(d, vox2mni(aff))
        img[::2]; img.reordered_axes([2, 0, 1]); rollimg(img, 2); img.renamed_axes(i="a")
        list(img.iter_axis(0) if hasattr(img, "iter_axis") else [])
    return call(go, d=d, aff=aff)


@probe("coordmap ops")
def _(v):
    from nipy.core.api import AffineTransform, CoordinateSystem
    aff = lay(np.array([[2., 0, 0, 1], [0, 3, 0, 2], [0, 0, 4, 3], [0, 0, 0, 1]]), v["layout"])
    dn = {0: "a", "j": "b"}; rn = {1: "u"}; order = [2, 0, 1]

    def go():
        cm = AffineTransform(CoordinateSystem("ijk"), CoordinateSystem("xyz"), aff)
        cm.renamed_domain(dn).renamed_range(rn).reordered_domain(order).reordered_range(order)
        cm.inverse(); cm(np.zeros((2, 3)))
    return call(go, aff=aff, dn=dn, rn=rn, order=order)


# ---------------------------------------------------------------- fMRI
@probe("design_matrix.make_dmtx")
def _(v):
    from nipy.modalities.fmri.design_matrix import make_dmtx
    from nipy.modalities.fmri.experimental_paradigm import BlockParadigm
    r = rs(v); n = v["n"] + 4
    ft = lay(np.arange(n) * 2.0, v["layout"]); add = lay(r.randn(n, 2), v["layout"])
    ids = ["a", "b", "a"]; on = lay(np.array([0., 2, 4]), v["layout"]); du = lay(np.array([1., 1, 2]), v["layout"])

    def go():
        make_dmtx(ft, BlockParadigm(ids, on, du), "canonical with derivative", "polynomial",
                  drift_order=2, add_regs=add)
    return call(go, ft=ft, add=add, on=on, du=du, ids=ids)


@probe("glm.GeneralLinearModel")
def _(v):
    from nipy.modalities.fmri.glm import GeneralLinearModel
    r = rs(v); n = v["n"] + 6
    X = lay(np.column_stack([np.ones(n), r.randn(n)]), v["layout"]); Y = lay(r.randn(n, 3), v["layout"])
    con = np.array([0., 1.])

    def go():
        for model in ("ols", "ar1"):
            g = GeneralLinearModel(X); g.fit(Y, model=model)
            c = g.contrast(con); c.stat(); c.p_value(); c.z_score()
    return call(go, X=X, Y=Y, con=con)


@probe("glm.Contrast objects (floored variances)")
def _(v):
    """Contrast objects made directly from caller arrays, all statistic types and dimensions, with variances at
    and below the floor `tiny` (constant voxels): stat / p_value / z_score / arithmetic leave the arrays alone"""
    from nipy.modalities.fmri.glm import Contrast
    r = rs(v); nv = max(v["n"], 1)
    thunks, objs = [], {}
    for ty in ("t", "F", "tmin-conjunction"):
        for q in ((1,) if ty == "t" else (1, 2, 3)):
            A = r.randint(-3, 4, size=(q, q, nv)).astype(float)
            var = np.einsum("ikv,jkv->ijv", A, A) + np.eye(q)[:, :, None]
            if ty != "F" or q == 1:
                for k in range(nv):          # one component without variance at every other voxel
                    if k % 2 == 0:
                        i = int(r.randint(q)); var[i, :, k] = 0.0; var[:, i, k] = 0.0
            eff = lay(r.randint(-8, 9, size=(q, nv)) / 4.0, v["layout"])
            var = lay(var if q > 1 or r.rand() < 0.5 else var.reshape(1, 1, nv), v["layout"])
            objs[f"effect_{ty}_{q}"] = eff; objs[f"variance_{ty}_{q}"] = var

            def go(eff=eff, var=var, ty=ty, q=q):
                c = Contrast(eff, var, dof=7.0, contrast_type=ty)
                c.stat(); c.p_value(); c.z_score(); c.stat(baseline=0.5); c.p_value(0.5)
                d = c + Contrast(eff, var, dof=3.0, contrast_type=ty)
                d.stat(); (2.0 * c).z_score(); (c * 0.5).p_value(); (c / 2.0).stat()
            thunks.append((f"Contrast[{ty},{q}]", go))
    return call(thunks, **objs)


@probe("labs.glm")
def _(v):
    from nipy.labs.glm import glm as G
    r = rs(v); n = v["n"] + 6
    X = lay(np.column_stack([np.ones(n), r.randn(n)]), v["layout"]); Y = lay(r.randn(n, 3), v["layout"])

    def go():
        for model, method in (("spherical", "ols"), ("spherical", "kalman"), ("ar1", None)):
            g = G.glm(Y, X, model=model, method=method)
            g.contrast([0, 1]).stat()
    return call(go, X=X, Y=Y)


@probe("labs.group.onesample+twosample")
def _(v):
    from nipy.labs.group import onesample, twosample
    r = rs(v); n = v["n"] + 2
    Y = lay(r.randn(n, 3), v["layout"]); V = lay(1 + r.rand(n, 3), v["layout"])
    Y2 = lay(r.randn(4, 3), v["layout"]); magics = lay(np.arange(4.0), v["layout"])

    def go():
        for s in ("mean", "median", "student", "laplace", "tukey", "sign", "wilcoxon", "elr"):
            onesample.stat(Y, id=s, axis=0, Magics=magics)
        onesample.stat_mfx(Y, V, id="student_mfx", axis=0, Magics=magics)
        twosample.stat(Y, Y2, id="student", axis=0)
    return call(go, Y=Y, V=V, Y2=Y2, magics=magics)


@probe("labs.utils.routines")
def _(v):
    from nipy.labs.utils import routines as R
    r = rs(v); n = v["n"]
    X = lay(r.randn(3, n), v["layout"])
    A = r.randn(n, 3, 3); VX = lay(np.einsum("kij,klj->ilk", A, A) + np.eye(3)[:, :, None], v["layout"])
    M = lay(r.randn(3, 4), v["layout"]); x = lay(1 + r.rand(n), v["layout"])

    def go():
        R.mahalanobis(X, VX); R.svd(M); R.gamln(2.5); R.psi(2.5)
        R.permutations(4, 3, 1); R.combinations(2, 4, 3, 1)
        R.quantile(x, 0.5) if hasattr(R, "quantile") else None
    return call(go, X=X, VX=VX, M=M, x=x)


@probe("labs.bindings.linalg")
def _(v):
    from nipy.labs.bindings import linalg as L
    r = rs(v); n = v["n"]
    a = lay(r.randn(n), v["layout"]); b = lay(r.randn(n), v["layout"])
    A = lay(r.randn(n, 3), v["layout"]); B = lay(r.randn(3, 2), v["layout"])

    def go():
        L.blas_ddot(a, b); L.blas_dnrm2(a); L.blas_dasum(a); L.blas_daxpy(2.0, a, b)
        L.blas_dgemm(0, 0, 1.0, A, B, 0.0, np.zeros((n, 2)))
        L.vector_add(a, b); L.vector_sub(a, b); L.vector_mul(a, b); L.vector_sum(a)
        L.matrix_add(A, A); L.matrix_transpose(A)
    return call(go, a=a, b=b, A=A, B=B)


@probe("segmentation.Segmentation")
def _(v):
    from nipy.algorithms.segmentation import Segmentation
    r = rs(v); n = v["n"] + 2
    d = lay(r.rand(n, 4, 3) * 100, v["layout"]); mask = lay(np.ones((n, 4, 3), dtype=bool), v["layout"])
    mu = np.array([20., 50, 80]); sigma = np.array([100., 100, 100])

    ppm0 = lay(np.full((n, 4, 3, 3), 1 / 3.0) + r.rand(n, 4, 3, 3) * 0.01, v["layout"])
    U = lay(np.ones((3, 3)) - np.eye(3), v["layout"]); prior = lay(np.full((n, 4, 3, 3), 1 / 3.0), v["layout"])

    def go():
        S = Segmentation(d, mask=mask, mu=mu, sigma=sigma, beta=0.5, ngb_size=6)
        S.run(niters=2); S.map(); S.free_energy()

    def given():     # the caller's posterior map / interaction matrix / prior are inputs, ve_step works on its own copy
        S = Segmentation(d, mask=mask, ppm=ppm0, U=U, prior=prior, beta=0.5, ngb_size=26)
        S.ve_step(); S.vm_step(); S.ve_step(); S.map(); S.free_energy()
    return call([("nipy.algorithms.segmentation.segmentation.Segmentation(mu, sigma)", go),
                 ("nipy.algorithms.segmentation.segmentation.Segmentation(ppm, U, prior)", given)],
                d=d, mask=mask, mu=mu, sigma=sigma, ppm0=ppm0, U=U, prior=prior)


@probe("slicetiming+hrf scalars")
def _(v):
    from nipy.algorithms.slicetiming import timefuncs as T
    from nipy.modalities.fmri import hemodynamic_models as hm
    n = v["n"]

    def go():
        for f in (T.st_01234, T.st_43210, T.st_02413, T.st_13024, T.st_42031, T.st_odd0_even1):
            f(n, 2.0)
        hm.spm_hrf(2.0, 4); hm.glover_hrf(2.0, 4)
    return call(go)


# ---------------------------------------------------------------- documented in-place routines (the registry)
@probe("inplace.documented")
def _(v):
    """routines whose docstring says they work in place: a mutation here is `documented`, never a violation;
    the same probe calls their copying variants, which must leave the argument alone"""
    from nipy.algorithms.statistics.utils import multiple_fast_inv
    from nipy.labs.mask import threshold_connect_components
    from nipy.modalities.fmri.hemodynamic_models import _orthogonalize
    from nipy.modalities.fmri.design import stack_contrasts
    from nipy.algorithms.clustering.imm import IMM
    r = rs(v); n = max(v["n"], 1)
    A = r.randint(-2, 3, size=(n, 3, 3)).astype(float)
    a = lay(np.einsum("kij,klj->kil", A, A) + 3 * np.eye(3), v["layout"])
    vol = lay((r.rand(v["n"], 4, 3) > 0.6).astype(float), v["layout"])
    X = lay(r.randint(-3, 4, size=(v["n"] + 2, 3)).astype(float), v["layout"])
    cons = {"a": np.array([[1., 0, 0]]), "b": np.array([[0., 1, 0]])}
    z = lay(r.randint(0, 4, size=v["n"]) * 2, v["layout"])
    ops = [("nipy.algorithms.statistics.utils.multiple_fast_inv", lambda: multiple_fast_inv(a)),
           ("nipy.labs.mask.threshold_connect_components", lambda: threshold_connect_components(vol, 3, copy=False)),
           ("nipy.modalities.fmri.hemodynamic_models._orthogonalize", lambda: _orthogonalize(X)),
           ("nipy.modalities.fmri.design.stack_contrasts", lambda: stack_contrasts(cons, "ab", ["a", "b"])),
           ("nipy.algorithms.clustering.imm.IMM.reduce", lambda: IMM(dim=1).reduce(z))]
    return call(ops, a=a, vol=vol, X=X, cons=cons, z=z)


@probe("inplace.complement")
def _(v):
    """the copying counterparts of the documented in-place routines"""
    from nipy.labs.mask import threshold_connect_components
    from nipy.modalities.fmri.design import stack2designs, stack_designs
    from nipy.modalities.fmri.hemodynamic_models import compute_regressor
    r = rs(v)
    vol = lay((r.rand(v["n"], 4, 3) > 0.6).astype(float), v["layout"])
    d1 = lay(r.randn(v["n"] + 2, 2), v["layout"]); d2 = lay(r.randn(v["n"] + 2, 1), v["layout"])
    c1 = {"x": np.array([1., 0])}; c2 = {"y": np.array([1.])}
    ft = lay(np.arange(v["n"] + 4) * 2.0, v["layout"])
    cond = lay(np.array([[0., 4, 8], [1, 1, 2], [1, 1, 1]]), v["layout"])
    ops = [("nipy.labs.mask.threshold_connect_components(copy=True)", lambda: threshold_connect_components(vol, 3)),
           ("nipy.modalities.fmri.design.stack2designs", lambda: stack2designs(d1, d2, c1, c2)),
           ("nipy.modalities.fmri.design.stack_designs", lambda: stack_designs((d1, c1), (d2, c2))),
           ("nipy.modalities.fmri.hemodynamic_models.compute_regressor",
            lambda: compute_regressor(cond, "spm_time_dispersion", ft, oversampling=4))]
    return call(ops, vol=vol, d1=d1, d2=d2, c1=c1, c2=c2, ft=ft, cond=cond)


@probe("registration.T in place", sizes=(6, 1))
def _(v):
    """HistogramRegistration.explore / eval_gradient / eval_hessian are documented to modify `T` in place
    unless it has a `copy` method: Affine has one, so the caller's transform must come back unchanged"""
    from nipy.core.api import Image, vox2mni
    from nipy.algorithms.registration import HistogramRegistration, Affine
    r = rs(v); n = v["n"] + 3
    a = lay(r.randint(0, 50, size=(n, 5, 4)).astype(np.int16), v["layout"])
    b = lay(r.randint(0, 50, size=(n, 5, 4)).astype(np.int16), v["layout"])
    T = Affine(np.array([0.5, 0, 0, 0, 0, 0, 1, 1, 1, 0, 0, 0]))
    p0 = lay(T.param.copy(), "C")
    state = {"param": T.param}

    def mk():
        return HistogramRegistration(Image(a, vox2mni(np.eye(4))), Image(b, vox2mni(np.eye(4))), from_bins=8, to_bins=8)
    ops = [("nipy.algorithms.registration.histogram_registration.HistogramRegistration.explore(T with copy)",
            lambda: (mk().explore(T, (0, [-1, 0, 1])), state.update(param=T.param))),
           ("nipy.algorithms.registration.histogram_registration.HistogramRegistration.eval_gradient(T with copy)",
            lambda: (mk().eval_gradient(T), state.update(param=T.param))),
           ("nipy.algorithms.registration.histogram_registration.HistogramRegistration.eval_hessian(T with copy)",
            lambda: (mk().eval_hessian(T), state.update(param=T.param)))]
    return call(ops, a=a, b=b, state=state, p0=p0)


# ---------------------------------------------------------------- inputs the compiled code cannot handle
@probe("segmentation.ngb_size", sizes=(6, 1))
def _(v):
    """neighbourhood sizes the C tables do not know: must be refused with an exception, not crash"""
    from nipy.algorithms.segmentation import Segmentation
    from nipy.algorithms.segmentation.brain_segmentation import BrainT1Segmentation
    r = rs(v); n = v["n"] + 2
    d = lay(r.rand(n, 4, 3) * 100, v["layout"])
    mu = np.array([20., 50, 80]); sigma = np.array([100., 100, 100])
    crashed = []
    for ngb in (6, 26, 7, 0, -6, 18, 27):
        def go(ngb=ngb):
            S = Segmentation(d, mu=mu, sigma=sigma, ngb_size=ngb)
            S.ve_step(); S.free_energy()
        st, sig = forked(go)
        if st in ("crash", "hang"):
            crashed.append((ngb, st, sig))
    mutated, exc, ev = call([lambda: Segmentation(d, mu=mu, sigma=sigma, ngb_size=6).run(niters=1)], d=d, mu=mu, sigma=sigma)
    if crashed:
        ngb, st, sig = crashed[0]
        raise Crash(f"Segmentation(..., ngb_size={ngb}).ve_step() "
                    + (f"crashes the interpreter (signal {sig})" if st == "crash" else "hangs"))
    return mutated, exc, ev


class Crash(Exception):
    """a forked call crashed / hung: a C20 violation reported by the probe itself"""


# ---------------------------------------------------------------- nipy.labs (anchored directory)
@probe("labs.discrete_domain")
def _(v):
    from nipy.labs.spatial_models import discrete_domain as dd
    r = rs(v); n = v["n"]
    mask = lay(r.rand(n, 4, 3) > 0.3, v["layout"])
    aff = lay(np.diag([2., 3, 4, 1]), v["layout"])
    ijk = lay(np.array(np.nonzero(np.ones((max(n, 1), 2, 2)))).T.astype(np.intp), v["layout"])
    feat = lay(r.randn(int(np.sum(np.asarray(mask))), 2), v["layout"])

    def dom():
        D = dd.grid_domain_from_binary_array(mask, aff, nn=6)
        D.set_feature("f", feat); D.representative_feature("f", "mean"); D.integrate("f")
        D.connected_components(); D.mask(np.arange(D.size) % 2 == 0); D.copy(); D.get_coord(); D.get_volume()
    ops = [("nipy.labs.spatial_models.discrete_domain.smatrix_from_3d_array", lambda: dd.smatrix_from_3d_array(mask, 18)),
           ("nipy.labs.spatial_models.discrete_domain.smatrix_from_nd_array", lambda: dd.smatrix_from_nd_array(mask, 1)),
           ("nipy.labs.spatial_models.discrete_domain.smatrix_from_3d_idx", lambda: dd.smatrix_from_3d_idx(ijk, 6)),
           ("nipy.labs.spatial_models.discrete_domain.smatrix_from_nd_idx", lambda: dd.smatrix_from_nd_idx(ijk, 0)),
           ("nipy.labs.spatial_models.discrete_domain.array_affine_coord", lambda: dd.array_affine_coord(mask, aff)),
           ("nipy.labs.spatial_models.discrete_domain.idx_affine_coord", lambda: dd.idx_affine_coord(ijk, aff)),
           ("nipy.labs.spatial_models.discrete_domain.domain_from_binary_array", lambda: dd.domain_from_binary_array(mask, aff, 18)),
           ("nipy.labs.spatial_models.discrete_domain.NDGridDomain", dom),
           ("nipy.labs.spatial_models.discrete_domain.grid_domain_from_shape", lambda: dd.grid_domain_from_shape((2, 3, 2), aff))]
    return call(ops, mask=mask, aff=aff, ijk=ijk, feat=feat)


@probe("labs.mroi+hroi")
def _(v):
    from nipy.labs.spatial_models import discrete_domain as dd, mroi, hroi
    r = rs(v); n = v["n"]
    labels = lay(r.randint(-1, 3, size=(n, 4, 3)), v["layout"])
    aff = lay(np.eye(4), v["layout"])
    mask = np.ones((max(n, 1), 4, 3), dtype=bool)
    data = lay(r.randn(mask.sum()), v["layout"])
    pos = lay(np.array([[0., 0, 0], [1, 2, 1]]), v["layout"]); rad = lay(np.array([1.5, 1.0]), v["layout"])

    def sub():
        S = mroi.subdomain_from_array(labels, aff, nn=6)
        f = [r.randn(s, 1) for s in S.get_size()]
        each(S.get_size, S.get_volume, S.get_coord, S.copy, lambda: S.set_feature("a", f),
             lambda: S.representative_feature("a"), lambda: S.integrate("a"), lambda: S.feature_to_voxel_map("a"),
             lambda: S.select_roi(S.get_id()[:1]), lambda: S.get_local_volume(), lambda: S.to_image())

    def hr():
        D = dd.grid_domain_from_binary_array(mask, np.eye(4), nn=6)
        each(lambda: hroi.HROI_as_discrete_domain_blobs(D, data, threshold=-1., smin=1),
             lambda: hroi.HROI_from_watershed(D, data, threshold=-10.).reduce_to_leaves())
        H = hroi.HROI_from_watershed(D, data, threshold=-10.)
        each(H.get_leaves_id, H.get_parents, H.make_forest, H.copy, H.merge_ascending, H.merge_descending)

    def balls():
        D = dd.grid_domain_from_binary_array(mask, np.eye(4), nn=6)
        mroi.subdomain_from_balls(D, pos, rad)
    ops = [("nipy.labs.spatial_models.mroi.subdomain_from_array", sub),
           ("nipy.labs.spatial_models.hroi.HROI_from_watershed", hr),
           ("nipy.labs.spatial_models.mroi.subdomain_from_balls", balls)]
    return call(ops, labels=labels, aff=aff, data=data, pos=pos, rad=rad)


@probe("labs.parcellation+bfls")
def _(v):
    from nipy.labs.spatial_models import discrete_domain as dd
    from nipy.labs.spatial_models.parcellation import MultiSubjectParcellation
    from nipy.labs.spatial_models.structural_bfls import build_landmarks, _threshold_weight_map
    from nipy.labs.spatial_models.hierarchical_parcellation import hparcel
    r = rs(v); n = max(v["n"], 1)
    D = dd.grid_domain_from_shape((n, 3, 2))
    tl = lay(np.arange(D.size) % 2, v["layout"]); il = lay((np.arange(D.size * 2).reshape(D.size, 2) // 3) % 2, v["layout"])
    ld = [lay(r.randn(D.size, 1), v["layout"]) for _ in range(2)]
    coords = lay(r.randn(5, 3), v["layout"]); subj = lay(np.array([0, 0, 1, 1, 2]), v["layout"])
    lab = lay(np.array([0, 1, 0, 1, 0]), v["layout"]); w = lay(r.rand(v["n"]), v["layout"])

    gc = lay(D.coord[:4].astype(float), v["layout"])

    def lm():
        LR = build_landmarks(D, coords, subj, lab, confidence=w[:5] if len(w) >= 5 else None, prevalence_threshold=0, sigma=2.)[0]
        each(LR.centers, lambda: LR.kernel_density(0, gc, 2.), lambda: LR.map_label(gc, 0.5, 2.), LR.roi_prevalence)

    def msp():
        P = MultiSubjectParcellation(D, template_labels=tl, individual_labels=il)
        P.check(); P.copy(); P.population(); P.make_feature("f", r.randn(D.size, 2)); P.get_feature("f")
    ops = [("nipy.labs.spatial_models.parcellation.MultiSubjectParcellation", msp),
           ("nipy.labs.spatial_models.hierarchical_parcellation.hparcel", lambda: hparcel(D, ld, 2, niter=2)),
           ("nipy.labs.spatial_models.structural_bfls.build_landmarks",
            lambda: build_landmarks(D, coords, subj, lab, prevalence_threshold=0, sigma=2.)),
           # (`_threshold_weight_map` zeroes its argument in place; it is a private helper whose only caller,
           #  LandmarkRegions.map_label, hands it a temporary: the public path is what is probed)
           ("nipy.labs.spatial_models.structural_bfls.LandmarkRegions", lm)]
    return call(ops, tl=tl, il=il, ld0=ld[0], ld1=ld[1], coords=coords, subj=subj, lab=lab, w=w, gc=gc)


@probe("labs.statistical_mapping")
def _(v):
    import nibabel as nib
    from nipy.labs import statistical_mapping as sm
    r = rs(v); n = v["n"] + 3
    z = lay(r.randn(n, 5, 4) * 2, v["layout"]); m = lay((r.rand(n, 5, 4) > 0.2).astype(np.uint8), v["layout"])
    aff = lay(np.diag([2., 2, 2, 1]), v["layout"])
    p = lay(r.rand(5), v["layout"]); t = lay(r.randn(5), v["layout"]); st = lay(r.randn(20), v["layout"])

    def imgs():
        return nib.Nifti1Image(np.asarray(z), np.asarray(aff)), nib.Nifti1Image(np.asarray(m), np.asarray(aff))
    ops = [("nipy.labs.statistical_mapping.cluster_stats", lambda: sm.cluster_stats(*imgs(), height_th=0.2, cluster_th=0)),
           ("nipy.labs.statistical_mapping.get_3d_peaks", lambda: sm.get_3d_peaks(imgs()[0], None, threshold=0.5)),
           ("nipy.labs.statistical_mapping.onesample_test",
            lambda: sm.onesample_test([imgs()[0]] * 3, None, [imgs()[1]], "student")),
           ("nipy.labs.statistical_mapping.bonferroni", lambda: sm.bonferroni(p, 10)),
           ("nipy.labs.statistical_mapping.simulated_pvalue", lambda: sm.simulated_pvalue(t, st))]
    return call(ops, z=z, m=m, aff=aff, p=p, t=t, st=st)


@probe("labs.reproducibility+simul")
def _(v):
    from nipy.labs.spatial_models import discrete_domain as dd
    from nipy.labs.utils import reproducibility_measures as rm
    from nipy.labs.utils.simul_multisubject_fmri_dataset import surrogate_2d_dataset, surrogate_3d_dataset
    r = rs(v); n = max(v["n"], 1)
    D = dd.grid_domain_from_shape((n, 3, 2))
    x = lay(r.randn(D.size, 6), v["layout"]); vx = lay(1 + r.rand(D.size, 6), v["layout"])
    h = lay(r.randint(0, 4, size=5).astype(float), v["layout"]); sm_ = lay(r.randn(D.size) * 3, v["layout"])
    pos = lay(np.array([[4., 4], [8, 8]]), v["layout"]); amp = lay(np.array([3., 2]), v["layout"])
    ops = [("nipy.labs.utils.reproducibility_measures.ttest", lambda: rm.ttest(x)),
           ("nipy.labs.utils.reproducibility_measures.fttest", lambda: rm.fttest(x, vx)),
           ("nipy.labs.utils.reproducibility_measures.mfx_ttest", lambda: rm.mfx_ttest(x, vx)),
           ("nipy.labs.utils.reproducibility_measures.conjunction", lambda: rm.conjunction(x, vx, 2)),
           ("nipy.labs.utils.reproducibility_measures.voxel_thresholded_ttest", lambda: rm.voxel_thresholded_ttest(x, 0.5)),
           ("nipy.labs.utils.reproducibility_measures.histo_repro", lambda: rm.histo_repro(h)),
           ("nipy.labs.utils.reproducibility_measures.cluster_threshold", lambda: rm.cluster_threshold(sm_, D, 0.5, 1)),
           ("nipy.labs.utils.reproducibility_measures.get_peak_position_from_thresholded_map",
            lambda: rm.get_peak_position_from_thresholded_map(sm_, D, 0.5)),
           ("nipy.labs.utils.reproducibility_measures.get_cluster_position_from_thresholded_map",
            lambda: rm.get_cluster_position_from_thresholded_map(sm_, D, 0.5, 1)),
           ("nipy.labs.utils.reproducibility_measures.voxel_reproducibility",
            lambda: rm.voxel_reproducibility(x, vx, D, 2, method="cffx", threshold=0.5, csize=1)),
           ("nipy.labs.utils.reproducibility_measures.map_reproducibility",
            lambda: rm.map_reproducibility(x, vx, D, 2, method="cmfx", threshold=0.5, csize=1)),
           ("nipy.labs.utils.simul_multisubject_fmri_dataset.surrogate_2d_dataset",
            lambda: surrogate_2d_dataset(n_subj=2, shape=(12, 12), pos=pos, ampli=amp, width=2.0, seed=1)),
           ("nipy.labs.utils.simul_multisubject_fmri_dataset.surrogate_3d_dataset",
            lambda: surrogate_3d_dataset(n_subj=1, shape=(6, 6, 6), pos=np.column_stack([pos, [3, 3]]) / 2, ampli=amp,
                                         width=2.0, seed=1))]
    return call(ops, x=x, vx=vx, h=h, sm_=sm_, pos=pos, amp=amp)


@probe("labs.datasets+viz_tools")
def _(v):
    from nipy.labs.datasets.transforms import affine_utils as au
    from nipy.labs.datasets.transforms.affine_transform import AffineTransform
    from nipy.labs.datasets.volumes.volume_img import VolumeImg
    from nipy.labs.viz_tools import coord_tools as ct, edge_detect as ed
    r = rs(v); n = v["n"] + 2
    d = lay(r.rand(n, 5, 4), v["layout"]); aff = lay(np.diag([2., 3, 1, 1]) + np.eye(4, k=3)[:4, :4] * 0, v["layout"])
    x = lay(r.randn(4), v["layout"]); y = lay(r.randn(4), v["layout"]); zc = lay(r.randn(4), v["layout"])
    m = lay((r.rand(n, 5, 4) > 0.4).astype(np.int8), v["layout"]); im2 = lay(r.rand(n + 4, 7), v["layout"])

    def vol():
        V = VolumeImg(d, aff, "mni")
        V.get_transform(); V.xyz_ordered(); V.as_volume_img(); V.like_from_data(np.asarray(d) * 2)
        V.values_in_world(np.array([1.]), np.array([1.]), np.array([1.]))
        V.resampled_to_img(VolumeImg(np.asarray(d)[:2], np.asarray(aff), "mni"))
        V == V

    def tr():
        T = AffineTransform("a", "b", aff)
        T.mapping(x, y, zc); T.inverse_mapping(x, y, zc); T.get_inverse(); T.composed_with(AffineTransform("b", "c", aff))
    ops = [("nipy.labs.datasets.transforms.affine_utils.apply_affine", lambda: au.apply_affine(x, y, zc, aff)),
           ("nipy.labs.datasets.transforms.affine_utils.to_matrix_vector", lambda: au.to_matrix_vector(aff)),
           ("nipy.labs.datasets.transforms.affine_utils.get_bounds", lambda: au.get_bounds((3, 4, 5), aff)),
           ("nipy.labs.datasets.transforms.affine_transform.AffineTransform", tr),
           ("nipy.labs.datasets.volumes.volume_img.VolumeImg", vol),
           ("nipy.labs.viz_tools.coord_tools.coord_transform", lambda: ct.coord_transform(x, y, zc, aff)),
           ("nipy.labs.viz_tools.coord_tools.find_cut_coords", lambda: ct.find_cut_coords(d, mask=m)),
           ("nipy.labs.viz_tools.coord_tools.get_mask_bounds", lambda: ct.get_mask_bounds(m, aff)),
           ("nipy.labs.viz_tools.coord_tools.find_maxsep_cut_coords", lambda: ct.find_maxsep_cut_coords(d, aff, n_cuts=2)),
           ("nipy.labs.viz_tools.edge_detect._edge_map", lambda: ed._edge_map(im2)),
           ("nipy.labs.viz_tools.edge_detect._fast_abs_percentile", lambda: ed._fast_abs_percentile(d))]
    return call(ops, d=d, aff=aff, x=x, y=y, zc=zc, m=m, im2=im2)


# ---------------------------------------------------------------- the remaining anchored .py routines
@probe("regression.results+AR")
def _(v):
    from nipy.algorithms.statistics.models.regression import (OLSModel, ARModel, ar_bias_corrector, ar_bias_correct,
                                                              AREstimator)
    r = rs(v); n = v["n"] + 6
    X = lay(np.column_stack([np.ones(n), r.randint(-3, 4, size=n), np.arange(n) % 3]).astype(float), v["layout"])
    Y = lay(r.randint(-5, 6, size=n).astype(float), v["layout"]); beta = lay(np.array([1., 0.5, -1]), v["layout"])

    def ols():
        M = OLSModel(X); M.has_intercept; M.rank; M.information(beta, nuisance={"sigma": 1.0}); M.score(beta, Y, nuisance={"sigma": 1.0})
        R = M.fit(Y); R.F_overall; R.R2; R.R2_adj; R.SSR; R.SST; R.MSR; R.norm_resid; R.Tcontrast(np.array([0, 1., 0]))

    def ar():
        M = ARModel(X, 1); M.iterative_fit(Y, niter=2)
        R = OLSModel(X).fit(Y); ar_bias_correct(R, 1); AREstimator(OLSModel(X), 1)(R)
        ar_bias_corrector(X, np.linalg.pinv(X), 1)
    ops = [("nipy.algorithms.statistics.models.regression.OLSModel+RegressionResults", ols),
           ("nipy.algorithms.statistics.models.regression.ARModel.iterative_fit+ar_bias_correct", ar)]
    return call(ops, X=X, Y=Y, beta=beta)


@probe("coordmap.constructors")
def _(v):
    from nipy.core.api import AffineTransform, CoordinateSystem, CoordinateMap
    from nipy.core.reference.coordinate_system import CoordSysMaker
    from nipy.core.reference.coordinate_map import (CoordMapMaker, append_io_dim, shifted_domain_origin,
                                                    shifted_range_origin, product, compose, drop_io_dim, equivalent)
    aff = lay(np.array([[2., 0, 0, 1], [0, 3, 0, 2], [0, 0, 4, 3], [0, 0, 0, 1]]), v["layout"])
    start = lay(np.array([1., 2, 3]), v["layout"]); step = lay(np.array([2., 2, 2]), v["layout"])
    dn = {"i": "a", "j": "b"}; rn = {"x": "u"}; org = lay(np.array([1., 1, 1]), v["layout"])

    def nonaffine():
        cm = CoordinateMap(CoordinateSystem("ijk"), CoordinateSystem("xyz"), lambda p: p * 2, lambda p: p / 2)
        cm.renamed_domain(dn).renamed_range(rn); cm.reordered_domain([2, 0, 1]); cm.inverse(); cm(np.zeros((2, 3)))
        product(cm, cm.renamed_domain({"i": "l", "j": "m", "k": "n"}).renamed_range({"x": "u", "y": "v", "z": "w"}))

    def affine():
        cm = AffineTransform(CoordinateSystem("ijk"), CoordinateSystem("xyz"), aff)
        append_io_dim(cm, "l", "t", 1, 2); shifted_domain_origin(cm, org, "n"); shifted_range_origin(cm, org, "n")
        compose(cm, cm.inverse()); drop_io_dim(cm, "k"); equivalent(cm, cm); cm.similar_to(cm)
    ops = [("nipy.core.reference.coordinate_map.AffineTransform.from_start_step",
            lambda: AffineTransform.from_start_step("ijk", "xyz", start, step)),
           ("nipy.core.reference.coordinate_map.AffineTransform.identity", lambda: AffineTransform.identity("ijk")),
           ("nipy.core.reference.coordinate_map.CoordMapMaker",
            lambda: (CoordMapMaker(CoordSysMaker("ijkl"), CoordSysMaker("xyzt")).make_affine(aff, 2., 1.),
                     CoordMapMaker(CoordSysMaker("ijkl"), CoordSysMaker("xyzt")).make_cmap(3, lambda p: p + 1))),
           ("nipy.core.reference.coordinate_map.CoordinateMap.renamed_domain", nonaffine),
           ("nipy.core.reference.coordinate_map.append_io_dim+shifted_origin+product", affine)]
    return call(ops, aff=aff, start=start, step=step, dn=dn, rn=rn, org=org)


@probe("mask.sessions", sizes=(6, 1))
def _(v):
    """compute_mask_sessions / compute_mask_files with in-memory images: the sessions' data are the caller's"""
    import nibabel as nib
    from nipy.core.api import Image, vox2mni
    from nipy.labs import mask as M
    r = rs(v); n = v["n"] + 3
    def vol(*shape):
        a = r.rand(*shape) * 10
        a[1:-1, 1:4, 1:3] += 90          # a bright blob: the masks are not empty
        return a
    d1 = lay(vol(n, 5, 4), v["layout"]); d2 = lay(vol(n, 5, 4), v["layout"])
    d4 = lay(vol(n, 5, 4, 3), v["layout"])

    def imgs(kind):
        if kind == "nipy":
            return [Image(d1, vox2mni(np.eye(4))), Image(d2, vox2mni(np.eye(4)))]
        return [nib.Nifti1Image(np.asarray(d1), np.eye(4)), nib.Nifti1Image(np.asarray(d2), np.eye(4))]
    ops = [("nipy.labs.mask.compute_mask_sessions(nipy images, return_mean)",
            lambda: M.compute_mask_sessions(imgs("nipy"), return_mean=True, cc=0)),
           ("nipy.labs.mask.compute_mask_sessions(nibabel images, return_mean)",
            lambda: M.compute_mask_sessions(imgs("nib"), return_mean=True, threshold=0.0, cc=0)),
           ("nipy.labs.mask.compute_mask_sessions(4-d session)",
            lambda: M.compute_mask_sessions([Image(d4, vox2mni(np.eye(5))), Image(d4, vox2mni(np.eye(5)))], return_mean=True, cc=0)),
           ("nipy.labs.mask.compute_mask(reference_volume)", lambda: M.compute_mask(d1, reference_volume=d2)),
           ("nipy.labs.mask.intersect_masks", lambda: M.intersect_masks([d1 > 50, d2 > 50], threshold=0.5, cc=True))]
    return call(ops, d1=d1, d2=d2, d4=d4)


@probe("labs.group negative axis", sizes=(6, 1))
def _(v):
    """a negative `axis` is accepted by the Cython glue of nipy.labs.group (Python indexing of `Y.shape[axis]`) and
    handed as such to the C multi-iterator (fixed in lib/fff_python_wrapper/fffpy.c; the installed binaries predate the
    fix).  Run in forked children, since the stale glue may read / write outside its arrays; TAG ONLY."""
    import pickle
    from nipy.labs.group import onesample, twosample
    r = rs(v); n = v["n"] + 2
    Y = lay(r.randint(-16, 17, size=(n, 2, 3)) / 4.0, v["layout"])
    V = lay(1 + r.randint(0, 8, size=(n, 2, 3)) / 4.0, v["layout"])
    Y2 = lay(r.randint(-16, 17, size=(4, 2, 3)) / 4.0, v["layout"])
    if v["layout"] not in ("C", "F") or v["n"] != 6:       # a tag, not a verdict: two witnesses are enough
        return None, None, []
    calls = {"onesample.stat": lambda ax: onesample.stat(Y, "student", 0.0, ax)}
    bad = []
    for name, f in calls.items():
        for ax in (-3,):
            def child(w, f=f, ax=ax):
                out = []
                for a in (ax, ax + 3):
                    try:
                        out.append(("ok", np.asarray(f(a)).tobytes()))
                    except Exception as e:
                        out.append(("exc", type(e).__name__))
                os.write(w, pickle.dumps(out))
            rd, wr = os.pipe()
            st, sig = forked(lambda: child(wr), timeout=3)
            os.close(wr)
            data = b""
            while True:
                chunk = os.read(rd, 1 << 16)
                if not chunk:
                    break
                data += chunk
            os.close(rd)
            if st in ("crash", "hang"):
                bad.append(f"nipy.labs.group.{name}(..., axis={ax}) " + (f"crashes the interpreter (signal {sig})" if st == "crash" else "hangs"))
            elif data:
                out = pickle.loads(data)
                if out[0][0] == "ok" and out[1][0] == "ok" and out[0][1] != out[1][1]:
                    bad.append(f"nipy.labs.group.{name}(..., axis={ax}) differs from axis={ax + 3} on the same data "
                               f"(the glue walks memory outside the fibres)")
    mutated, exc, ev = call([lambda: onesample.stat(Y, "student", 0.0, 0)], Y=Y, V=V, Y2=Y2)
    # the installed extension modules are not a witness of /repo's source (the defect is fixed in fffpy.c and checked on
    # the re-compiled file by the `fffpy` kernel cases): what the stale binaries do is recorded as a tag only
    return mutated, exc, ev, (["stale-binary-negative-axis"] if bad else ["stale-binary-negative-axis-ok"])
