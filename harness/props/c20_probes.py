"""C20 direct probes: public routines called with C / Fortran / strided / reversed /
read-only / singleton / empty inputs; the observation is (mutated argument | None,
exception class | None).  A Python exception is an accepted refusal; a mutation of
caller data (unless the routine is documented in place) or an interpreter crash
is a violation of C20."""
from __future__ import annotations

import numpy as np

from harness.util import Snapshot

LAYOUTS = ["C", "F", "strided", "reversed", "readonly"]
PROBES = {}


def probe(name, sizes=(6, 1, 0)):
    def deco(f):
        PROBES[name] = (f, sizes)
        return f
    return deco


def lay(a, layout):
    """Return an array equal to `a` with the requested memory layout."""
    a = np.asarray(a)
    if layout == "C":
        return np.ascontiguousarray(a).copy()
    if layout == "F":
        return np.asfortranarray(a).copy(order="F")
    if layout == "strided":
        big = np.zeros(tuple(2 * s for s in a.shape), dtype=a.dtype)
        v = big[tuple(slice(None, None, 2) for _ in a.shape)]
        v[...] = a
        return v
    if layout == "reversed":
        big = a[tuple(slice(None, None, -1) for _ in a.shape)].copy()
        return big[tuple(slice(None, None, -1) for _ in a.shape)]
    if layout == "readonly":
        b = np.ascontiguousarray(a).copy()
        b.setflags(write=False)
        return b
    raise ValueError(layout)


def call(fn, **objs):
    """Run `fn` (a thunk, or a list of thunks run independently); returns
    (name of first mutated argument | None, '+'-joined exception class names | None)."""
    snap = Snapshot(**objs)
    excs = []
    for f in (fn if isinstance(fn, (list, tuple)) else [fn]):
        try:
            f()
        except Exception as e:  # accepted refusal
            excs.append(type(e).__name__)
    return snap.changed(), ("+".join(sorted(set(excs))) or None)


def rs(v):
    return np.random.RandomState(v["seed"])


# ---------------------------------------------------------------- statistics
@probe("regression.yule_walker")
def _(v):
    from nipy.algorithms.statistics.models.regression import yule_walker
    X = lay(rs(v).randint(-5, 6, size=v["n"] + 3).astype(float), v["layout"])
    return call(lambda: yule_walker(X, order=2), X=X)


@probe("regression.OLSModel.fit")
def _(v):
    from nipy.algorithms.statistics.models.regression import OLSModel
    r = rs(v); n = v["n"] + 3
    X = lay(np.column_stack([np.ones(n), r.randint(-3, 4, size=n)]).astype(float), v["layout"])
    Y = lay(r.randint(-5, 6, size=(n, 2)).astype(float), v["layout"])
    return call(lambda: OLSModel(X).fit(Y), X=X, Y=Y)


@probe("regression.ARModel.fit")
def _(v):
    from nipy.algorithms.statistics.models.regression import ARModel
    r = rs(v); n = v["n"] + 4
    X = lay(np.column_stack([np.ones(n), np.arange(n)]).astype(float), v["layout"])
    Y = lay(r.randint(-5, 6, size=n).astype(float), v["layout"])
    rho = np.array([0.25])
    return call(lambda: ARModel(X, rho).fit(Y), X=X, Y=Y, rho=rho)


@probe("utils.multiple_mahalanobis")
def _(v):
    from nipy.algorithms.statistics.utils import multiple_mahalanobis
    r = rs(v); k = max(v["n"], 1)
    eff = lay(r.randint(-3, 4, size=(3, k)).astype(float), v["layout"])
    A = r.randint(-2, 3, size=(k, 3, 3)).astype(float)
    cov = np.einsum("kij,klj->ilk", A, A) + 3 * np.eye(3)[:, :, None]
    cov = lay(cov, v["layout"])
    return call(lambda: multiple_mahalanobis(eff, cov), eff=eff, cov=cov)


@probe("utils.z_score")
def _(v):
    from nipy.algorithms.statistics.utils import z_score
    p = lay(rs(v).rand(v["n"]), v["layout"])
    return call(lambda: z_score(p), p=p)


@probe("empirical_pvalue.fdr")
def _(v):
    from nipy.algorithms.statistics.empirical_pvalue import fdr, fdr_threshold
    p = lay(rs(v).rand(v["n"]), v["layout"])
    return call(lambda: (fdr(p), fdr_threshold(p, 0.2)), p=p)


@probe("onesample.estimate_mean")
def _(v):
    from nipy.algorithms.statistics.onesample import estimate_mean, estimate_varatio
    r = rs(v)
    Y = lay(r.randn(4, v["n"]), v["layout"]); sd = lay(1 + r.rand(4, v["n"]), v["layout"])
    return call(lambda: (estimate_mean(Y, sd), estimate_varatio(Y, sd)), Y=Y, sd=sd)


@probe("onesample.estimate_varatio(df)")
def _(v):
    from nipy.algorithms.statistics.onesample import estimate_varatio
    r = rs(v)
    Y = lay(r.randn(4, v["n"]), v["layout"]); sd = lay(1 + r.rand(4, v["n"]), v["layout"])
    df = lay(np.array([3., 5., 2., 30.]), v["layout"])
    return call(lambda: estimate_varatio(Y, sd, df=df, niter=3), Y=Y, sd=sd, df=df)


@probe("mixed_effects_stat.one_sample_ttest")
def _(v):
    from nipy.algorithms.statistics.mixed_effects_stat import one_sample_ttest
    r = rs(v)
    Y = lay(r.randn(6, v["n"]), v["layout"]); V1 = lay(1 + r.rand(6, v["n"]), v["layout"])
    return call(lambda: one_sample_ttest(Y, V1, n_iter=3), Y=Y, V1=V1)


@probe("_quantile.quantile+median")
def _(v):
    from nipy.algorithms.statistics import quantile, median
    X = lay(rs(v).randint(-9, 10, size=(v["n"], 3)).astype(float), v["layout"])
    return call(lambda: (quantile(X, 0.3, axis=0), median(X, axis=0)), X=X)


@probe("histogram.histogram")
def _(v):
    from nipy.algorithms.statistics.histogram import histogram
    x = lay(rs(v).randint(0, 7, size=(v["n"], 2)).astype(np.uintp), v["layout"])
    return call(lambda: histogram(x), x=x)


@probe("intvol.EC3d+Lips3d")
def _(v):
    from nipy.algorithms.statistics import intvol
    r = rs(v); n = max(v["n"] // 2, 1) if v["n"] else 0
    m = lay(r.randint(0, 2, size=(n, 3, 2)), v["layout"])
    c = lay(np.indices((n, 3, 2)).astype(float), v["layout"])
    return call(lambda: (intvol.EC3d(m), intvol.Lips3d(c, m)), m=m, c=c)


@probe("intvol.EC2d+Lips2d+EC1d+Lips1d")
def _(v):
    from nipy.algorithms.statistics import intvol
    r = rs(v); n = v["n"]
    m2 = lay(r.randint(0, 2, size=(n, 3)), v["layout"]); c2 = lay(np.indices((n, 3)).astype(float), v["layout"])
    m1 = lay(r.randint(0, 2, size=(n,)), v["layout"]); c1 = lay(np.indices((n,)).astype(float), v["layout"])
    return call(lambda: (intvol.EC2d(m2), intvol.Lips2d(c2, m2), intvol.EC1d(m1), intvol.Lips1d(c1, m1)),
                m2=m2, c2=c2, m1=m1, c1=c1)


# ---------------------------------------------------------------- utils / diagnostics
@probe("pca.pca")
def _(v):
    from nipy.algorithms.utils.pca import pca
    r = rs(v); n = v["n"] + 2
    d = lay(r.randn(n, 3, 2), v["layout"]); mask = lay(r.randint(0, 2, size=(3, 2)), v["layout"])
    return call(lambda: pca(d, axis=0, mask=mask, ncomp=2), d=d, mask=mask)


@probe("timediff.time_slice_diffs")
def _(v):
    from nipy.algorithms.diagnostics.timediff import time_slice_diffs
    d = lay(rs(v).randint(0, 9, size=(3, 2, 2, v["n"])).astype(float), v["layout"])
    return call(lambda: time_slice_diffs(d), d=d)


@probe("mask.routines")
def _(v):
    from nipy.labs import mask as M
    r = rs(v); n = v["n"]
    vol = lay(r.randint(0, 100, size=(n, 4, 3)).astype(float), v["layout"])
    m1 = lay(r.randint(0, 2, size=(n, 4, 3)).astype(bool), v["layout"])
    m2 = lay(r.randint(0, 2, size=(n, 4, 3)).astype(bool), v["layout"])

    def go():
        M.compute_mask(vol)
        M.largest_cc(m1)
        M.threshold_connect_components(vol, 30)
        M.intersect_masks([m1, m2], threshold=0.5, cc=False)
    return call(go, vol=vol, m1=m1, m2=m2)


@probe("matrices")
def _(v):
    from nipy.algorithms.utils import matrices as mm
    X = lay(rs(v).randint(-2, 3, size=(v["n"], 3)).astype(float), v["layout"])
    return call(lambda: (mm.matrix_rank(X), mm.full_rank(X), mm.pos_recipr(X), mm.recipr0(X)), X=X)


@probe("fast_distance.euclidean_distance")
def _(v):
    from nipy.algorithms.utils.fast_distance import euclidean_distance
    r = rs(v)
    X = lay(r.randn(v["n"], 2), v["layout"]); Y = lay(r.randn(3, 2), v["layout"])
    return call(lambda: (euclidean_distance(X, Y), euclidean_distance(X)), X=X, Y=Y)


# ---------------------------------------------------------------- graph / clustering
@probe("graph.builders+algorithms")
def _(v):
    from nipy.algorithms.graph import graph as G
    r = rs(v); n = v["n"]
    X = lay(r.randint(-3, 4, size=(n, 2)).astype(float), v["layout"])

    ops = [lambda: G.knn(X, 2).dijkstra(0), lambda: G.knn(X, 1).cc(), lambda: G.eps_nn(X, 2.0),
           lambda: G.mst(X), lambda: G.knn(X, 20), lambda: G.lil_cc([[1], [0], []])]
    return call(ops, X=X)


@probe("graph.WeightedGraph(edges)")
def _(v):
    from nipy.algorithms.graph.graph import WeightedGraph
    r = rs(v); n = max(v["n"], 1); e = 2 * n
    edges = lay(r.randint(0, n, size=(e, 2)), v["layout"]); w = lay(r.randint(0, 4, size=e).astype(float), v["layout"])

    mk = lambda: WeightedGraph(n, edges, w)
    ops = [lambda: mk().dijkstra(0), lambda: mk().floyd(), lambda: mk().cc(),
           lambda: mk().remove_trivial_edges(), lambda: mk().cut_redundancies(),
           lambda: mk().normalize(0), lambda: mk().symmeterize(), lambda: mk().anti_symmeterize(),
           lambda: mk().voronoi_labelling([0]), lambda: mk().kruskal(), lambda: mk().to_coo_matrix(),
           lambda: mk().subgraph(np.arange(n) % 2 == 0), lambda: mk().compact_neighb()]
    return call(ops, edges=edges, w=w)


@probe("field.Field ops")
def _(v):
    from nipy.algorithms.graph.field import field_from_graph_and_data
    from nipy.algorithms.graph.graph import wgraph_from_3d_grid
    r = rs(v); n = v["n"]
    xyz = lay(np.array([[i, i % 2, 0] for i in range(n)]).reshape(n, 3), v["layout"])
    f = lay(r.randint(0, 5, size=(n, 1)).astype(float), v["layout"])

    mk = lambda: field_from_graph_and_data(wgraph_from_3d_grid(xyz, 18), f)
    # dilation / erosion / opening / closing / diffusion are documented to change the field's own
    # data in place ("self.field is changed inplace"), and Field keeps the array it is given:
    # those run on a Field built from a copy
    mkc = lambda: field_from_graph_and_data(wgraph_from_3d_grid(xyz, 18), f.copy())
    ops = [lambda: mk().local_maxima(), lambda: mk().custom_watershed(), lambda: mk().threshold_bifurcations(),
           lambda: mkc().dilation(1), lambda: mkc().erosion(1), lambda: mkc().opening(1), lambda: mkc().closing(1),
           lambda: mk().ward(2), lambda: mkc().diffusion(2), lambda: mk().highest_neighbor(),
           lambda: mk().copy().dilation(1), lambda: mk().subfield(np.arange(n) % 2 == 0)]
    return call(ops, xyz=xyz, f=f)


@probe("clustering.kmeans+voronoi")
def _(v):
    from nipy.algorithms.clustering.utils import kmeans, voronoi
    r = rs(v); n = v["n"] + 2
    X = lay(r.randint(-4, 5, size=(n, 2)).astype(float), v["layout"])
    lab = lay(r.randint(0, 2, size=n), v["layout"]); cen = lay(r.randn(2, 2), v["layout"])
    return call(lambda: (kmeans(X, 2, Labels=lab, maxiter=5), voronoi(X, cen)), X=X, lab=lab, cen=cen)


@probe("clustering.ward")
def _(v):
    from nipy.algorithms.clustering.hierarchical_clustering import ward, ward_quick
    from nipy.algorithms.graph.graph import knn
    r = rs(v); n = v["n"] + 3
    X = lay(r.randint(-4, 5, size=(n, 2)).astype(float), v["layout"])

    ops = [lambda: ward(knn(X, 2), X).split(2), lambda: ward(knn(X, 2), X).partition(1.0),
           lambda: ward_quick(knn(X, 2), X)]
    return call(ops, X=X)


@probe("gmm.GMM")
def _(v):
    from nipy.algorithms.clustering.gmm import GMM
    r = rs(v); n = v["n"] + 6
    X = lay(r.randn(n, 2), v["layout"])

    def go():
        g = GMM(2, 2)
        g.initialize(X); g.estimate(X, niter=3); g.likelihood(X); g.map_label(X)
    return call(go, X=X)


# ---------------------------------------------------------------- registration / smoothing / resampling
@probe("affine.transforms")
def _(v):
    from nipy.algorithms.registration.affine import Affine, Rigid, Similarity
    r = rs(v)
    pts = lay(r.randn(v["n"], 3), v["layout"]); vec = lay(r.randn(12) * 0.1, v["layout"][0] == "r" and "C" or "C")
    m44 = lay(np.eye(4) + 0.1 * r.randn(4, 4) * np.array([1, 1, 1, 0])[:, None], v["layout"])

    ops = [lambda: Affine(vec).apply(pts), lambda: Affine(vec).compose(Rigid()).apply(pts),
           lambda: Rigid().compose(Affine(vec)).apply(pts), lambda: Affine(vec).inv().apply(pts),
           lambda: Similarity(m44).apply(pts), lambda: Rigid(m44).as_affine()]
    return call(ops, pts=pts, vec=vec, m44=m44)


@probe("cubic_spline")
def _(v):
    from nipy.algorithms.registration._registration import _cspline_transform, _cspline_sample3d
    r = rs(v); n = v["n"]
    d = lay(r.randn(n, 4, 3), v["layout"])

    def go():
        c = _cspline_transform(d)
        X, Y, Z = [lay(a.astype(float), v["layout"]) for a in np.indices((n, 4, 3))]
        R = np.zeros((n, 4, 3))
        _cspline_sample3d(R, c, X, Y, Z, mx="reflect", my="nearest", mz="zero")
    return call(go, d=d)


@probe("joint_histogram via HistogramRegistration")
def _(v):
    from nipy.core.api import Image
    from nipy.core.api import vox2mni
    from nipy.algorithms.registration import HistogramRegistration, Affine
    r = rs(v); n = v["n"] + 3
    a = lay(r.randint(0, 50, size=(n, 5, 4)).astype(np.int16), v["layout"])
    b = lay(r.randint(0, 50, size=(n, 5, 4)).astype(np.int16), v["layout"])

    def go():
        I = Image(a, vox2mni(np.eye(4))); J = Image(b, vox2mni(np.eye(4)))
        for interp in ("pv", "tri", "rand"):
            R = HistogramRegistration(I, J, interp=interp, from_bins=8, to_bins=8)
            R.eval(Affine()); R.eval(Affine(np.array([40., 0, 0, 0, 0, 0, 1, 1, 1, 0, 0, 0])))
    return call(go, a=a, b=b)


@probe("kernel_smooth.LinearFilter")
def _(v):
    from nipy.core.api import Image
    from nipy.core.api import vox2mni
    from nipy.algorithms.kernel_smooth import LinearFilter
    d = lay(rs(v).randint(0, 9, size=(v["n"], 4, 3)).astype(float), v["layout"])

    def go():
        img = Image(d, vox2mni(np.diag([2., 1, 3, 1])))
        LinearFilter(img.coordmap, img.shape, fwhm=3.0).smooth(img)
    return call(go, d=d)


@probe("resample.resample")
def _(v):
    from nipy.core.api import Image
    from nipy.core.api import vox2mni
    from nipy.algorithms.resample import resample
    d = lay(rs(v).randint(0, 9, size=(v["n"], 4, 3)).astype(float), v["layout"])
    A = np.eye(4)

    def go():
        img = Image(d, vox2mni(np.diag([2., 1, 3, 1])))
        resample(img, img.coordmap, A, img.shape, order=1)
    return call(go, d=d, A=A)


@probe("image ops")
def _(v):
    from nipy.core.api import Image
    from nipy.core.api import vox2mni, rollimg
    d = lay(rs(v).randint(0, 9, size=(v["n"], 4, 3)).astype(float), v["layout"])
    aff = np.diag([2., 1, 3, 1])

    def go():
        img = Image(d, vox2mni(aff))
        img[::2]; img.reordered_axes([2, 0, 1]); rollimg(img, 2); img.renamed_axes(i="a")
        list(img.iter_axis(0) if hasattr(img, "iter_axis") else [])
    return call(go, d=d, aff=aff)


@probe("coordmap ops")
def _(v):
    from nipy.core.api import AffineTransform, CoordinateSystem
    aff = lay(np.array([[2., 0, 0, 1], [0, 3, 0, 2], [0, 0, 4, 3], [0, 0, 0, 1]]), v["layout"])
    dn = {0: "a", "j": "b"}; rn = {1: "u"}; order = [2, 0, 1]

    def go():
        cm = AffineTransform(CoordinateSystem("ijk"), CoordinateSystem("xyz"), aff)
        cm.renamed_domain(dn).renamed_range(rn).reordered_domain(order).reordered_range(order)
        cm.inverse(); cm(np.zeros((2, 3)))
    return call(go, aff=aff, dn=dn, rn=rn, order=order)


# ---------------------------------------------------------------- fMRI
@probe("design_matrix.make_dmtx")
def _(v):
    from nipy.modalities.fmri.design_matrix import make_dmtx
    from nipy.modalities.fmri.experimental_paradigm import BlockParadigm
    r = rs(v); n = v["n"] + 4
    ft = lay(np.arange(n) * 2.0, v["layout"]); add = lay(r.randn(n, 2), v["layout"])
    ids = ["a", "b", "a"]; on = lay(np.array([0., 2, 4]), v["layout"]); du = lay(np.array([1., 1, 2]), v["layout"])

    def go():
        make_dmtx(ft, BlockParadigm(ids, on, du), "canonical with derivative", "polynomial",
                  drift_order=2, add_regs=add)
    return call(go, ft=ft, add=add, on=on, du=du, ids=ids)


@probe("glm.GeneralLinearModel")
def _(v):
    from nipy.modalities.fmri.glm import GeneralLinearModel
    r = rs(v); n = v["n"] + 6
    X = lay(np.column_stack([np.ones(n), r.randn(n)]), v["layout"]); Y = lay(r.randn(n, 3), v["layout"])
    con = np.array([0., 1.])

    def go():
        for model in ("ols", "ar1"):
            g = GeneralLinearModel(X); g.fit(Y, model=model)
            c = g.contrast(con); c.stat(); c.p_value(); c.z_score()
    return call(go, X=X, Y=Y, con=con)


@probe("labs.glm")
def _(v):
    from nipy.labs.glm import glm as G
    r = rs(v); n = v["n"] + 6
    X = lay(np.column_stack([np.ones(n), r.randn(n)]), v["layout"]); Y = lay(r.randn(n, 3), v["layout"])

    def go():
        for model, method in (("spherical", "ols"), ("spherical", "kalman"), ("ar1", None)):
            g = G.glm(Y, X, model=model, method=method)
            g.contrast([0, 1]).stat()
    return call(go, X=X, Y=Y)


@probe("labs.group.onesample+twosample")
def _(v):
    from nipy.labs.group import onesample, twosample
    r = rs(v); n = v["n"] + 2
    Y = lay(r.randn(n, 3), v["layout"]); V = lay(1 + r.rand(n, 3), v["layout"])
    Y2 = lay(r.randn(4, 3), v["layout"]); magics = lay(np.arange(4.0), v["layout"])

    def go():
        for s in ("mean", "median", "student", "laplace", "tukey", "sign", "wilcoxon", "elr"):
            onesample.stat(Y, id=s, axis=0, Magics=magics)
        onesample.stat_mfx(Y, V, id="student_mfx", axis=0, Magics=magics)
        twosample.stat(Y, Y2, id="student", axis=0)
    return call(go, Y=Y, V=V, Y2=Y2, magics=magics)


@probe("labs.utils.routines")
def _(v):
    from nipy.labs.utils import routines as R
    r = rs(v); n = v["n"]
    X = lay(r.randn(3, n), v["layout"])
    A = r.randn(n, 3, 3); VX = lay(np.einsum("kij,klj->ilk", A, A) + np.eye(3)[:, :, None], v["layout"])
    M = lay(r.randn(3, 4), v["layout"]); x = lay(1 + r.rand(n), v["layout"])

    def go():
        R.mahalanobis(X, VX); R.svd(M); R.gamln(2.5); R.psi(2.5)
        R.permutations(4, 3, 1); R.combinations(2, 4, 3, 1)
        R.quantile(x, 0.5) if hasattr(R, "quantile") else None
    return call(go, X=X, VX=VX, M=M, x=x)


@probe("labs.bindings.linalg")
def _(v):
    from nipy.labs.bindings import linalg as L
    r = rs(v); n = v["n"]
    a = lay(r.randn(n), v["layout"]); b = lay(r.randn(n), v["layout"])
    A = lay(r.randn(n, 3), v["layout"]); B = lay(r.randn(3, 2), v["layout"])

    def go():
        L.blas_ddot(a, b); L.blas_dnrm2(a); L.blas_dasum(a); L.blas_daxpy(2.0, a, b)
        L.blas_dgemm(0, 0, 1.0, A, B, 0.0, np.zeros((n, 2)))
        L.vector_add(a, b); L.vector_sub(a, b); L.vector_mul(a, b); L.vector_sum(a)
        L.matrix_add(A, A); L.matrix_transpose(A)
    return call(go, a=a, b=b, A=A, B=B)


@probe("segmentation.Segmentation")
def _(v):
    from nipy.algorithms.segmentation import Segmentation
    r = rs(v); n = v["n"] + 2
    d = lay(r.rand(n, 4, 3) * 100, v["layout"]); mask = lay(np.ones((n, 4, 3), dtype=bool), v["layout"])
    mu = np.array([20., 50, 80]); sigma = np.array([100., 100, 100])

    def go():
        S = Segmentation(d, mask=mask, mu=mu, sigma=sigma, beta=0.5, ngb_size=6)
        S.run(niters=2); S.map(); S.free_energy()
    return call(go, d=d, mask=mask, mu=mu, sigma=sigma)


@probe("slicetiming+hrf scalars")
def _(v):
    from nipy.algorithms.slicetiming import timefuncs as T
    from nipy.modalities.fmri import hemodynamic_models as hm
    n = v["n"]

    def go():
        for f in (T.st_01234, T.st_43210, T.st_02413, T.st_13024, T.st_42031, T.st_odd0_even1):
            f(n, 2.0)
        hm.spm_hrf(2.0, 4); hm.glover_hrf(2.0, 4)
    return call(go)
