"""C12 — operation histories on ONE Field object (helper of harness/props/C12.py).

Case: graph (V, edges with positive dyadic weights), initial field, constructor used
(`Field`, `field_from_graph_and_data`, `field_from_coo_matrix_and_data`) and raw steps.
Each step calls the real method on the one object; afterwards the whole object
(V, edges, weights, field) is written in the model's text form.  The Lean model replays
the whole history (one `fieldhist` line: dtype flag of the constructor data, graph, field, steps; `sete` / `setw`
steps replace the edges / weights in place and are model operations, refused edits included).  Oracle, independent of
the model:

  * an in-place operator gives the direct definition applied to the field as it was
    (closed-neighbourhood max/min per iteration, adjacency product per iteration);
  * edges and weights never change (graph attributes are not touched by field methods);
  * a query (`local_maxima`, `custom_watershed`, `threshold_bifurcations`,
    `constrained_voronoi`, `geodesic_kmeans`, `ward`, `get_field`, `compact_neighb`,
    `highest_neighbor`, `copy`, `subfield`) leaves the field as it was;
  * `constrained_voronoi` labels are geodesic for the field-difference metric.
"""
from __future__ import annotations

import random

import numpy as np

from harness.util import Snapshot, errname, fr, frs

MUT = ["dil", "dil", "dilslow", "ero", "ero", "open", "close", "diff", "set", "subr", "copyr", "sete", "sete", "setw"]
QRY = ["lmax", "glmax", "ws", "hn", "bif", "vor", "kmeans", "kmeansl", "ward", "getfield", "compact", "sub", "copy"]


def raw_step(rng, name):
    R = lambda: rng.randrange(1 << 16)   # noqa: E731
    if name in ("dil", "dilslow", "ero", "open", "close"):
        return [name, rng.choice([1, 1, 1, 2, 3, 0])]
    if name == "diff":
        return ["diff", rng.choice([1, 1, 2, 0])]
    if name == "sete":      # replace the edges in place, same number of edges (set_edges / attribute assignment)
        return ["sete", R(), rng.choice(["set_edges", "set_edges", "assign"])]
    if name == "setw":
        return ["setw", R()]
    if name == "set":
        return ["set", R(), rng.choice([1, 1, 2, 3]), rng.choice(["float64"] * 3 + ["float32", "int64", "int32", "uint8", "uint16", "int8"]),
                rng.choice(["2d", "2d", "1d"]), int(rng.random() < 0.08)]
    if name in ("sub", "subr"):
        dens = rng.choice([0.5, 0.7, 0.9, 0.0])
        return ["sub", [int(rng.random() < dens) for _ in range(16)], int(name == "subr"),
                rng.choice(["bool", "int"])]
    if name in ("copy", "copyr"):
        return ["copy", int(name == "copyr")]
    if name in ("lmax", "glmax", "ws", "bif"):
        return [name, R(), rng.choice([None, None, "val", "val", "mid", "above"]), R()]
    if name == "hn":
        return ["hn", R()]
    if name in ("vor", "kmeans"):
        return [name, [R() for _ in range(rng.choice([1, 2, 2, 3]))]]
    if name == "kmeansl":
        return ["kmeansl", [R() for _ in range(16)], rng.choice([1, 2, 3])]
    if name == "ward":
        return ["ward", R()]
    return [name]


def gen_steps(rng):
    steps = [raw_step(rng, rng.choice(QRY))]
    diffs = 0
    for _ in range(rng.choice([1, 2, 2, 3, 4])):
        m = rng.choice(MUT)
        if m == "diff":
            diffs += 1
            if diffs > 2:
                m = "dil"
        steps.append(raw_step(rng, m))
        for _ in range(rng.choice([1, 1, 2])):
            steps.append(raw_step(rng, rng.choice(QRY)))
    return steps


# ----------------------------------------------------------------------
def cols_of(a):
    a = np.asarray(a)
    a = a.reshape(a.shape[0], -1)
    return [a[:, d].tolist() for d in range(a.shape[1])]


def state_text(F):
    E = np.asarray(F.edges).reshape(-1, 2).tolist() if np.size(F.edges) else []
    W = np.asarray(F.weights, dtype=float).ravel().tolist()
    es = " ".join(f"{int(a)}>{int(b)}:{fr(w)}" for (a, b), w in zip(E, W))
    cs = " | ".join(frs(c) for c in cols_of(F.field))
    return f"{int(F.V)} | {es} | {cs} | {int(np.asarray(F.field).dtype == np.float64)}"


def gtxt(V, E):
    return f"{V} {len(E)} " + " ".join(f"{i} {j} {fr(w)}" for i, j, w in E) if E else f"{V} 0"


def ftxt(a):
    a = np.asarray(a)
    a = a.reshape(a.shape[0], -1)
    return f"{a.shape[1]} " + " ".join(f"{a.shape[0]} " + " ".join(fr(x) for x in a[:, d].tolist())
                                       for d in range(a.shape[1]))


def nbrs_of(F):
    V = int(F.V)
    nb = [{i} for i in range(V)]
    E = np.asarray(F.edges).reshape(-1, 2).tolist() if np.size(F.edges) else []
    for i, j in E:
        nb[int(i)].add(int(j))
    return [sorted(s) for s in nb]


def make_field(Field, case):
    V = case["V"]
    E = case["edges"]
    edges = np.array([[e[0], e[1]] for e in E], dtype=np.int_).reshape(-1, 2)
    w = np.array([e[2] for e in E], dtype=float)
    data = np.array(case["field"], dtype=case.get("dtype", "float64"))
    how = case.get("ctor", "Field")
    if how == "graph":
        from nipy.algorithms.graph.field import field_from_graph_and_data
        from nipy.algorithms.graph.graph import WeightedGraph
        return field_from_graph_and_data(WeightedGraph(V, edges.copy(), w.copy()), data)
    if how == "coo" and len(E):
        from scipy.sparse import coo_matrix
        from nipy.algorithms.graph.field import field_from_coo_matrix_and_data
        return field_from_coo_matrix_and_data(coo_matrix((w, (edges[:, 0], edges[:, 1])), shape=(V, V)), data)
    return Field(V, edges, w, data)


def geodesic_ok(F, seeds, label):
    """labels of constrained_voronoi: every labelled vertex is at minimal field-geodesic distance from
    the seed it is labelled by (ties allowed); unreachable vertices are -1"""
    V = int(F.V)
    fld = np.asarray(F.field, dtype=float).reshape(V, -1)
    E = np.asarray(F.edges).reshape(-1, 2).tolist() if np.size(F.edges) else []
    INF = float("inf")

    def dij(src):
        d = [INF] * V
        d[src] = 0.0
        done = [False] * V
        for _ in range(V):
            u = min((x for x in range(V) if not done[x]), key=lambda x: d[x], default=None)
            if u is None or d[u] == INF:
                break
            done[u] = True
            for a, b in E:
                if a == u:
                    nd = d[u] + float(np.sqrt(np.sum((fld[a] - fld[b]) ** 2)))
                    if nd < d[b]:
                        d[b] = nd
        return d
    ds = [dij(s) for s in seeds]
    for v in range(V):
        best = min(d[v] for d in ds)
        if best == INF:
            if label[v] != -1:
                return f"vertex {v} is unreachable from every seed but labelled {label[v]}"
        elif not (0 <= label[v] < len(seeds)) or ds[label[v]][v] > best + 1e-9 * (1 + abs(best)):
            return (f"vertex {v} labelled {label[v]}; geodesic distances to the seeds {seeds} are "
                    f"{[d[v] for d in ds]}")
    return None


def run_history(case):
    import warnings
    warnings.filterwarnings("ignore")
    from nipy.algorithms.graph.field import Field
    F = make_field(Field, case)
    V0 = case["V"]
    fails, tags, trail, toks = [], ["fieldhist", "ctor=" + case.get("ctor", "Field")], [], []
    obs = [state_text(F)]
    # the model is told the dtype of the data given to the constructor and predicts the dtype flag from then on
    line0 = (f"fieldhist {int(case.get('dtype', 'float64') == 'float64')} {gtxt(V0, case['edges'])} "
             f"{ftxt(np.array(case['field'], dtype=float).reshape(V0, -1))}")
    mutated = None

    def fail(msg):
        fails.append(f"after {' -> '.join(trail) or 'construction'}: {msg}")

    for step in case["steps"]:
        name = step[0]
        V = int(F.V)
        if name in ("sete", "setw"):
            # the graph of the object is replaced in place (same vertices; `bad` variants have a wrong number of
            # edges / an out-of-range vertex and must be refused with the object untouched): the model carries the
            # edit (FieldOp.setEdges / setWeights) and every later operation must answer for the new graph
            E_now = np.asarray(F.edges).reshape(-1, 2)
            if not len(E_now):
                continue
            sub = random.Random(step[1])
            bad = sub.random() < 0.12
            fld_before = np.array(F.field, copy=True)
            try:
                if name == "sete":
                    perm = list(range(V)); sub.shuffle(perm)
                    newE = np.array([[perm[int(a)], perm[int(b)]] for a, b in E_now.tolist()], dtype=E_now.dtype)
                    how = step[2]
                    if bad:
                        how = "set_edges"          # only the method has guards
                        if sub.random() < 0.5:
                            newE = newE[:-1] if len(newE) > 1 else np.vstack([newE, newE])
                        else:
                            newE[sub.randrange(len(newE)), sub.randrange(2)] = V + sub.randrange(3)
                    tok = f"sete {len(newE)} " + " ".join(f"{int(a)} {int(b)}" for a, b in newE.tolist())
                    if how == "assign":
                        F.edges = newE
                    else:
                        F.set_edges(newE)
                    trail.append(f"{how}(relabelled edges{', malformed' if bad else ''})")
                else:
                    nw = len(E_now) + (sub.choice([-1, 1]) if bad else 0)
                    w = [sub.choice([0.5, 1.0, 2.0, 0.25, 3.0]) for _ in range(nw)]
                    tok = f"setw {len(w)} " + " ".join(fr(x) for x in w)
                    trail.append(f"set_weights({'wrong size' if bad else '...'})")
                    F.set_weights(np.array(w))
                text = "none"
                if bad:
                    fail(f"{name}: a malformed graph edit was accepted")
            except ValueError as e:
                text = "error:valueError"
                if not bad:
                    fail(f"{name} raised {type(e).__name__}: {e}")
            except Exception as e:      # noqa: BLE001
                text = errname(e)
                fail(f"{name} raised {type(e).__name__}: {e}")
            if not np.array_equal(np.asarray(F.field), fld_before):
                fail(f"{name} changed the field")
            toks.append(tok)
            obs.append(text + " ~ " + state_text(F))
            tags.append("graph-replaced-in-place" if not bad else "graph-edit-refused")
            if bad and text == "none":
                break               # the object now holds a malformed graph: nothing more to learn from it
            continue
        before = np.array(F.field, dtype=float, copy=True).reshape(V, -1)
        dim = before.shape[1]
        edges_before = (np.array(F.edges, copy=True), np.array(F.weights, copy=True))
        nb = nbrs_of(F)
        is64 = np.asarray(F.field).dtype == np.float64
        Eb = np.asarray(F.edges).reshape(-1, 2).tolist() if np.size(F.edges) else []
        Wb = np.asarray(F.weights, dtype=float).ravel().tolist()
        want_field = before          # what the field must be afterwards (None: not checked here)
        expect_raise = False
        cont = False
        label = name

        def pick_dim_th(r_d, how, r_v):
            d = r_d % dim
            col = before[:, d]
            vals = sorted(set(col.tolist()))
            if how is None:
                return d, None, float(col.min() - 1)
            if how == "val":
                th = vals[r_v % len(vals)]
            elif how == "mid":
                th = vals[r_v % len(vals)] + 0.25
            else:
                th = vals[-1] + 1.0
            return d, th, th
        fmt = lambda r: "none"          # noqa: E731
        try:
            if name in ("dil", "dilslow"):
                n = step[1]
                fast = name == "dil"
                tok = f"dil {n} {int(fast)}"
                label = f"dilation({n}, fast={fast})"
                call = lambda: F.dilation(n, fast=fast)                    # noqa: E731
                a = before
                for _ in range(n):
                    a = np.array([a[nb[i]].max(0) for i in range(V)]).reshape(V, -1)
                want_field = a
            elif name == "ero":
                n = step[1]
                tok = f"ero {n}"
                label = f"erosion({n})"
                call = lambda: F.erosion(n)                                # noqa: E731
                a = before
                for _ in range(n):
                    a = np.array([a[nb[i]].min(0) for i in range(V)]).reshape(V, -1)
                want_field = a
            elif name in ("open", "close"):
                n = step[1]
                tok = f"{name} {n}"
                label = f"{name}ing({n})"
                call = (lambda: F.opening(n)) if name == "open" else (lambda: F.closing(n))
                a = before
                for red in ((np.min, np.max) if name == "open" else (np.max, np.min)):
                    for _ in range(n):
                        a = np.array([red(a[nb[i]], axis=0) for i in range(V)]).reshape(V, -1)
                want_field = a
            elif name == "diff":
                n = step[1]
                tok = f"diff {n}"
                label = f"diffusion({n})"
                call = lambda: F.diffusion(n)                              # noqa: E731
                A = np.zeros((V, V))
                for (i, j), w in zip(Eb, Wb):
                    A[i, j] += w
                want_field = np.linalg.matrix_power(A, n) @ before
            elif name == "set":
                sub = random.Random(step[1])
                d2, dt, shape, bad = step[2], step[3], step[4], bool(step[5])
                n = V + 1 if bad else V
                vals = [[sub.choice([0.0, 1.0, 2.0, 3.0, -1.0, 0.5, 1.5, 4.0]) for _ in range(d2)] for _ in range(n)]
                if dt.startswith("int"):
                    vals = [[float(int(x * 2)) for x in r] for r in vals]
                if dt.startswith("uint"):
                    vals = [[float(abs(int(x * 2))) for x in r] for r in vals]
                arr = np.array(vals, dtype=dt)
                if shape == "1d" and d2 == 1:
                    arr = arr.reshape(n)
                tok = f"set {int(dt == 'float64')} " + ftxt(np.array(vals, dtype=float).reshape(n, -1))
                label = f"set_field({dt} {arr.shape})"
                call = lambda: F.set_field(arr)                            # noqa: E731
                expect_raise = bad
                want_field = before if bad else np.array(vals, dtype=float).reshape(n, -1)
            elif name == "sub":
                bits, repl, dt = step[1], bool(step[2]), step[3]
                vb = [(bits * (1 + V // len(bits)))[k] for k in range(V)]
                valid = np.array(vb, dtype=bool if dt == "bool" else np.int_)
                if dt == "int":
                    valid = valid > 0        # Field.subfield indexes the field with `valid`
                tok = f"sub {int(repl)} {V} " + " ".join(map(str, vb))
                label = f"subfield({vb})" + (" [continue on it]" if repl else "")
                call = lambda: F.subfield(valid)                           # noqa: E731
                fmt = lambda r: "None" if r is None else state_text(r)     # noqa: E731
                cont = repl and sum(vb) > 0
            elif name == "copy":
                repl = bool(step[1])
                tok = f"copy {int(repl)}"
                label = "copy()" + (" [continue on it]" if repl else "")
                call = F.copy
                fmt = state_text
                cont = repl
            elif name in ("lmax", "glmax", "ws", "bif"):
                d, th, th_eff = pick_dim_th(step[1], step[2], step[3])
                kw = {} if th is None else {"th": th}
                meth = {"lmax": "local_maxima", "glmax": "get_local_maxima", "ws": "custom_watershed",
                        "bif": "threshold_bifurcations"}[name]
                tok = "frame" if name == "bif" else f"{name} {d} {fr(th_eff)}"
                label = f"{meth}({d}, th={th})"
                call = lambda: getattr(F, meth)(d, **kw)                   # noqa: E731
                if name == "lmax":
                    fmt = lambda r: "[" + " ".join(str(int(x)) for x in r) + "]"      # noqa: E731
                elif name in ("glmax", "ws"):
                    fmt = lambda r: "[" + " ".join(str(int(x)) for x in r[0]) + " | " + \
                        " ".join(str(int(x)) for x in r[1]) + "]"         # noqa: E731
                else:
                    fmt = lambda r: "-"                                    # noqa: E731
            elif name == "hn":
                d = step[1] % dim
                tok = f"hn {d}"
                label = f"highest_neighbor({d})"
                call = lambda: F.highest_neighbor(d)                       # noqa: E731
                fmt = lambda r: "[" + " ".join(str(int(x)) for x in r) + "]"          # noqa: E731
            elif name in ("vor", "kmeans"):
                seeds = list(dict.fromkeys(x % V for x in step[1]))
                sarr = np.array(seeds, dtype=np.int_)
                tok = "frame"
                fmt = lambda r: "-"                                        # noqa: E731
                if name == "vor":
                    label = f"constrained_voronoi({seeds})"
                    call = lambda: F.constrained_voronoi(sarr)             # noqa: E731
                else:
                    label = f"geodesic_kmeans(seeds={seeds})"
                    snap = Snapshot(seeds=sarr)
                    call = lambda: F.geodesic_kmeans(seeds=sarr, maxiter=5)   # noqa: E731
            elif name == "kmeansl":
                k = min(step[2], V)
                lab = [x % k for x in step[1]]
                lab = [(lab * (1 + V // len(lab)))[i] for i in range(V)]
                for c in range(k):
                    lab[c] = c                # every label present
                larr = np.array(lab, dtype=np.int_)
                tok = "frame"
                label = f"geodesic_kmeans(label={lab})"
                call = lambda: F.geodesic_kmeans(label=larr, maxiter=5)    # noqa: E731
                fmt = lambda r: "-"                                        # noqa: E731
            elif name == "ward":
                k = 1 + step[1] % V
                tok = "frame"
                label = f"ward({k})"
                call = lambda: F.ward(k)                                   # noqa: E731
                fmt = lambda r: "-"                                        # noqa: E731
            elif name == "getfield":
                tok = "frame"
                label = "get_field()"
                call = F.get_field
                fmt = lambda r: "-"                                        # noqa: E731
            elif name == "compact":
                tok = "frame"
                label = "compact_neighb()"
                call = (lambda: F.compact_neighb()) if Eb else (lambda: None)
                fmt = lambda r: "-"                                        # noqa: E731
            else:
                raise KeyError(name)
        except KeyError:
            raise
        tags.append("fop=" + name + ("+continue" if cont else ""))
        try:
            ret = call()
            ok = True
        except Exception as e:   # noqa: BLE001
            ok, err = False, e
        trail.append(label)
        if ok:
            text = fmt(ret)
            if expect_raise:
                fail(f"{label} accepted a field of the wrong size")
            if name == "vor":
                bad = geodesic_ok(F, seeds, [int(x) for x in ret])
                if bad:
                    fail(f"{label}: {bad}")
            if name in ("kmeans", "kmeansl"):
                lab_ = [int(x) for x in ret[1]]
                sd = [int(x) for x in ret[0]]
                if len(lab_) != V or any(not (-1 <= x < len(sd)) for x in lab_) or \
                        any(lab_[s_] != c for c, s_ in enumerate(sd) if len(set(sd)) == len(sd)):
                    fail(f"{label}: seeds {sd} labels {lab_} are not a labelling around the seeds")
                if name == "kmeans" and snap.changed():
                    mutated = "Field.geodesic_kmeans: " + snap.changed()
            if name == "ward":
                lab_ = [int(x) for x in ret[0]]
                if len(lab_) != V or min(lab_) < 0:
                    fail(f"{label}: labels {lab_}")
            if name == "getfield" and ret is not F.field:
                fail("get_field() does not return the field of the object")
            if name == "copy":
                if ret is F or ret.field is F.field or ret.edges is F.edges:
                    fail("copy() shares arrays with the original")
                elif state_text(ret) != state_text(F):
                    fail("copy() is not equal to the original")
            if name == "sub":
                keep = [v for v in range(V) if vb[v]]
                if not keep:
                    if ret is not None:
                        fail(f"{label} with nothing retained did not return None")
                elif ret is None:
                    fail(f"{label} returned None although vertices are retained")
                else:
                    ren = {v: k for k, v in enumerate(keep)}
                    want_e = [(ren[a], ren[b], w) for (a, b), w in zip(Eb, Wb) if vb[a] and vb[b]]
                    got_e = [(int(a), int(b), float(w)) for (a, b), w in
                             zip(np.asarray(ret.edges).reshape(-1, 2).tolist() if np.size(ret.edges) else [],
                                 np.asarray(ret.weights, dtype=float).ravel().tolist())]
                    got_f = np.array(ret.field, dtype=float).reshape(len(keep), -1) \
                        if np.size(ret.field) == len(keep) * dim else None
                    if int(ret.V) != len(keep) or got_e != want_e or got_f is None or \
                            not np.array_equal(got_f, before[keep]):
                        fail(f"{label} is not the restriction of the graph and field to the retained vertices: "
                             f"V={int(ret.V)} edges={got_e} expected V={len(keep)} edges={want_e}")
            if cont:
                F = ret
                want_field = None
        else:
            text = errname(err)
            # clustering helpers are documented not to handle several components / degenerate requests
            tolerated = name in ("kmeans", "kmeansl", "ward") or (name == "vor" and not Eb)
            if not expect_raise and not tolerated:
                fail(f"{label} raised {type(err).__name__}: {err}")
        if tok == "frame":
            text = "-"
        toks.append(tok)
        obs.append(text + " ~ " + state_text(F))
        # ---- frame conditions and direct definitions
        if not cont:
            if not (np.array_equal(np.asarray(F.edges), edges_before[0]) and
                    np.array_equal(np.asarray(F.weights), edges_before[1]) and int(F.V) == V):
                fail(f"{label} changed the graph attributes (edges/weights/V) of the object")
            now = np.array(F.field, dtype=float).reshape(int(F.V), -1)
            if ok and want_field is not None and (now.shape != want_field.shape or
                                                  not np.allclose(now, want_field, rtol=1e-12, atol=1e-12)):
                what = "changed the field" if want_field is before else "is not the direct definition"
                fail(f"{label} {what}: field {before.T.tolist()} -> {now.T.tolist()}"
                     + ("" if want_field is before else f", expected {want_field.T.tolist()}"))
            if not ok and not np.array_equal(now, before):
                fail(f"{label} raised and left the field modified")
    ntoks = len(toks)
    tags.append("fhist-len=" + str(min(ntoks, 12)))
    return {"lines": [(line0 + f" {len(toks)} " + " ".join(toks)).rstrip()],
            "impl": [("hist", " # ".join(obs))], "oracle": fails[0] if fails else None,
            "nontrivial": bool(case["edges"]) and ntoks >= 3, "tags": tags, "mutated": mutated}


def shrink_hist(case):
    steps = case["steps"]
    for k in range(len(steps) - 1, -1, -1):
        yield dict(case, steps=steps[:k] + steps[k + 1:])
    E = case["edges"]
    pairs = sorted({(min(i, j), max(i, j)) for i, j, _ in E})
    for pr in pairs:
        yield dict(case, edges=[e for e in E if (min(e[0], e[1]), max(e[0], e[1])) != pr])
    V = case["V"]
    if V > 1:
        yield dict(case, V=V - 1, edges=[e for e in E if e[0] < V - 1 and e[1] < V - 1], field=case["field"][:-1])
