"""C05 helper (wave 3): operation *histories on one model object* (several fits with one
`OLSModel` / `WLSModel` / `ARModel` / `GLSModel`, accessors of earlier results observed between and
after later fits, `ARModel.iterative_fit` / assignment of `rho` between fits), `yule_walker` options,
`GLSModel` acceptance / refusal of covariance matrices, `isestimable`, `ar_bias_corrector` /
`ar_bias_correct` options, the getters of the fMRI `GeneralLinearModel` for prescribed bin layouts,
`nipy.labs.glm.glm` contrasts (t / F / tmin) on N-d blocks for every axis, and the refined Kalman
filter (`fff_glm_RKF_fit`, re-compiled from /repo) against its exact model."""
from __future__ import annotations

import numpy as np

from harness.util import Snapshot, errname, fr, frs, parse_rats, plist, pmat
from harness.props import c05_results as RS
from harness.props.c05_results import near, worst, parse_tensor

#: accessors of a RegressionResults that must be values of (design, data, covariance structure) alone
ACC = ["theta", "wresid", "SSE", "MSE", "R2", "F_overall", "resid", "norm_resid", "predicted",
       "dispersion", "SST", "SSR", "MSR", "MST", "R2_adj"]
#: arrays a results object owns (computed by / for this fit): no two results may share their memory
OWN = ["theta", "wresid", "resid", "norm_resid", "predicted", "SSE", "MSE", "R2"]


def _get(res, name):
    with np.errstate(all="ignore"):
        if name == "F_overall":
            return np.asarray(res.F_overall["F"], float)
        return np.asarray(getattr(res, name))


# ----------------------------------------------------------------------
# histories on one model object
# ----------------------------------------------------------------------
def gen_hist(rng, H, tier):
    arobj = rng.random() < 0.45
    if arobj:
        n = rng.randint(5, 9); p = rng.randint(1, 2)
        order = max(1, min(rng.choice([1, 1, 2]), n - p - 2))
        X = H._design(rng, n, p, rng.choice(["int", "intercept"]))
        r = rng.random()
        if r < 0.5:
            w = {"kind": "ar", "rho": [0.0] * order, "as_int": True}       # ARModel(X, order)
        elif r < 0.75:
            w = {"kind": "ar", "rho": [0.0] * order}
        else:
            w = {"kind": "ar", "rho": H._pacf_to_ar([rng.randint(-10, 10) / 16.0 for _ in range(order)])}
    else:
        n = rng.randint(4, 12); p = rng.randint(1, min(3, n - 1))
        X = H._design(rng, n, p, rng.choice(["int", "intercept", "intercept", "dyadic"]))
        wk = rng.choice(["ols", "ols", "wls", "ar", "gls"])
        if wk == "ols":
            w = {"kind": "ols"}
        elif wk == "wls":
            w = {"kind": "wls", "c": [rng.choice([0.5, 1.0, 1.5, 2.0]) for _ in range(n)]}
        elif wk == "ar":
            order = rng.choice([1, 2, 3])
            w = {"kind": "ar", "rho": H._pacf_to_ar([rng.randint(-12, 12) / 16.0 for _ in range(order)])}
        else:
            a = rng.choice([0.25, 0.5, -0.5])
            S = [[a ** abs(i - j) for j in range(n)] for i in range(n)]
            w = {"kind": "gls", "sigma": S, "diag": False}
    steps, nfit, budget = [], 0, 3
    blocks = []
    for _ in range(rng.randint(2, 4)):
        if arobj and nfit and rng.random() < 0.7 and budget > 0:
            if rng.random() < 0.3:
                o = len(w["rho"])
                steps.append({"op": "set", "rho": [0.0] * o if rng.random() < 0.5 else
                              H._pacf_to_ar([rng.randint(-8, 8) / 16.0 for _ in range(o)])})
            k = rng.choice([0, 1, 1, 2]); k = min(k, budget); budget -= k
            src = rng.randrange(len(blocks))
            steps.append({"op": "iter", "src": src, "niter": k})
            if rng.random() < 0.4 and budget > 0:       # a second call on the same data continues the first
                k2 = 1; budget -= 1
                steps.append({"op": "iter", "src": src, "niter": k2})
        if blocks and rng.random() < 0.2:
            blk = dict(blocks[rng.randrange(len(blocks))])           # the same data fitted again
        else:
            v = rng.choice([1, 1, 2, 3, 4])
            blk = {"Y": H._data(rng, n, v, rng.choice(["int", "dyadic", "smooth"])),
                   "oneD": v == 1 and rng.random() < 0.5,
                   "ydtype": rng.choice([None, None, None, "int16", "int64", "uint8", "int8"]),
                   "ylayout": rng.choice([None, None, "F", "strided"])}
        blocks.append(blk)
        steps.append(dict({"op": "fit"}, **blk))
        nfit += 1
        for _ in range(rng.randint(0, 2)):
            steps.append({"op": "obs", "k": rng.randrange(nfit),
                          "names": rng.sample(ACC, rng.randint(1, 5))})
    return {"kind": "hist", "X": X, "w": w, "steps": steps,
            "xdtype": rng.choice([None, None, None, "int64", "int8"]) if w["kind"] != "gls" else None}


def _fresh(H, reg, w, X, rho=None):
    if w["kind"] == "ar":
        return reg.ARModel(X, np.array(w["rho"] if rho is None else rho, float))
    return H._make_model(reg, w, X)


def run_hist(H, case):
    from nipy.algorithms.statistics.models import regression as reg
    X = np.array(case["X"], float); n, p = X.shape
    w = case["w"]; steps = case["steps"]
    arw = w["kind"] == "ar"
    order = len(w["rho"]) if arw else 0
    Xp = H._presented(X, case.get("xdtype"))
    tags = ["hist", "w=" + w["kind"]]
    fail = None
    lines, impl = [], []
    snapX = Snapshot(X=Xp)

    def done(mut=None):
        return {"lines": lines, "impl": impl, "oracle": fail, "tags": tags, "nontrivial": True,
                "mutated": mut or snapX.changed()}

    try:
        if arw and w.get("as_int"):
            m = reg.ARModel(Xp, order)
        elif arw:
            m = reg.ARModel(Xp, list(w["rho"]))
        else:
            m = H._make_model(reg, w, Xp)
    except Exception as e:
        fail = f"{w['kind']} model construction raised {type(e).__name__}: {e}"
        return done()
    held = []           # what the caller holds: one record per fit
    hsteps = []         # iter / set steps for the model's history line
    rho_obs = []        # m.rho after each iterative_fit
    degenerate = False
    mut = None
    ymax = 1.0
    for st in steps:
        op = st["op"]
        try:
            if op == "fit":
                Y = np.array(st["Y"], float)
                ymax = max(ymax, float(np.abs(Y).max()))
                Yp = H._presented(Y, st.get("ydtype"), st.get("ylayout"))
                arg = Yp[:, 0] if st["oneD"] else Yp
                snap = Snapshot(Y=arg)
                res = m.fit(arg)
                mut = mut or snap.changed()
                rho_now = np.asarray(m.rho, float).copy().tolist() if arw else None
                if arw and not np.all(np.isfinite(rho_now)):
                    degenerate = True
                    break
                held.append({"res": res, "Y": Y, "oneD": st["oneD"], "rho": rho_now, "seen": {}, "ref": None})
            elif op == "set":
                m.rho = np.array(st["rho"], float)
                hsteps.append("set " + plist(st["rho"]))
            elif op == "iter":
                src = held[min(st["src"], len(held) - 1)]
                y = src["Y"][:, 0].copy()
                rho_before = np.asarray(m.rho, float).copy()
                try:
                    with np.errstate(all="ignore"):
                        m.iterative_fit(y, niter=st["niter"])
                except np.linalg.LinAlgError:
                    degenerate = True
                    break
                rho_after = np.asarray(m.rho, float).copy()
                if not np.all(np.isfinite(rho_after)) or float(np.abs(rho_after).max(initial=0.0)) > 50:
                    degenerate = True
                    break
                hsteps.append(f"iter {st['niter']} " + frs(y.tolist()))
                rho_obs.append(rho_after.tolist())
                # the same call on a fresh object holding the coefficients the object had
                fr_ = reg.ARModel(X, rho_before.copy())
                with np.errstate(all="ignore"):
                    fr_.iterative_fit(y.copy(), niter=st["niter"])
                if fail is None and not np.array_equal(np.asarray(fr_.rho, float), rho_after):
                    fail = (f"ARModel.iterative_fit(niter={st['niter']}) on an object with a history gives rho "
                            f"{rho_after.tolist()}, on a fresh ARModel(design, rho={rho_before.tolist()}) "
                            f"{np.asarray(fr_.rho, float).tolist()}")
                if fail is None and st["niter"] == 0 and not np.array_equal(rho_after, rho_before):
                    fail = "ARModel.iterative_fit(niter=0) changed rho"
                if fail is None and not near(m.wdesign, m.whiten(m.design), 1e-12, max(1.0, float(np.abs(X).max()))):
                    fail = (f"after ARModel.iterative_fit the whitened design is not whiten(design) for the "
                            f"object's rho={rho_after.tolist()}")
            else:       # obs
                h = held[min(st["k"], len(held) - 1)]
                r_ = _observe(H, reg, w, X, h, st["names"], held.index(h))
                fail = fail or r_
        except Exception as e:
            fail = fail or (f"history step {op} on a {w['kind']} model object raised {type(e).__name__}: {e} "
                            f"(n={n}, p={p})")
            tags.append("raised")
            return done(mut)
    if degenerate:
        tags.append("iter-degenerate-skipped")
        return done(mut)
    # final observation of every accessor of every result, after the whole history
    for k, h in enumerate(held):
        try:
            r_ = _observe(H, reg, w, X, h, ACC, k)
            fail = fail or r_
        except Exception as e:
            fail = fail or f"accessors of result {k} raised {type(e).__name__}: {e} after the history"
            return done(mut)
    # no two results share a buffer
    for a in range(len(held)):
        for b in range(a + 1, len(held)):
            for na in OWN:
                for nb in OWN:
                    xa, xb = held[a].get("live", {}).get(na), held[b].get("live", {}).get(nb)
                    if fail is None and isinstance(xa, np.ndarray) and isinstance(xb, np.ndarray) and \
                            xa.ndim and xb.ndim and np.shares_memory(xa, xb):
                        fail = f"results of fit {a} and fit {b} of one model object share the buffer of {na} / {nb}"
    if fail is None and len(held) >= 2:
        tags.append("multi-fit")
    # correspondence: every result, as it is after the history, against the model of a stand-alone fit
    c = [1.0] + [0.0] * (p - 1); Cm = np.eye(p)[:1]
    for k, h in enumerate(held):
        wk = dict(w, rho=h["rho"]) if arw else w
        ref = _fresh(H, reg, w, X, h["rho"])
        wX = np.asarray(ref.wdesign, float)
        cond = H._cond(wX); rt = H._rtol(cond)
        ys = max(1.0, float(np.abs(h["Y"]).max())) * H._wscale(wk, ref)
        res = h["res"]
        try:
            obs = H.CHECK._sections(res, X, c, Cm)
            souts = RS.apply_op(res, {"op": "stats"}, p)
            if arw and not np.array_equal(np.asarray(m.rho, float), np.asarray(h["rho"], float)):
                # logL / AIC / BIC are evaluated lazily through results.model, i.e. with the coefficients the
                # object holds *now*: not a value of the fit once rho was changed (outside the property: excluded)
                souts[12:15] = RS.apply_op(h["ref"], {"op": "stats"}, p)[12:15]
                tags.append("logL-after-rho-change-excluded")
            stats = RS.canon(souts)
        except Exception as e:
            fail = fail or f"contrasts / statistics of result {k} raised {type(e).__name__}: {e} after the history"
            continue
        Ym = h["Y"][:, :1] if h["oneD"] else h["Y"]
        v = Ym.shape[1]
        wl = H._wline(wk, ref)
        lines.append(f"fit {pmat(X)} {pmat(Ym)} {wl} {frs(c)} {pmat(Cm)}")
        impl.append(("fit", {kk: (a.tolist() if isinstance(a, np.ndarray) else a) for kk, a in obs.items()},
                     {"rtol": 4 * rt, "ys": ys, "n": n, "p": p, "v": v, "cabs": 1.0, "bfloor": H._bfloor(wX, ys)}))
        disp = np.atleast_1d(np.asarray(res.dispersion, float))
        covs = max(1e-300, float(np.abs(res.cov).max()))
        meta = {"rtol": 4 * rt, "ys": ys, "n": n, "p": p, "v": v, "bfloor": H._bfloor(wX, ys), "covs": covs,
                "cond": cond, "oneD": h["oneD"], "ops": [{"op": "stats"}], "df": n - p,
                "perfect": bool(np.any(disp < 1e-6 * ys * ys)), "xs": max(1.0, float(np.abs(wX).max())),
                "xs0": max(1.0, float(np.abs(X).max())), "ssemin": float(np.min(disp) * (n - p)), "tq": [None]}
        lines.append(f"res {pmat(X)} {pmat(Ym)} {wl} {1 if h['oneD'] else 0} 1 stats")
        impl.append(("res", [stats], meta))
    if arw and rho_obs:
        rho0 = w["rho"]
        lines.append(f"hrho {order} {plist(rho0)} {pmat(X)} {len(hsteps)} " + " ".join(hsteps))
        amp = (1 + max(float(np.abs(r).sum()) for r in rho_obs)) ** (2 * len(rho_obs) + 2)
        impl.append(("hrho", rho_obs, {"rtol": 100 * max(1e-9, 1e-12 * H._cond(X) ** 2 * amp)}))
        tags.append("iter-history")
    return done(mut)


def _observe(H, reg, w, X, h, names, k):
    """observe some accessors of a held results object: the first observation of an accessor must be the
    value a fresh model object gives for the same data; a later one must repeat the first bit for bit"""
    res = h["res"]
    h.setdefault("live", {})
    for name in names:
        val = _get(res, name)
        h["live"][name] = val if name != "F_overall" else np.asarray(0.0)
        if name in h["seen"]:
            if not np.array_equal(val, h["seen"][name], equal_nan=True):
                return (f"results.{name} of fit {k} changed between two observations while the model object was "
                        f"used for other fits: {worst(np.asarray(val, float), np.asarray(h['seen'][name], float))}")
            continue
        h["seen"][name] = np.array(val, copy=True)
        if h["ref"] is None:
            ref = _fresh(H, reg, w, X.copy(), h["rho"])
            Y = h["Y"].copy()
            h["ref"] = ref.fit(Y[:, 0] if h["oneD"] else Y)
        want = _get(h["ref"], name)
        a, b = np.asarray(val, float), np.asarray(want, float)
        ys = max(1.0, float(np.abs(h["Y"]).max())) * H._wscale(w if h["rho"] is None else dict(w, rho=h["rho"]), h["ref"].model)
        n = X.shape[0]
        ratio = name in ("R2", "R2_adj", "F_overall", "norm_resid")
        if ratio and bool(np.any(np.atleast_1d(np.asarray(h["ref"].dispersion, float)) < 1e-6 * ys * ys)):
            continue        # 0/0-like on a numerically perfect fit
        floor = {"theta": ys, "wresid": ys, "resid": ys, "predicted": ys, "SSE": ys * ys * n, "SST": ys * ys * n,
                 "SSR": ys * ys * n, "MSE": ys * ys, "MSR": ys * ys * n, "MST": ys * ys, "dispersion": ys * ys}.get(name, 1e-3)
        if a.shape != b.shape or not near(a, b, 1e-6 if ratio else 1e-9, floor):
            return (f"results.{name} of fit {k} (observed after later use of the model object) differs from the "
                    f"same accessor of a fresh {w['kind']} model fitted to the same data: {worst(a, b)}")
    return None


# ----------------------------------------------------------------------
# yule_walker: every option, every presentation of the series
# ----------------------------------------------------------------------
def gen_yw(rng, H, tier):
    n = rng.randint(4, 10) if rng.random() < 0.8 else rng.randint(11, 20)
    x = [r[0] for r in H._data(rng, n, 1, rng.choice(["int", "smooth", "smooth", "dyadic"]))]
    r = rng.random()
    order = rng.choice([1, 1, 2, 3]) if r < 0.7 else (0 if r < 0.8 else rng.randint(max(1, n - 2), n + 1))
    df = rng.choice([None, None, 0, n, n - 1, n + 3, order + 1, max(1, n - rng.randint(1, 3))])
    return {"kind": "yw2", "x": x, "order": order,
            "method": rng.choice(["unbiased", "unbiased", "mle", "MLE", "Unbiased", "UNBIASED", "mLe"]),
            "df": df, "inv": rng.choice([False, False, True, True, 1, 0]),
            "as": rng.choice(["f64", "list", "int", "f32", "strided", "rev", "readonly", "tuple"]),
            "scale": rng.choice([4.0, -1.0, 2.0 ** 20, 2.0 ** -20, -0.5, 3.0])}


def _present_series(x, how):
    x = np.asarray(x, float)
    if how == "list":
        return x.tolist()
    if how == "tuple":
        return tuple(x.tolist())
    if how == "int" and np.array_equal(x, np.round(x)):
        return x.astype(np.int16 if rngless_small(x) else np.int64)
    if how == "f32" and np.array_equal(x.astype(np.float32).astype(float), x):
        return x.astype(np.float32)
    if how == "strided":
        big = np.zeros(2 * x.size); big[::2] = x
        return big[::2]
    if how == "rev":
        return x[::-1].copy()[::-1]
    if how == "readonly":
        y = x.copy(); y.setflags(write=False)
        return y
    return x.copy()


def rngless_small(x):
    return bool(np.abs(x).max(initial=0.0) < 30000)


def run_yw(H, case):
    from nipy.algorithms.statistics.models import regression as reg
    x = np.array(case["x"], float); n = x.size
    o = case["order"]; method = case["method"]; df = case["df"]; inv = case["inv"]
    ub = method.lower() == "unbiased"
    tags = ["yw2", f"order={min(o, 4)}{'+' if o > 4 else ''}", "as=" + case["as"], "ub" if ub else "mle",
            "df=" + ("none" if df is None else "0" if df == 0 else "n" if df == n else "other")]
    lines, impl = [], []
    fail = None
    xp = _present_series(x, case["as"])
    snap = Snapshot(x=xp)

    def done():
        return {"lines": lines, "impl": impl, "oracle": fail, "tags": tags, "mutated": snap.changed(),
                "nontrivial": True}

    ys = max(1.0, float(np.abs(x).max()))
    xc = x - x.mean()
    nE = df or n
    den = [(nE - k) if ub else nE for k in range(o + 1)]
    try:
        if any(d == 0 for d in den):
            # a zero denominator: inf / nan autocovariances; whatever comes back must not look like an estimate
            tags.append("yw-zero-denominator")
            try:
                with np.errstate(all="ignore"):
                    out = reg.yule_walker(xp, o, method=method, df=df, inv=inv)
                if np.all(np.isfinite(np.asarray(out[0], float))) and np.isfinite(out[1]) and o > 0 and \
                        float(np.abs(xc).max()) > 0:
                    tags.append("yw-zero-denominator-finite")
            except (ValueError, np.linalg.LinAlgError, ZeroDivisionError):
                tags.append("yw-zero-denominator-raised")
            return done()
        r = np.array([(xc[:n - k] * xc[k:]).sum() / den[k] if k < n else 0.0 for k in range(o + 1)])
        R = np.array([[r[abs(a - b)] for b in range(o)] for a in range(o)]).reshape(o, o)
        if abs(r[0]) < 1e-12 * ys * ys or (o and np.linalg.cond(R) > 1e7):
            tags.append("yw-singular-skipped")
            return done()
        with np.errstate(all="ignore"):
            out = reg.yule_walker(xp, o, method=method, df=df, inv=inv)
            ref = reg.yule_walker(x.copy(), order=o, method=method.lower(), df=df, inv=True)
        want_len = 3 if inv == True else 2      # noqa: E712  (the source tests `inv == True`)
        if len(out) != want_len:
            fail = f"yule_walker(inv={inv!r}) returned {len(out)} values"
            return done()
        rho = np.asarray(out[0], float); sigma = float(out[1])
        cond = float(np.linalg.cond(R)) if o else 1.0
        rt = max(1e-11, 1e-14 * cond)
        rs = max(1.0, float(np.abs(ref[0]).max(initial=0.0)))
        if rho.shape != (o,):
            fail = f"yule_walker(order={o}) returned rho of shape {rho.shape}"
        if fail is None and not (near(rho, ref[0], 1e-12, rs) and
                                 (near(sigma, ref[1], 1e-12, ys) or (np.isnan(sigma) and np.isnan(ref[1])))):
            fail = (f"yule_walker of the series presented as {case['as']} (method={method!r}, inv={inv!r}) differs from "
                    f"the float64 copy: rho {rho.tolist()} vs {np.asarray(ref[0]).tolist()}, sigma {sigma!r} vs "
                    f"{float(ref[1])!r}")
        if fail is None and want_len == 3:
            Ri = np.asarray(out[2], float)
            if Ri.shape != (o, o) or not near(Ri @ R, np.eye(o), 100 * rt * max(1.0, cond), 1.0):
                fail = f"yule_walker(inv=True): third value is not the inverse of the Toeplitz matrix R"
        if fail is None and o and not near(R @ rho, r[1:], 10 * rt, float(np.abs(r).max())):
            fail = (f"yule_walker({method}, df={df}) does not solve the Yule-Walker equations R rho = r: "
                    f"{worst(R @ rho, r[1:])}")
        # df: None, 0 and n are the same request
        if fail is None and df in (None, 0, n):
            with np.errstate(all="ignore"):
                alts = [reg.yule_walker(x.copy(), o, method=method, df=d) for d in (None, 0, n)]
            if not all(np.array_equal(a[0], alts[0][0]) and (a[1] == alts[0][1] or np.isnan(a[1])) for a in alts):
                fail = "yule_walker: df=None, df=0 and df=len(X) give different estimates"
        # homogeneity: coefficients have degree 0, sigma degree 1
        a = case["scale"]
        with np.errstate(all="ignore"):
            sc = reg.yule_walker(x * a, o, method=method, df=df)
        if fail is None and not near(sc[0], ref[0], 100 * rt, rs):
            fail = f"yule_walker coefficients change when the series is multiplied by {a}"
        if fail is None and np.isfinite(ref[1]) and ref[1] > 1e-5 * ys and \
                not near(sc[1], abs(a) * ref[1], 1e4 * rt, abs(a) * float(ref[1])):
            fail = (f"yule_walker sigma is not homogeneous: {float(sc[1])!r} for the series times {a}, "
                    f"{float(ref[1])!r} before")
        for bad, kw in (("2-D input", dict(X=np.stack([x, x], 1))), ("unknown method", dict(X=x, method="ml2"))):
            try:
                reg.yule_walker(kw.pop("X"), o, **kw)
                if fail is None:
                    fail = f"yule_walker accepts {bad}"
            except ValueError:
                pass
        lines.append(f"yw {o} {1 if ub else 0} {-1 if df is None else df} {n} {frs(x.tolist())}")
        impl.append(("yw", {"rho": ref[0].tolist(), "sigma": float(ref[1]),
                            "Rinv": np.asarray(ref[2], float).ravel().tolist()},
                     {"rtol": rt, "r0": float(abs(r[0]))}))
    except Exception as e:
        fail = fail or (f"yule_walker(order={o}, method={method!r}, df={df}, inv={inv!r}) on a series of length {n} "
                        f"presented as {case['as']} raised {type(e).__name__}: {e}")
        lines, impl = [], []
        tags.append("raised")
    return done()


# ----------------------------------------------------------------------
# GLSModel: which covariance matrices are accepted, and the fit with the accepted ones
# ----------------------------------------------------------------------
def gen_gls(rng, H, tier):
    n = rng.randint(3, 8); p = rng.randint(1, min(3, n - 1)); v = rng.choice([1, 2, 3])
    X = H._design(rng, n, p, rng.choice(["int", "intercept", "dyadic"]))
    Y = H._data(rng, n, v, rng.choice(["int", "dyadic", "smooth"]))
    sk = rng.choice(["spd", "spd", "toeplitz", "diag", "ill", "ill", "indef", "indef", "semi", "semi"])
    L = np.tril(np.array([[rng.randint(-2, 2) for _ in range(n)] for _ in range(n)], float), -1) + np.eye(n)
    if sk == "spd":
        A = np.array([[rng.randint(-2, 2) for _ in range(n)] for _ in range(n)], float)
        S = A @ A.T / 4.0 + np.eye(n) * rng.choice([1.0, 0.25, 4.0])
    elif sk == "toeplitz":
        a = rng.choice([0.25, 0.5, -0.5, 0.75, -0.75])
        S = np.array([[a ** abs(i - j) for j in range(n)] for i in range(n)]) * rng.choice([1.0, 2.0 ** 10, 2.0 ** -10])
    elif sk == "diag":
        S = np.diag([2.0 ** rng.choice([-20, -10, -3, 0, 0, 2, 10, 20]) for _ in range(n)])
    elif sk == "ill":
        k = rng.choice([2, 4, 6, 8, 12, 16, 20])
        d = [2.0 ** rng.choice([-k, 0, 0, k]) for _ in range(n)]
        d[0], d[-1] = 2.0 ** k, 2.0 ** -k
        S = L @ np.diag(d) @ L.T
    elif sk == "indef":
        r = rng.random()
        if r < 0.4:
            d = [float(rng.choice([1, 2, 3, -1, -2])) for _ in range(n)]
            d[rng.randrange(n)] = -float(rng.randint(1, 3))
            S = L @ np.diag(d) @ L.T
        elif r < 0.7:
            B = np.array([[rng.randint(-2, 2) for _ in range(n)] for _ in range(n)], float)
            S = B + B.T
            S[rng.randrange(n)][rng.randrange(n)] += 0.0
        else:
            S = -np.eye(n) * rng.choice([1.0, 2.0])
    else:
        r = rng.random()
        if r < 0.6:
            k = rng.randint(1, n - 1)
            A = np.array([[rng.randint(-2, 2) for _ in range(k)] for _ in range(n)], float).reshape(n, k)
            S = A @ A.T
        elif r < 0.8:
            S = np.diag([float(rng.choice([0, 1, 2])) for _ in range(n - 1)] + [0.0])
        else:
            S = np.zeros((n, n))
    return {"kind": "gls", "X": X, "Y": Y, "S": S.tolist(), "sk": sk,
            "sdtype": rng.choice([None, None, "int64", "int16"]), "slayout": rng.choice([None, None, "F", "list"]),
            "scale": rng.choice([2.0, 0.5, 4.0, 2.0 ** 12, 2.0 ** -12])}


def run_gls(H, case):
    from nipy.algorithms.statistics.models import regression as reg
    X = np.array(case["X"], float); Y = np.array(case["Y"], float); S = np.array(case["S"], float)
    n, p = X.shape; v = Y.shape[1]
    tags = ["gls", "sigma=" + case["sk"]]
    lines, impl = [], []
    fail = None
    Sp = H._presented(S, case.get("sdtype"), "F" if case.get("slayout") == "F" else None)
    if case.get("slayout") == "list":
        Sp = Sp.tolist()
    snap = Snapshot(X=X, Y=Y, S=Sp)

    def done():
        return {"lines": lines, "impl": impl, "oracle": fail, "tags": tags, "mutated": snap.changed(),
                "nontrivial": True}

    ev = np.linalg.eigvalsh(S)
    smax = float(np.abs(ev).max())
    cond = float(smax / np.abs(ev).min()) if np.abs(ev).min() > 0 else float("inf")
    try:
        m = reg.GLSModel(X, Sp)
        got = "ok"
    except np.linalg.LinAlgError:
        m, got = None, "error:linalgError"
    except Exception as e:
        fail = f"GLSModel(design, sigma) raised {type(e).__name__}: {e} for a symmetric {n}x{n} sigma ({case['sk']})"
        tags.append("raised")
        return done()
    tags.append("accepted" if m is not None else "refused")
    lines.append(f"glsguard {pmat(S)}")
    impl.append(("glsguard", got, {"cond": cond}))
    if m is None:
        return done()
    if ev.min() <= 1e-9 * smax or cond > 1e6:
        # semidefinite / indefinite accepted (rounding-level pivot), or too ill conditioned for a comparison:
        # the acceptance line above is all that is compared
        tags.append("accepted-no-fit-check")
        return done()
    try:
        W = np.asarray(m.cholsigmainv, float)
        tolW = 1e-13 * cond * cond + 1e-12
        if not near(W.T @ W @ S, np.eye(n), tolW, 1.0):
            fail = (f"GLSModel: cholsigmainv' cholsigmainv sigma differs from the identity by "
                    f"{float(np.abs(W.T @ W @ S - np.eye(n)).max())!r} (condition number of sigma {cond:.3g})")
        res = m.fit(Y)
        th = np.asarray(res.theta, float); disp = np.atleast_1d(np.asarray(res.dispersion, float))
        cov = np.asarray(res.cov, float)
        wX = np.asarray(m.wdesign, float)
        cX = H._cond(wX)
        rt = max(1e-9, 1e-13 * cond * cond * max(1.0, cX))
        ys = max(1.0, float(np.abs(Y).max()))
        if rt < 1e-4:
            lines.append(f"glsx {pmat(X)} {pmat(Y)} {pmat(S)}")
            impl.append(("glsx", {"beta": th.tolist(), "sse": (disp * (n - p)).tolist(), "cov": cov.tolist()},
                         {"rtol": rt, "bs": H._bfloor(wX, ys * float(np.abs(W).sum(1).max())), "ys": ys, "n": n,
                          "smin": float(ev.min())}))
        # sigma and a * sigma (a > 0) describe the same problem: coefficients and the covariance of the
        # coefficients (dispersion * cov) do not change
        a = case["scale"]
        r2 = reg.GLSModel(X, S * a).fit(Y)
        bs = max(H._bfloor(wX, ys * float(np.abs(W).sum(1).max())), float(np.abs(th).max()))
        if fail is None and not near(r2.theta, th, 20 * rt, bs):
            fail = f"GLS coefficients change when sigma is multiplied by {a}: {worst(np.asarray(r2.theta), th)}"
        V1 = cov[:, :, None] * disp; V2 = np.asarray(r2.cov, float)[:, :, None] * np.atleast_1d(r2.dispersion)
        # (absolute floor = natural size of such a covariance: on a numerically perfect fit it is rounding noise)
        if fail is None and not near(V2, V1, 50 * rt, max(float(np.abs(V1).max()),
                                                          float(np.abs(cov).max()) * ys * ys * float(np.abs(W).max()) ** 2)):
            fail = f"GLS covariance of the coefficients changes when sigma is multiplied by {a}"
        # diagonal sigma, whatever its dynamic range: weighted least squares with weights 1 / diag
        if fail is None and case["sk"] == "diag":
            rw = reg.WLSModel(X, 1.0 / np.diag(S)).fit(Y)
            if not (near(rw.theta, th, 20 * rt, bs) and near(rw.dispersion, disp, 20 * rt, float(np.abs(disp).max()) + 1e-300)):
                fail = (f"GLSModel with the diagonal covariance diag{np.diag(S).tolist()} is not reproduced by "
                        f"WLSModel(weights=1/diag): {worst(np.asarray(rw.theta), th)}")
    except Exception as e:
        fail = fail or f"fit with an accepted GLSModel raised {type(e).__name__}: {e}"
        tags.append("raised")
    return done()


# ----------------------------------------------------------------------
# isestimable
# ----------------------------------------------------------------------
def _exact_rank(M):
    from fractions import Fraction
    A = [[Fraction(x) for x in row] for row in M]
    r = 0
    rows, cols = len(A), len(A[0]) if A else 0
    for c in range(cols):
        piv = next((i for i in range(r, rows) if A[i][c] != 0), None)
        if piv is None:
            continue
        A[r], A[piv] = A[piv], A[r]
        for i in range(r + 1, rows):
            f = A[i][c] / A[r][c]
            if f:
                A[i] = [x - f * y for x, y in zip(A[i], A[r])]
        r += 1
    return r


def gen_estim(rng, H, tier):
    n = rng.randint(2, 8); p = rng.randint(1, 5)
    r = rng.randint(0, min(n, p)) if rng.random() < 0.8 else min(n, p)
    A = np.array([[rng.randint(-2, 2) for _ in range(r)] for _ in range(n)], float).reshape(n, r)
    B = np.array([[rng.randint(-2, 2) for _ in range(p)] for _ in range(r)], float).reshape(r, p)
    D = A @ B
    if rng.random() < 0.25:       # dummy coding: the classical non-estimable case
        g = rng.randint(2, min(4, max(2, p - 1))) if p >= 3 else 1
        if p >= 3:
            lab = [rng.randrange(g) for _ in range(n)]
            D = np.array([[1.0] + [1.0 if lab[i] == k else 0.0 for k in range(g)] + [0.0] * (p - 1 - g) for i in range(n)])
    if p >= 2 and rng.random() < 0.25:
        D = D * np.array([2.0 ** rng.choice([-12, -6, 0, 0, 6, 12]) for _ in range(p)])
    q = rng.choice([1, 1, 2, 3])
    how = rng.choice(["rowspace", "rowspace", "random", "perturbed", "unit"])
    if how == "rowspace":
        M = np.array([[rng.randint(-2, 2) for _ in range(n)] for _ in range(q)], float)
        C = M @ D
    elif how == "random":
        C = np.array([[float(rng.randint(-2, 2)) for _ in range(p)] for _ in range(q)])
    elif how == "unit":
        C = np.eye(p)[[rng.randrange(p) for _ in range(q)]]
    else:
        M = np.array([[rng.randint(-2, 2) for _ in range(n)] for _ in range(q)], float)
        C = M @ D
        C[rng.randrange(q)][rng.randrange(p)] += rng.choice([1.0, -1.0, 0.5])
    oneD = q == 1 and rng.random() < 0.6
    bad = rng.random() < 0.08
    if bad:
        C = np.hstack([C, np.ones((q, 1))])
    return {"kind": "estim", "C": C.tolist(), "D": D.tolist(), "oneD": oneD,
            "cas": rng.choice(["array", "list", "int"]), "das": rng.choice(["array", "array", "F", "list", "int"])}


def run_estim(H, case):
    from nipy.algorithms.statistics.models import regression as reg
    C = np.array(case["C"], float); D = np.array(case["D"], float)
    q, pc = C.shape; n, p = D.shape
    tags = ["estim"]

    def pres(A, how):
        if how == "list":
            return A.tolist()
        if how == "int" and np.array_equal(A, np.round(A)) and float(np.abs(A).max(initial=0)) < 2 ** 30:
            return A.astype(np.int64)
        if how == "F":
            return np.asfortranarray(A)
        return A.copy()

    Cp = pres(C[0] if case["oneD"] else C, case["cas"]); Dp = pres(D, case["das"])
    snap = Snapshot(C=Cp, D=Dp)
    fail = None
    try:
        got = reg.isestimable(Cp, Dp)
        obs = "1" if got else "0"
        if not isinstance(got, (bool, np.bool_)):
            fail = f"isestimable returned {type(got).__name__}"
    except ValueError:
        obs = "error:valueError"
    except Exception as e:
        return {"lines": [], "impl": [], "oracle": f"isestimable raised {type(e).__name__}: {e}", "tags": tags + ["raised"],
                "nontrivial": True, "mutated": snap.changed()}
    tags.append("estimable" if obs == "1" else "not-estimable" if obs == "0" else "refused")
    if pc == p and obs in ("0", "1"):
        # the meaning of the answer, evaluated independently: C is estimable iff it vanishes on the null space
        # of the design (two solutions of the normal equations then give the same contrast value)
        want = _exact_rank(np.vstack([C, D]).tolist()) == _exact_rank(D.tolist())
        if fail is None and want != (obs == "1"):
            fail = (f"isestimable({C.tolist()}, design of exact rank {_exact_rank(D.tolist())}) returned {obs == '1'} "
                    f"but rank([C; D]) {'=' if want else '!='} rank(D) in exact arithmetic")
        # (only for designs in natural units: with columns scaled by 2^-12 .. 2^12 a unit null vector hides the
        # violating coordinate below any threshold; the exact-rank clause above covers those)
        nz = np.abs(D[D != 0])
        if fail is None and D.size and (nz.size == 0 or (nz.max() <= 64 and nz.min() >= 1.0 / 64)):
            u, sv, vt = np.linalg.svd(D)
            rk = _exact_rank(D.tolist())
            N = vt[rk:].T                                   # null space of the design
            leak = float(np.abs(C @ N).max(initial=0.0))
            if (obs == "1") != (leak <= 1e-8 * max(1.0, float(np.abs(C).max()))):
                fail = (f"isestimable returned {obs == '1'} but the contrast maps the design's null space to "
                        f"{leak!r}")
    elif pc != p and obs != "error:valueError":
        fail = f"isestimable accepts a contrast with {pc} columns for a design with {p}"
    line = f"estim {pmat(C)} {pmat(D)}"
    return {"lines": [line], "impl": [("text", obs, {})], "oracle": fail, "tags": tags, "nontrivial": True,
            "mutated": snap.changed()}


# ----------------------------------------------------------------------
# ar_bias_corrector / ar_bias_correct / AREstimator: every route and option
# ----------------------------------------------------------------------
def gen_bias(rng, H, tier):
    n = rng.randint(5, 12); p = rng.randint(1, min(3, n - 3))
    order = min(rng.choice([0, 1, 1, 2, 3]), n - p - 2)
    X = H._design(rng, n, p, rng.choice(["int", "intercept", "dyadic"]))
    route = rng.choice(["results", "invM", "estimator", "scale", "nd"])
    wk = rng.choice(["ols", "ols", "ols", "wls", "ar"])
    if wk == "wls":
        w = {"kind": "wls", "c": [rng.choice([0.5, 1.0, 1.5, 2.0]) for _ in range(n)]}
    elif wk == "ar":
        w = {"kind": "ar", "rho": [rng.choice([0.25, -0.5, 0.5])]}
    else:
        w = {"kind": "ols"}
    shape = [rng.choice([1, 2, 3])] if route != "nd" else [rng.choice([1, 2, 3]), rng.choice([1, 2])]
    v = int(np.prod(shape))
    return {"kind": "bias2", "X": X, "Y": H._data(rng, n, v, rng.choice(["int", "smooth", "smooth", "dyadic"])),
            "Y2": H._data(rng, n, rng.choice([1, 2]), "smooth"), "order": order, "route": route, "w": w,
            "shape": shape, "scale": [rng.choice([0.5, 1.0, 2.0, 3.0]) for _ in range(v)],
            "mult": rng.choice([8.0, -2.0, 2.0 ** 15, 2.0 ** -15])}


def run_bias(H, case):
    import types
    from nipy.algorithms.statistics.models import regression as reg
    X = np.array(case["X"], float); Y = np.array(case["Y"], float)
    n, p = X.shape; v = Y.shape[1]
    o = case["order"]; route = case["route"]; w = case["w"]
    tags = ["bias2", "route=" + route, f"order={o}", "w=" + w["kind"]]
    lines, impl = [], []
    fail = None
    snap = Snapshot(X=X, Y=Y)

    def done():
        return {"lines": lines, "impl": impl, "oracle": fail, "tags": tags, "mutated": snap.changed(),
                "nontrivial": True}

    try:
        m = H._make_model(reg, w, X)
        res = m.fit(Y)
        Rs = np.asarray(res.resid, float)
        ys = max(1.0, float(np.abs(Y).max()))
        invM = np.asarray(reg.ar_bias_corrector(m.design, m.calc_beta, o), float)
        c0 = None
        if route == "results":
            rh = reg.ar_bias_correct(res, o)
        elif route == "invM":
            rh = reg.ar_bias_correct(Rs.copy(), o, invM.copy())
        elif route == "estimator":
            est = reg.AREstimator(m, o)
            rh = est(res)
            other = est(m.fit(np.array(case["Y2"], float)))           # the estimator is used for another fit ...
            again = est(res)                                          # ... and then for the first one again
            if not np.array_equal(np.asarray(rh), np.asarray(again)):
                fail = "AREstimator gives a different answer for the same results after it was used for another fit"
            if not np.array_equal(np.asarray(est.invM), invM):
                fail = fail or "AREstimator.invM differs from ar_bias_corrector(model.design, model.calc_beta, p)"
        elif route == "scale":
            c0 = np.array(case["scale"], float) * (n - p)
            obj = types.SimpleNamespace(resid=Rs.copy(), scale=np.array(case["scale"], float), df_resid=n - p, model=m)
            rh = reg.ar_bias_correct(obj, o)
        else:
            shp = tuple(case["shape"])
            rh = reg.ar_bias_correct(Rs.reshape((n,) + shp).copy(), o, invM)
            want_shape = tuple(s for s in (o,) + shp if s != 1)
            if np.shape(rh) != want_shape:
                fail = f"ar_bias_correct of residuals of shape {(n,) + shp} (order {o}) returned shape {np.shape(rh)}"
        rh = np.asarray(rh, float)
        if route != "nd":
            want_shape = tuple(s for s in (o, v) if s != 1)
            if rh.shape != want_shape:
                fail = fail or f"ar_bias_correct (order {o}, {v} voxels, route {route}) returned shape {rh.shape}"
        if rh.size != o * v:
            return done()
        rh = rh.reshape(o, v)
        # independent evaluation (Worsley et al. 2002, appendix A.1), with R = I - design calc_beta
        Rm = np.eye(n) - X @ np.asarray(m.calc_beta, float)
        Ds = [np.eye(n)] + [np.eye(n, k=i) + np.eye(n, k=-i) for i in range(1, o + 1)]
        Mi = np.array([[np.trace(Rm @ Ds[i] @ Rm @ Ds[j]) / (2.0 if i > 0 else 1.0) for j in range(o + 1)]
                       for i in range(o + 1)])
        condM = float(np.linalg.cond(Mi)) * H._cond(np.asarray(m.wdesign, float)) ** 2
        rt = max(1e-10, 1e-13 * condM)
        if rt > 1e-5:
            tags.append("bias-ill-conditioned-skipped")
            return done()
        lag = np.array([(Rs[i:] * Rs[:n - i]).sum(0) for i in range(o + 1)])
        if c0 is not None:
            lag[0] = c0
        cv = np.linalg.solve(Mi, lag)
        with np.errstate(all="ignore"):
            want = np.where(cv[0] > 0, cv[1:] / np.where(cv[0] > 0, cv[0], 1.0), 0.0)
        small = bool(np.any(np.abs(cv[0]) < 1e-9 * ys * ys * n))
        if fail is None and not near(invM, np.linalg.inv(Mi), 100 * rt, float(np.abs(invM).max())):
            fail = f"ar_bias_corrector differs from inv(trace(R D_i R D_j)/(1+[i>0])): {worst(invM, np.linalg.inv(Mi))}"
        if fail is None and not small and not near(rh, want, 1e3 * rt, 1.0):
            fail = (f"ar_bias_correct (order {o}, route {route}) differs from the bias-corrected lag covariances "
                    f"computed independently: {worst(rh, want)}")
        # homogeneity: the estimates have degree 0 in the residuals (any sign, magnitudes far from 1)
        if fail is None and not small and route in ("results", "invM", "nd", "estimator"):
            a = case["mult"]
            r2 = np.asarray(reg.ar_bias_correct(Rs * a, o, invM), float).reshape(o, v)
            if not near(r2, rh, 1e3 * rt, 1.0):
                fail = f"ar_bias_correct changes when the residuals are multiplied by {a}: {worst(r2, rh)}"
        lines.append(f"arbias2 {o} {pmat(X)} {H._wline(w, m)} {pmat(Rs)} " +
                     ("0" if c0 is None else "1 " + frs(c0.tolist())))
        impl.append(("arbias", {"invM": invM.ravel().tolist(), "rho": rh.ravel().tolist()},
                     {"rtol": 10 * rt, "o": o, "v": v, "small": small}))
    except Exception as e:
        fail = fail or (f"ar_bias_correct machinery (route {route}, order {o}, w={w['kind']}) raised "
                        f"{type(e).__name__}: {e} (n={n}, p={p}, v={v})")
        lines, impl = [], []
        tags.append("raised")
    return done()


# ----------------------------------------------------------------------
# fMRI GeneralLinearModel getters for prescribed layouts of the AR(1) bins
# ----------------------------------------------------------------------
#: column_index presentations.  A tuple is an "array-like of int" too, but `theta[(0, 1)]` is a
#: two-axis index: get_beta((0, 1)) silently returns one element broadcast over the output (proposed fix
#: proposed_fixes/C05-get-beta-tuple-index.patch, in /repo as d63a32d).  The switch only serves to reproduce
#: the behaviour of older trees without a red check.
TUPLE_COLIDX = True
COLIDX_FORMS = ["int", "negint", "list", "array", "np64", "range", "tuple"]


def gen_bins(rng, H, tier):
    n = rng.randint(6, 12); p = rng.randint(1, min(3, n - 3))
    X = H._design(rng, n, p, rng.choice(["int", "intercept", "dyadic"]))
    lay = rng.choice(["same", "distinct", "interleaved", "blocks", "outlier", "random", "single"])
    v = 1 if lay == "single" else rng.randint(2, 7)
    k = {"same": 1, "single": 1, "outlier": 2}.get(lay, rng.randint(2, 3))
    if lay == "distinct":
        k = v
    if lay in ("same", "single"):
        grp = [0] * v
    elif lay == "distinct":
        grp = list(range(v))
    elif lay == "interleaved":
        grp = [j % k for j in range(v)]
    elif lay == "blocks":
        grp = sorted(rng.randrange(k) for _ in range(v))
        if rng.random() < 0.5:
            grp = grp[::-1]
    elif lay == "outlier":
        grp = [0] * v; grp[rng.randrange(v)] = 1
    else:
        grp = [rng.randrange(k) for _ in range(v)]
    bases = [[r[0] for r in H._data(rng, n, 1, rng.choice(["smooth", "smooth", "int"]))] for _ in range(max(grp) + 1)]
    amp = [rng.choice([1.0, 1.0, 2.0, -1.0, 0.5, 3.0]) for _ in range(v)]
    shift = [[float(rng.randint(-2, 2)) for _ in range(p)] for _ in range(v)]
    form = rng.choice(COLIDX_FORMS)
    if form == "tuple" and not TUPLE_COLIDX:
        form = "list"
    if form in ("int", "np64"):
        cols = [rng.randrange(p)]
    elif form == "negint":
        cols = [-rng.randint(1, p)]
    elif form == "range":
        cols = list(range(rng.randint(1, p)))
    else:
        cols = [rng.randrange(p) for _ in range(rng.randint(1, p + 1))]
        if rng.random() < 0.3:
            cols = [c - p if rng.random() < 0.5 else c for c in cols]
    perm = list(range(v)); rng.shuffle(perm)
    return {"kind": "bins", "X": X, "bases": bases, "grp": grp, "amp": amp, "shift": shift, "layout": lay,
            "steps": rng.choice([100, 100, 10, 7, 33, 1000]), "cols": cols, "form": form, "perm": perm,
            "refit": rng.choice(["none", "ols", "ar1-permuted", "ols-then-ar1"])}


def _colarg(cols, form):
    if form in ("int", "negint"):
        return int(cols[0])
    if form == "np64":
        return np.int64(cols[0])
    if form == "array":
        return np.array(cols)
    if form == "range":
        return range(len(cols))
    if form == "tuple":
        return tuple(cols)
    return list(cols)


def run_bins(H, case):
    from nipy.algorithms.statistics.models.regression import ARModel, OLSModel
    from nipy.modalities.fmri.glm import GeneralLinearModel
    X = np.array(case["X"], float); n, p = X.shape
    grp = case["grp"]; v = len(grp)
    Y = np.stack([case["amp"][j] * np.array(case["bases"][grp[j]], float) + X @ np.array(case["shift"][j], float)
                  for j in range(v)], 1)
    steps = case["steps"]; cols = case["cols"]; form = case["form"]
    tags = ["bins", "layout=" + case["layout"], "colidx=" + form, f"steps={steps}", "refit=" + case["refit"]]
    lines, impl = [], []
    fail = None
    snap = Snapshot(X=X, Y=Y)

    def done(nontrivial=True):
        return {"lines": lines, "impl": impl, "oracle": fail, "tags": tags, "mutated": snap.changed(),
                "nontrivial": nontrivial}

    ys = max(1.0, float(np.abs(Y).max()))
    a1, den = H.CHECK._ar1_float(X, Y, steps)
    if np.any(den < 1e-18 * ys * ys * n):
        tags.append("zero-residual-skipped")
        return done(False)
    safe = (np.abs(a1 - np.round(a1)) > 1e-6) | (np.abs(a1) < 0.5)
    try:
        g = GeneralLinearModel(X); g.fit(Y, model="ar1", steps=steps)
        lab = np.asarray(g.labels_, float).copy()
        B = g.get_beta(); M = g.get_mse(); LL = g.get_logL()
        Bc = g.get_beta(_colarg(cols, form))
        nb = len(set(np.round(lab * steps).astype(int).tolist()))
        tags.append("nbins=" + str(min(nb, 4)))
        cond = H._cond(X) * (1 + float(np.abs(lab).max())) / max(1e-3, 1 - float(np.abs(lab).max()))
        rt = H._rtol(cond); rt_o = 50 * rt
        bs = max(H._bfloor(X, ys), float(np.abs(B).max()))
        # (c) every form of column_index selects rows of get_beta()
        want = B[[c for c in cols]]
        if np.shape(Bc) != want.shape or not np.array_equal(Bc, want):
            fail = (f"get_beta(column_index={_colarg(cols, form)!r}) is not the selection of the rows {cols} of "
                    f"get_beta(): {worst(np.asarray(Bc, float), want) if np.shape(Bc) == want.shape else np.shape(Bc)}")
        # (a) every voxel: the scattered values are those of the single-voxel AR fit with the voxel's label
        for j in range(v):
            if fail:
                break
            rj = ARModel(X, lab[j]).fit(Y[:, j])
            if not near(np.asarray(rj.theta), B[:, j], rt_o, bs) or not near(rj.MSE, M[j], rt_o, 4 * ys * ys):
                fail = (f"voxel {j} (label {lab[j]}, layout {grp}): get_beta/get_mse {B[:, j].tolist()}, {M[j]!r} "
                        f"differ from the single-voxel ARModel fit {np.asarray(rj.theta).tolist()}, {float(rj.MSE)!r}")
            elif rj.dispersion > 1e-6 * ys * ys and not near(LL[j], rj.logL, 1e3 * rt_o, 1.0):
                fail = f"voxel {j}: get_logL {LL[j]!r} differs from the single-voxel logL {float(rj.logL)!r}"
        # voxels built from the same base series carry the same label
        for j in range(v):
            for j2 in range(j + 1, v):
                if fail is None and grp[j] == grp[j2] and safe[j] and safe[j2] and lab[j] != lab[j2]:
                    fail = (f"voxels {j} and {j2} have the same residual direction (same autocorrelation) but the "
                            f"labels {lab[j]} and {lab[j2]}")
        bins = [int(round(x * steps)) for x in lab]
        lines.append(f"glmget {steps} {pmat(X)} {pmat(Y)} {len(cols)} " + " ".join(str(c) for c in cols))
        impl.append(("glmget", {"bins": bins, "beta": np.asarray(B[[c for c in cols]], float).tolist(),
                                "mse": M.tolist(), "logL": LL.tolist()},
                     {"rtol": rt, "bs": bs, "ys": 2 * ys, "n": n}))
        keep = {"B": B.copy(), "M": M.copy(), "LL": LL.copy()}
        # history on the same object
        refit = case["refit"]
        if fail is None and refit in ("ols", "ols-then-ar1"):
            g.fit(Y, model="ols", steps=steps)
            r0 = OLSModel(X).fit(Y)
            if not (np.array_equal(g.labels_, np.zeros(v)) and near(g.get_beta(), r0.theta, 1e-12, bs)
                    and near(g.get_mse(), r0.MSE, 1e-12, ys * ys) and near(g.get_logL(), r0.logL, 1e-9, 1.0)
                    and np.array_equal(g.get_beta(_colarg(cols, form)), g.get_beta()[[c for c in cols]])):
                fail = "after a second fit(model='ols') on the same object the getters are not those of OLSModel"
        if fail is None and refit in ("ar1-permuted", "ols-then-ar1"):
            perm = case["perm"]
            g.fit(Y[:, perm], model="ar1", steps=steps)
            ok = safe[perm]
            if not (near(g.get_beta()[:, ok], keep["B"][:, perm][:, ok], rt_o, bs)
                    and near(g.get_mse()[ok], keep["M"][perm][ok], rt_o, 4 * ys * ys)):
                fail = (f"a second fit(model='ar1') of the permuted voxels {perm} on the same object does not "
                        f"permute get_beta / get_mse")
        if fail is None and not (np.array_equal(B, keep["B"]) and np.array_equal(M, keep["M"])
                                 and np.array_equal(LL, keep["LL"])):
            fail = "arrays returned by the getters changed when the object was fitted again"
    except Exception as e:
        fail = fail or (f"GeneralLinearModel getters (layout {grp}, column_index form {form}, steps={steps}) raised "
                        f"{type(e).__name__}: {e} (n={n}, p={p}, v={v})")
        lines, impl = [], []
        tags.append("raised")
    return done()


# ----------------------------------------------------------------------
# labs glm on N-d blocks: every axis, t / F / tmin contrasts, flat-vs-grid agreement
# ----------------------------------------------------------------------
#: grids with a trailing singleton axis and more than one voxel, e.g. data of shape (n, A, 1): fit() squeezes s2
#: to (A,) while the effect keeps (A, 1), so `stat()` of a one-row contrast broadcasts to (A, A) and divides the
#: effect of voxel i by the standard deviation of voxel k (proposed fix
#: proposed_fixes/C05-labs-contrast-singleton-grid.patch, in /repo as 16259cd).  The switch only serves to
#: reproduce the behaviour of older trees without a red check.
TRAILING_SINGLETON_GRID = True


def gen_labsnd(rng, H, tier):
    n = rng.randint(4, 8); p = rng.randint(1, min(3, n - 2))
    axis = rng.choice([0, 1, 2])
    A, B = rng.choice([1, 2, 2, 3]), rng.choice([1, 2, 2, 3])
    if B == 1 and A > 1 and not TRAILING_SINGLETON_GRID:
        B = 2
    shape = [A, B]; shape.insert(axis, n)
    Y3 = np.array([float(rng.randint(-6, 6)) for _ in range(int(np.prod(shape)))]).reshape(shape)
    ct = rng.choice(["t1d", "t1d", "t2d", "F", "F", "tmin", "F1"]) if p >= 2 else rng.choice(["t1d", "t2d", "F1"])
    if ct in ("F", "tmin"):
        q = rng.randint(2, p)
        for _ in range(50):
            C = [[float(rng.randint(-2, 2)) for _ in range(p)] for _ in range(q)]
            if np.linalg.matrix_rank(np.array(C)) == q:
                break
        else:
            C = np.eye(p)[:q].tolist()
    else:
        c = [float(rng.randint(-2, 2)) for _ in range(p)]
        if not any(c):
            c[rng.randrange(p)] = 1.0
        C = [c]
    return {"kind": "labsnd", "X": H._design(rng, n, p, rng.choice(["int", "intercept", "dyadic"])),
            "Y3": Y3.tolist(), "axis": axis, "C": C, "ctype": ct, "method": rng.choice(["ols", "ols", "kalman"]),
            "layout": rng.choice(["C", "C", "F", "moved"]), "cas": rng.choice(["array", "list", "int"])}


def run_labsnd(H, case):
    from nipy.labs.glm import glm as lg
    X = np.array(case["X"], float); Y3 = np.array(case["Y3"], float)
    axis = case["axis"]; ct = case["ctype"]; method = case["method"]
    n, p = X.shape
    C = np.array(case["C"], float); q = C.shape[0]
    if case.get("layout") == "F":
        Y3 = np.asfortranarray(Y3)
    elif case.get("layout") == "moved":
        Y3 = np.moveaxis(np.ascontiguousarray(np.moveaxis(Y3, axis, -1)), -1, axis)
    rest = [s for k, s in enumerate(Y3.shape) if k != axis]
    V = int(np.prod(rest))
    Y2 = np.ascontiguousarray(np.moveaxis(Y3, axis, 0).reshape(n, V))
    oneD = ct in ("t1d", "F1")
    carg = C[0] if oneD else C
    if case["cas"] == "list":
        carg = carg.tolist()
    elif case["cas"] == "int":
        carg = carg.astype(int)
    ty = {"t1d": "t", "t2d": "t", "F": "F", "tmin": "tmin", "F1": "F"}[ct]
    cond = H._cond(X); rt = H._rtol(cond)
    smax = float(np.linalg.svd(X, compute_uv=False).max())
    rk = 1e-5 * max(1.0, cond * cond / 1e4) + 1e-8 * smax * smax
    tol = rt if method == "ols" else 10 * rk
    ys = max(1.0, float(np.abs(Y3).max()))
    tags = ["labsnd", f"axis={axis}", "type=" + ct, "method=" + method, f"grid={rest[0]}x{rest[1]}"]
    snap = Snapshot(X=X, Y=Y3)
    H._fff()
    lines, impl = [], []
    fail = None
    try:
        g3 = lg.glm(Y3, X, axis=axis, method=method)
        g2 = lg.glm(Y2, X, method=method)
        c3 = g3.contrast(carg, type=ty); c2 = g2.contrast(carg, type=ty)
        e3 = np.asarray(c3.effect, float); v3 = np.asarray(c3.variance, float)
        e2 = np.asarray(c2.effect, float); v2 = np.asarray(c2.variance, float)
        bs = max(H._bfloor(X, ys), float(np.abs(g2.beta).max())) * max(1.0, float(np.abs(C).sum(1).max()))
        # natural size of a contrast variance (c nvbeta c' * s2): an absolute floor for blocks of perfect fits
        vs = max(float(np.abs(v2).max()),
                 float(np.abs(g2.nvbeta).max()) * float(np.abs(C).sum(1).max()) ** 2 * ys * ys)
        want_e = tuple(rest) if oneD else (q,) + tuple(rest)
        if e3.shape != want_e:
            fail = f"labs glm ({method}, axis={axis}) {ct} contrast effect has shape {e3.shape} on a grid {rest}"
        # voxel (i, j) of the grid is column i * B + j of the same fibres fitted as a 2-D block
        if fail is None and not near(e3.reshape(e2.shape), e2, 20 * tol, bs):
            fail = (f"labs glm ({method}, axis={axis}) {ct} contrast effect on the grid {rest} differs from the 2-D "
                    f"fit of the same fibres: {worst(e3.reshape(e2.shape), e2)}")
        if fail is None and (v3.size != v2.size or not near(v3.reshape(v2.shape), v2, 20 * tol, vs)):
            fail = (f"labs glm ({method}, axis={axis}) {ct} contrast variance on the grid {rest} differs from the "
                    f"2-D fit of the same fibres (voxels mixed up?): shapes {v3.shape} / {v2.shape}")
        with np.errstate(all="ignore"):
            s3 = np.asarray(c3.stat(), float); s2 = np.asarray(c2.stat(), float)
        ok2 = np.isfinite(s2) & (np.abs(s2) < 1e12)
        if fail is None and s3.size != V * (1 if True else 1):
            fail = (f"labs glm ({method}, axis={axis}) {ct} contrast: stat() has shape {s3.shape} for a grid {rest} of "
                    f"{V} voxels (effect {e3.shape}, variance {v3.shape}): statistics of different voxels are mixed")
        perfect = np.asarray(g2.s2, float).reshape(-1) < 1e-6 * ys * ys
        ok2 = ok2.reshape(-1) & ~perfect
        if fail is None and not near(s3.reshape(-1)[ok2], s2.reshape(-1)[ok2], 1e3 * tol, 1e-6):
            fail = (f"labs glm ({method}, axis={axis}) {ct} statistic on the grid {rest} differs from the 2-D fit of the "
                    f"same fibres: {worst(s3.reshape(-1)[ok2], s2.reshape(-1)[ok2])}")
        if fail is None and float(c3.dof) != n - p:
            fail = f"labs glm contrast dof {c3.dof}, n - p = {n - p}"
        lines.append(f"labsnd {axis} {method} {pmat(X)} {Y3.shape[0]} {Y3.shape[1]} {Y3.shape[2]} "
                     + frs(np.ascontiguousarray(Y3).ravel().tolist()) + f" {pmat(C)} {1 if oneD else 0}")
        impl.append(("labsnd", {"effect": (list(e3.shape), e3.ravel().tolist()), "variance": (list(v3.shape), v3.ravel().tolist()),
                                "stat": s3.ravel().tolist(), "type": ty, "q": q, "perfect": perfect.tolist()},
                     {"rtol": 20 * tol, "bs": bs, "vs": vs}))
    except Exception as e:
        fail = fail or (f"labs glm ({method}) {ct} contrast along axis {axis} of a {Y3.shape} block raised "
                        f"{type(e).__name__}: {e}")
        lines, impl = [], []
        tags.append("raised")
    return {"lines": lines, "impl": impl, "oracle": fail, "tags": tags, "mutated": snap.changed(), "nontrivial": True}


# ----------------------------------------------------------------------
# the refined Kalman filter (labs model='ar1'): the C recursion re-compiled from /repo
# ----------------------------------------------------------------------
_RKF = None


def _rkf_lib(H):
    """ctypes view of fff_glm_RKF (lib/fff/fff_glm_kalman.h)"""
    global _RKF
    if _RKF is None:
        import ctypes as C
        lib = H._fff()

        class RKF(C.Structure):
            _fields_ = [("t", C.c_size_t), ("dim", C.c_size_t), ("Kfilt", C.POINTER(H._KF)),
                        ("db", C.POINTER(H._Vec)), ("Hssd", C.POINTER(H._Mat)), ("spp", C.c_double),
                        ("Gspp", C.POINTER(H._Vec)), ("Hspp", C.POINTER(H._Mat)), ("b", C.POINTER(H._Vec)),
                        ("Vb", C.POINTER(H._Mat)), ("s2", C.c_double), ("a", C.c_double), ("dof", C.c_double),
                        ("s2_cor", C.c_double), ("vaux", C.POINTER(H._Vec)), ("Maux", C.POINTER(H._Mat))]

        lib.fff_glm_RKF_new.restype = C.POINTER(RKF)
        lib.fff_glm_RKF_new.argtypes = [C.c_size_t]
        lib.fff_glm_RKF_fit.argtypes = [C.POINTER(RKF), C.c_uint, C.POINTER(H._Vec), C.POINTER(H._Mat)]
        lib.fff_glm_RKF_fit.restype = None
        lib.fff_glm_RKF_delete.argtypes = [C.POINTER(RKF)]
        lib.fff_glm_RKF_delete.restype = None
        _RKF = (lib, RKF)
    return _RKF


def c_rkf(H, X, Y, niter, fresh=False):
    """fff_glm_RKF_fit per column with one filter object (as kalman.ar1 does), or a fresh one per column"""
    import ctypes as C
    lib, _ = _rkf_lib(H)
    X = np.ascontiguousarray(X, float)
    n, p = X.shape; v = Y.shape[1]
    B = np.zeros((p, v)); s2 = np.zeros(v); a = np.zeros(v); VB = np.zeros((v, p, p)); dof = 0.0
    kb = np.zeros((p, v)); ks2 = np.zeros(v)
    k = lib.fff_glm_RKF_new(p)
    try:
        xm = H._Mat(n, p, p, X.ctypes.data_as(C.POINTER(C.c_double)), 0)
        for j in range(v):
            if fresh and j:
                lib.fff_glm_RKF_delete(k)
                k = lib.fff_glm_RKF_new(p)
            y = np.ascontiguousarray(Y[:, j], float)
            yv = H._Vec(n, 1, y.ctypes.data_as(C.POINTER(C.c_double)), 0)
            lib.fff_glm_RKF_fit(k, niter, C.byref(yv), C.byref(xm))
            c = k.contents
            bs = c.b.contents
            B[:, j] = [bs.data[i * bs.stride] for i in range(p)]
            s2[j], a[j], dof = c.s2, c.a, c.dof
            vm = c.Vb.contents
            VB[j] = [[vm.data[r * vm.tda + q] for q in range(p)] for r in range(p)]
            kf = c.Kfilt.contents
            kbs = kf.b.contents
            kb[:, j] = [kbs.data[i * kbs.stride] for i in range(p)]
            ks2[j] = kf.s2
    finally:
        lib.fff_glm_RKF_delete(k)
    return B, s2, a, VB, dof, kb, ks2


def gen_rkf(rng, H, tier):
    # (the model is exact: the rationals of the recursion grow with n * p and with every sweep)
    n = rng.randint(3, 8); p = rng.randint(1, min(2 if n > 5 else 3, n - 2)); v = rng.choice([1, 1, 2, 3])
    return {"kind": "rkf", "X": H._design(rng, n, p, rng.choice(["int", "intercept", "intercept"])),
            "Y": H._data(rng, n, v, rng.choice(["int", "smooth", "smooth"])),
            "niter": rng.choice([1, 2, 2, 2, 3, 3, 4 if n <= 5 else 2]), "axis1": rng.random() < 0.3}


def run_rkf(H, case):
    from nipy.labs.glm import glm as lg
    from nipy.labs.glm import kalman
    X = np.array(case["X"], float); Y = np.array(case["Y"], float)
    n, p = X.shape; v = Y.shape[1]; niter = case["niter"]
    tags = ["rkf", f"niter={niter}"]
    cond = H._cond(X)
    smax = float(np.linalg.svd(X, compute_uv=False).max())
    rk = 1e-5 * max(1.0, cond * cond / 1e4) + 1e-8 * smax * smax
    ys = max(1.0, float(np.abs(Y).max()))
    snap = Snapshot(X=X, Y=Y)
    lines, impl = [], []
    fail = None
    try:
        B, s2, a, VB, dof, kb, ks2 = c_rkf(H, X, Y, niter)
        Bf, s2f, af, VBf, _, _, _ = c_rkf(H, X, Y, niter, fresh=True)
        wB, wVB, wS2, wdof, wA = kalman.ar1(Y, X, niter=niter)
        cB, cs2, cdof, cs2c, cVb = H.c_kalman(X, Y)
        bs = max(H._bfloor(X, ys), float(np.abs(cB).max()))
        if not (np.array_equal(B, Bf) and np.array_equal(s2, s2f) and np.array_equal(a, af) and np.array_equal(VB, VBf)):
            fail = ("fff_glm_RKF_fit with one filter object for several voxels differs from a fresh filter per voxel "
                    "(state carried from one fit to the next)")
        if fail is None and not (dof == n - p == float(wdof)):
            fail = f"refined Kalman filter dof {dof} / wrapper {wdof}, n - p = {n - p}"
        # the embedded standard filter is the ordinary Kalman filter, whatever the number of sweeps
        if fail is None and not (np.array_equal(kb, cB) and np.array_equal(ks2, cs2)):
            fail = "the standard filter run inside the refined Kalman filter differs from fff_glm_KF_fit"
        # first sweep = ordinary Kalman filter
        if fail is None and niter <= 1 and not (np.array_equal(B, cB) and np.array_equal(s2, cs2)
                                                 and np.array_equal(VB[-1], cVb)):
            fail = "refined Kalman filter with one sweep (niter=1) differs from the ordinary Kalman filter"
        if fail is None and not (near(np.asarray(wB), B, 1e-9, bs) and near(np.asarray(wS2).ravel(), s2, 1e-9, ys * ys)
                                 and near(np.asarray(wA).ravel(), a, 1e-9, 1.0)
                                 and near(np.moveaxis(np.asarray(wVB), -1, 0), VB, 1e-9, float(np.abs(VB).max()))):
            fail = "kalman.ar1 (installed wrapper) differs from fff_glm_RKF_fit re-compiled from the tree"
        if fail is None and v >= 2:
            Br, s2r, ar, VBr, _, _, _ = c_rkf(H, X, Y[:, ::-1].copy(), niter)
            if not (np.array_equal(Br[:, ::-1], B) and np.array_equal(ar[::-1], a)):
                fail = "refined Kalman filter: reversing the voxel order changes the per-voxel estimates"
        if fail is None:
            G = lg.glm(Y.T.copy() if case["axis1"] else Y, X, axis=1 if case["axis1"] else 0, model="ar1", niter=niter)
            gb = np.asarray(G.beta).T if case["axis1"] else np.asarray(G.beta)
            if not (near(gb, B, 1e-9, bs) and near(np.atleast_1d(G.s2).ravel(), s2, 1e-9, ys * ys)
                    and near(np.asarray(G.a).ravel(), a, 1e-9, 1.0) and float(G.dof) == n - p):
                fail = f"labs glm(model='ar1', niter={niter}, axis={1 if case['axis1'] else 0}) differs from fff_glm_RKF_fit"
        lines.append(f"rkf {niter} {pmat(X)} {pmat(Y)}")
        impl.append(("rkf", {"b": B.tolist(), "s2": s2.tolist(), "a": a.tolist(), "Vb": VB.ravel().tolist(), "dof": dof},
                     {"rk": rk, "bs": bs, "ys": ys, "niter": niter, "vs": float(np.abs(cVb).max())}))
    except Exception as e:
        fail = fail or f"refined Kalman filter (niter={niter}) raised {type(e).__name__}: {e} (n={n}, p={p}, v={v})"
        lines, impl = [], []
        tags.append("raised")
    return {"lines": lines, "impl": impl, "oracle": fail, "tags": tags, "mutated": snap.changed(), "nontrivial": True}


def compare_w3(kind, case, obs, meta, model_out):
    if kind == "glsguard":
        if model_out == "semidefinite":
            return None            # a zero pivot: cholesky(pinv(sigma)) may raise or go on with a rounding-level pivot
        if model_out == "ok" and obs == "error:linalgError" and meta["cond"] > 1e7:
            return None            # pinv of an ill-conditioned sigma is not numerically positive definite
        return None if obs == model_out else f"GLSModel(sigma): impl={obs} model={model_out}"
    if model_out.startswith(("bad-op", "error")):
        return f"impl returned values, model says {model_out[:60]}"
    secs = model_out.split(" | ")
    rt = meta.get("rtol", 1e-9)
    if kind == "hrho":
        if len(secs) != len(obs):
            return f"model returned {len(secs)} iterates, the history has {len(obs)} iterative_fit calls"
        for i, (r, sct) in enumerate(zip(obs, secs)):
            mr = np.array([float(x) for x in parse_rats(sct)])
            if not near(np.asarray(r, float), mr, rt, 1.0):
                return f"rho after iterative_fit call {i}: impl {r} model {mr.tolist()}"
        return None
    if kind == "glmget":
        if len(secs) != 5:
            return f"model returned {len(secs)} sections"
        mb = [int(x) for x in secs[0].split()]
        ex = [float(x) for x in parse_rats(secs[1])]
        v = len(mb)
        Bm = np.array([float(x) for x in parse_rats(secs[2])]).reshape(-1, v) if v else np.zeros((0, 0))
        Mm = np.array([float(x) for x in parse_rats(secs[3])]); Sm = np.array([float(x) for x in parse_rats(secs[4])])
        B = np.asarray(obs["beta"], float)
        n = meta["n"]
        for j in range(v):
            if mb[j] != obs["bins"][j]:
                if abs(ex[j] - round(ex[j])) < 1e-7:
                    continue
                return f"voxel {j}: AR(1) bin impl={obs['bins'][j]} model={mb[j]} (exact ar1*steps={ex[j]!r})"
            if B.shape != Bm.shape or not near(B[:, j], Bm[:, j], rt, meta["bs"]):
                return f"voxel {j} get_beta(cols): impl {B[:, j].tolist() if B.shape == Bm.shape else B.shape} model {Bm[:, j].tolist()}"
            if not near(obs["mse"][j], Mm[j], rt, meta["ys"] ** 2):
                return f"voxel {j} get_mse: impl {obs['mse'][j]!r} model {Mm[j]!r}"
            if Sm[j] > 1e-6 * meta["ys"] ** 2:
                L = -n / 2.0 * np.log(2 * np.pi * Sm[j]) - n / 2.0
                if not near(obs["logL"][j], L, 1e3 * rt, 1.0):
                    return f"voxel {j} get_logL: impl {obs['logL'][j]!r} model {float(L)!r}"
        return None
    if kind == "labsnd":
        if len(secs) != 4:
            return f"model returned {len(secs)} sections"
        (she, e), (shv, va), (shf, F), (sht, tm) = [parse_tensor(x) for x in secs]
        ie, iv = obs["effect"], obs["variance"]
        if list(ie[0]) != she:
            return f"contrast effect shape impl={ie[0]} model={she}"
        if not near(np.asarray(ie[1], float), e, rt, meta["bs"]):
            return f"contrast effect: impl/model {worst(np.asarray(ie[1], float), e)}"
        # (for a one-row contrast the variance is compared as a flat C-order list: its shape is the
        # squeezed grid in the source as it is, the grid of the effect once fit() no longer squeezes)
        if obs["q"] > 1 and list(iv[0]) != shv:
            return f"contrast variance shape impl={iv[0]} model={shv}"
        if len(iv[1]) != va.size or not near(np.asarray(iv[1], float), va, rt, meta["vs"]):
            return f"contrast variance: impl/model {worst(np.asarray(iv[1], float), va) if len(iv[1]) == va.size else (iv[0], shv)}"
        st = np.asarray(obs["stat"], float)
        keep = ~np.asarray(obs["perfect"], bool)
        if obs["q"] == 1:
            if shf == [0] or st.size != F.size:
                return None
            t = np.sign(F) * np.sqrt(np.abs(F))
            want = t * t if obs["type"] == "F" else t
        else:
            m = F if obs["type"] == "F" else tm
            sh = shf if obs["type"] == "F" else sht
            if sh == [0] or st.size != m.size:
                return None
            want = m if obs["type"] == "F" else np.sign(m) * np.sqrt(np.abs(m))
        if not near(st[keep], want[keep], 1e3 * rt, 1e-6):
            return f"contrast statistic ({obs['type']}): impl/model {worst(st[keep], want[keep])}"
        return None
    if kind == "rkf":
        if len(secs) != 5:
            return f"model returned {len(secs)} sections"
        rk = meta["rk"] * (1.0 if meta["niter"] <= 1 else 20.0)
        b, s2, a, vb = [np.array([float(x) for x in parse_rats(t)]) for t in secs[:4]]
        bs = max(meta["bs"], float(np.abs(b).max(initial=0.0)))
        for name, x, y, sc in (("b", np.asarray(obs["b"], float).ravel(), b, bs),
                               ("s2", np.asarray(obs["s2"], float), s2, meta["ys"] ** 2),
                               ("a", np.asarray(obs["a"], float), a, 1.0),
                               # (the refined covariance is a difference of terms of the size of the filter's own)
                               ("Vb", np.asarray(obs["Vb"], float), vb, meta["vs"])):
            if x.shape != y.shape or not near(x, y, rk, sc):
                return f"refined Kalman filter {name}: impl/model {worst(x, y) if x.shape == y.shape else (x.shape, y.shape)}"
        if float(parse_rats(secs[4])[0]) != obs["dof"]:
            return f"refined Kalman filter dof impl={obs['dof']} model={secs[4]}"
        return None
    if kind == "glsx":
        if len(secs) != 3:
            return f"model returned {len(secs)} sections"
        b = np.array([float(x) for x in parse_rats(secs[0])]); sse = np.array([float(x) for x in parse_rats(secs[1])])
        G = np.array([float(x) for x in parse_rats(secs[2])])
        bs = max(meta["bs"], float(np.abs(b).max(initial=0.0)))
        if not near(np.asarray(obs["beta"], float).ravel(), b, rt, bs):
            return f"GLS theta: impl/model {worst(np.asarray(obs['beta'], float).ravel(), b)}"
        if not near(np.asarray(obs["sse"], float), sse, 10 * rt, meta["ys"] ** 2 * meta["n"] / meta["smin"]):
            return f"GLS SSE: impl/model {worst(np.asarray(obs['sse'], float), sse)}"
        if not near(np.asarray(obs["cov"], float).ravel(), G, 10 * rt, float(np.abs(G).max(initial=0.0))):
            return f"GLS normalized_cov_beta: impl/model {worst(np.asarray(obs['cov'], float).ravel(), G)}"
        return None
    return "unknown observation kind"


# ----------------------------------------------------------------------
#: (generator, (cases quick, cases thorough))
GENERATORS = [(gen_hist, (260, 3000)), (gen_yw, (200, 3000)), (gen_gls, (200, 3000)), (gen_estim, (200, 3000)),
              (gen_bias, (200, 3000)), (gen_bins, (220, 3000)), (gen_labsnd, (260, 4000)), (gen_rkf, (140, 1500))]
#: observation kinds compared by `compare_w3`
KINDS = ("hrho", "glsguard", "glsx", "glmget", "labsnd", "rkf")
