"""C10 translator (wave 4): regenerates lean/NipyVerif/Gen/C10Grid.lean from the *text* of
nipy/modalities/fmri/utils.py (`_eval_for`, `_conv_fx_gx`, `convolve_functions`, `TimeConvolver`, the loop bodies of
`events`, `step_function._imp`, `blocks`) and of nipy/algorithms/statistics/formula/formulae.py (the statements that
decide which terms a sum / difference / product holds and in which order the design lists its columns).

The expressions become Lean *terms* over the NumPy primitives of Model/C10 + Model/C10N (`arange`, `npConvolve`,
`interpVal`); the native driver runs them (line kinds `convsrc`, `tcsrc`) and Props/C10A proves that they are the
model's definitions (`*_from_source`).  An edit of a source expression therefore changes a term, breaks a proof
obligation (the build) and triggers the widened search."""
from __future__ import annotations

import ast
import os
from fractions import Fraction

_CMP = {ast.GtE: "≥", ast.Gt: ">", ast.LtE: "≤", ast.Lt: "<"}
_BIN = {ast.Add: "+", ast.Sub: "-", ast.Mult: "*", ast.Div: "/"}


class _Tr:
    """Python expression -> Lean term of type Rat (scalars; arrays are translated elementwise)"""

    def __init__(self, env, intervals, TieBroken, where, funcs=()):
        self.env, self.intervals, self.TieBroken, self.where, self.funcs = dict(env), set(intervals), TieBroken, where, set(funcs)

    def fail(self, node, why="unsupported expression"):
        raise self.TieBroken(f"{self.where}: {why}: {ast.unparse(node)}")

    def num(self, v, node):
        if isinstance(v, bool) or not isinstance(v, (int, float)):
            self.fail(node, "non-numeric constant")
        f = Fraction(str(v)) if isinstance(v, float) else Fraction(v)
        if f.denominator == 1:
            return f"({f.numerator} : Rat)" if f >= 0 else f"(-{-f.numerator} : Rat)"
        return f"(({f.numerator} : Rat) / {f.denominator})"

    def tr(self, n):
        key = ast.unparse(n)
        if key in self.env:
            return self.env[key]
        if isinstance(n, ast.Constant):
            return self.num(n.value, n)
        if isinstance(n, ast.UnaryOp) and isinstance(n.op, ast.USub):
            return f"(-{self.tr(n.operand)})"
        if isinstance(n, ast.BinOp):
            op = _BIN.get(type(n.op))
            if op is None:
                self.fail(n, "operator")
            return f"({self.tr(n.left)} {op} {self.tr(n.right)})"
        if isinstance(n, ast.Compare) and len(n.ops) == 1 and type(n.ops[0]) in _CMP:
            return f"({self.tr(n.left)} {_CMP[type(n.ops[0])]} {self.tr(n.comparators[0])})"
        if isinstance(n, ast.Call) and not n.keywords:
            f = ast.unparse(n.func)
            if f == "float" and len(n.args) == 1:
                return self.tr(n.args[0])
            if f in ("min", "max") and len(n.args) == 1 and ast.unparse(n.args[0]) in self.intervals:
                iv = self.env_interval(n.args[0])
                return f"({f} {iv}0 {iv}1)"
            if f in ("min", "max") and len(n.args) == 2:
                return f"({f} {self.tr(n.args[0])} {self.tr(n.args[1])})"
            if f in self.funcs and len(n.args) == 1:
                return f"({f} {self.tr(n.args[0])})"
        self.fail(n)

    def env_interval(self, node):
        key = ast.unparse(node)
        if key not in self.intervals:
            self.fail(node, "not an interval argument")
        return self.env.get("@" + key, key)


def _body(fn):
    """statements of a function without docstrings / bare string expressions"""
    return [s for s in fn.body if not (isinstance(s, ast.Expr) and isinstance(s.value, ast.Constant))]


def _find(tree, name, TieBroken, cls=None):
    for n in tree.body:
        if cls is None and isinstance(n, ast.FunctionDef) and n.name == name:
            return n
        if cls is not None and isinstance(n, ast.ClassDef) and n.name == cls:
            for m in n.body:
                if isinstance(m, ast.FunctionDef) and m.name == name:
                    return m
    raise TieBroken(f"{cls + '.' if cls else ''}{name} not found")


def _args(fn):
    return [a.arg for a in fn.args.args]


def _expect(cond, TieBroken, msg):
    if not cond:
        raise TieBroken(msg)


def _assign1(st, TieBroken, where):
    _expect(isinstance(st, ast.Assign) and len(st.targets) == 1, TieBroken, f"{where}: expected an assignment, found {ast.unparse(st)}")
    return ast.unparse(st.targets[0]), st.value


def _replace_call(expr, text, name):
    """the expression with every sub-expression whose text is `text` replaced by the variable `name`; count"""
    count = [0]

    class R(ast.NodeTransformer):
        def generic_visit(self, node):
            if isinstance(node, ast.expr) and ast.unparse(node) == text:
                count[0] += 1
                return ast.Name(id=name, ctx=ast.Load())
            return super().generic_visit(node)

        def visit(self, node):
            return self.generic_visit(node)
    import copy
    out = R().visit(copy.deepcopy(expr))
    return out, count[0]


def _call_pos(node, fname, nargs, TieBroken, where, kw=()):
    _expect(isinstance(node, ast.Call) and ast.unparse(node.func) == fname and len(node.args) == nargs
            and not any(isinstance(a, ast.Starred) for a in node.args), TieBroken,
            f"{where}: expected {fname}(<{nargs} positional arguments>), found {ast.unparse(node)}")
    kws = {k.arg: k.value for k in node.keywords}
    for k in kw:
        _expect(k in kws, TieBroken, f"{where}: {fname} call lacks {k}=")
    return node.args, kws


def _grid(tree, TB):
    out = []
    w = out.append
    # ---- _eval_for --------------------------------------------------------------------------------------------
    fn = _find(tree, "_eval_for", TB)
    _expect(_args(fn) == ["f", "interval", "dt"], TB, f"_eval_for arguments are {_args(fn)}")
    b = _body(fn)
    _expect(len(b) == 5, TB, f"_eval_for has {len(b)} statements, expected 5")
    _expect(ast.unparse(b[0]) == "real_f = lambdify_t(f)", TB, "_eval_for: " + ast.unparse(b[0]))
    _expect(ast.unparse(b[1]) == "f_mn, f_mx = sorted(interval)", TB, "_eval_for: " + ast.unparse(b[1]))
    tgt, val = _assign1(b[2], TB, "_eval_for")
    a, _ = _call_pos(val, "np.arange", 3, TB, "_eval_for time grid")
    _expect(tgt == "time", TB, "_eval_for: grid is assigned to " + tgt)
    t = _Tr({"f_mn": "f_mn", "f_mx": "f_mx", "dt": "dt"}, [], TB, "_eval_for np.arange")
    ar = [t.tr(x) for x in a]
    _expect(ast.unparse(b[3]) == "vals = real_f(time).astype(float)", TB, "_eval_for: " + ast.unparse(b[3]))
    _expect(ast.unparse(b[4]) == "return vals", TB, "_eval_for: " + ast.unparse(b[4]))
    w("/-- `_eval_for(f, interval, dt)` -/")
    w("def evalForSrc (f : Rat → Rat) (interval0 interval1 dt : Rat) : List Rat :=")
    w("  let f_mn := min interval0 interval1   -- `f_mn, f_mx = sorted(interval)`")
    w("  let f_mx := max interval0 interval1")
    w(f"  let time := arange {ar[0]} {ar[1]} {ar[2]}")
    w("  time.map f")
    # ---- _conv_fx_gx ------------------------------------------------------------------------------------------
    fn = _find(tree, "_conv_fx_gx", TB)
    _expect(_args(fn) == ["f_vals", "g_vals", "dt", "min_f", "min_g"], TB, f"_conv_fx_gx arguments are {_args(fn)}")
    b = _body(fn)
    _expect(len(b) == 3, TB, f"_conv_fx_gx has {len(b)} statements, expected 3")
    tgt, val = _assign1(b[0], TB, "_conv_fx_gx")
    _expect(tgt == "vals", TB, "_conv_fx_gx: first assignment is to " + tgt)
    convs = [n for n in ast.walk(val) if isinstance(n, ast.Call) and ast.unparse(n.func) == "np.convolve"]
    _expect(len(convs) == 1 and len(convs[0].args) == 2 and not convs[0].keywords, TB,
            "_conv_fx_gx: expected one np.convolve(a, b) (mode full) in " + ast.unparse(val))
    cargs = [ast.unparse(x) for x in convs[0].args]
    _expect(sorted(cargs) == ["f_vals", "g_vals"], TB, f"_conv_fx_gx: np.convolve arguments {cargs}")
    e1, k = _replace_call(val, ast.unparse(convs[0]), "c")
    t = _Tr({"c": "c", "dt": "dt", "min_f": "min_f", "min_g": "min_g"}, [], TB, "_conv_fx_gx vals")
    vals_term = t.tr(e1)
    tgt, val = _assign1(b[1], TB, "_conv_fx_gx")
    _expect(tgt == "time", TB, "_conv_fx_gx: second assignment is to " + tgt)
    e2, k = _replace_call(val, "np.arange(len(vals))", "k")
    _expect(k == 1, TB, "_conv_fx_gx: expected np.arange(len(vals)) once in " + ast.unparse(val))
    t = _Tr({"k": "(k : Rat)", "dt": "dt", "min_f": "min_f", "min_g": "min_g"}, [], TB, "_conv_fx_gx time")
    time_term = t.tr(e2)
    _expect(ast.unparse(b[2]) == "return (time, vals)", TB, "_conv_fx_gx: " + ast.unparse(b[2]))
    w("/-- `_conv_fx_gx`: `vals = …` (entry `c` of `np.convolve`) and `time = …` (entry `k` of `np.arange(len(vals))`) -/")
    w(f"def convValSrc (c dt min_f min_g : Rat) : Rat := {vals_term}")
    w(f"def convTimeSrc (k : Nat) (dt min_f min_g : Rat) : Rat := {time_term}")
    w("def convFxGxSrc (f_vals g_vals : List Rat) (dt min_f min_g : Rat) : Option (List Rat × List Rat) :=")
    w(f"  (npConvolve {cargs[0]} {cargs[1]}).map (fun cv =>")
    w("    let vals := cv.map (fun c => convValSrc c dt min_f min_g)")
    w("    let time := (List.range vals.length).map (fun (k : Nat) => convTimeSrc k dt min_f min_g)")
    w("    (time, vals))")

    # ---- the callers ------------------------------------------------------------------------------------------
    def caller(fn, where, env, intervals, fvals_expr=None):
        """statements `x_vals = _eval_for(..)`*, `fg_time, fg_vals = _conv_fx_gx(..)`, `return interp(..)`"""
        b = _body(fn)
        lets = []
        env = dict(env)
        t = _Tr(env, intervals, TB, where)
        i = 0
        while i < len(b) and isinstance(b[i], ast.Assign) and isinstance(b[i].value, ast.Call) and \
                ast.unparse(b[i].value.func) == "_eval_for":
            tgt, val = _assign1(b[i], TB, where)
            a, _ = _call_pos(val, "_eval_for", 3, TB, where)
            iv = t.env_interval(a[1])
            fn_name = t.env.get(ast.unparse(a[0]))
            _expect(fn_name in ("f", "g", "expr"), TB, f"{where}: _eval_for of {ast.unparse(a[0])}")
            lets.append(f"  let {tgt} := evalForSrc {fn_name} {iv}0 {iv}1 {t.tr(a[2])}")
            t.env[tgt] = tgt
            i += 1
        _expect(len(b) == i + 2, TB, f"{where}: {len(b) - i} statements after the _eval_for calls, expected 2")
        tgt, val = _assign1(b[i], TB, where)
        _expect(tgt == "(fg_time, fg_vals)", TB, f"{where}: _conv_fx_gx result bound to {tgt}")
        a, _ = _call_pos(val, "_conv_fx_gx", 5, TB, where)
        cargs = [t.tr(x) for x in a]
        ret = b[i + 1]
        _expect(isinstance(ret, ast.Return), TB, f"{where}: last statement is {ast.unparse(ret)}")
        a, kws = _call_pos(ret.value, "interp", 2, TB, where, kw=("fill",))
        _expect([ast.unparse(x) for x in a] == ["fg_time", "fg_vals"], TB, f"{where}: interp of {[ast.unparse(x) for x in a]}")
        fill = t.tr(kws["fill"])
        return lets, cargs, fill

    fn = _find(tree, "convolve_functions", TB)
    _expect(_args(fn)[:6] == ["f", "g", "f_interval", "g_interval", "dt", "fill"], TB,
            f"convolve_functions arguments are {_args(fn)}")
    lets, cargs, fill = caller(fn, "convolve_functions",
                               {"f": "f", "g": "g", "dt": "dt", "fill": "fill"}, ["f_interval", "g_interval"])
    w("/-- `convolve_functions(f, g, f_interval, g_interval, dt, fill)` sampled at `t` -/")
    w("def convolveFunctionsSrc (f g : Rat → Rat) (f_interval0 f_interval1 g_interval0 g_interval1 dt fill t : Rat) : Option Rat :=")
    for l in lets:
        w(l)
    w(f"  (convFxGxSrc {' '.join(cargs)}).map (fun fg => interpVal {fill} fg.1 fg.2 t)")
    # TimeConvolver
    init = _find(tree, "__init__", TB, cls="TimeConvolver")
    _expect(_args(init) == ["self", "expr", "support", "delta", "fill"], TB, f"TimeConvolver.__init__ arguments are {_args(init)}")
    ib = [ast.unparse(s) for s in _body(init)]
    for nm in ("expr", "support", "delta", "fill"):
        _expect(f"self.{nm} = {nm}" in ib, TB, f"TimeConvolver.__init__ does not store {nm} unchanged")
    vals_st = [s for s in _body(init) if ast.unparse(s).startswith("self._vals = ")]
    _expect(len(vals_st) == 1 and len(ib) == 5, TB, f"TimeConvolver.__init__ statements: {ib}")
    a, _ = _call_pos(vals_st[0].value, "_eval_for", 3, TB, "TimeConvolver.__init__")
    _expect([ast.unparse(x) for x in a] == ["expr", "self.support", "self.delta"], TB,
            "TimeConvolver.__init__: self._vals = " + ast.unparse(vals_st[0].value))
    conv = _find(tree, "convolve", TB, cls="TimeConvolver")
    _expect(_args(conv)[:3] == ["self", "g", "g_interval"], TB, f"TimeConvolver.convolve arguments are {_args(conv)}")
    lets, cargs, fill = caller(conv, "TimeConvolver.convolve",
                               {"g": "g", "self.delta": "delta", "self.fill": "fill", "self._vals": "self_vals",
                                "@self.support": "support"}, ["self.support", "g_interval"])
    w("/-- `TimeConvolver(expr, support, delta, fill).convolve(g, g_interval)` sampled at `t` -/")
    w("def timeConvolverSrc (expr g : Rat → Rat) (support0 support1 delta fill g_interval0 g_interval1 t : Rat) : Option Rat :=")
    w("  let self_vals := evalForSrc expr support0 support1 delta   -- `self._vals = _eval_for(expr, self.support, self.delta)`")
    for l in lets:
        w(l)
    w(f"  (convFxGxSrc {' '.join(cargs)}).map (fun fg => interpVal {fill} fg.1 fg.2 t)")
    return out


def _courses(tree, TB):
    out = []
    w = out.append
    # ---- events -----------------------------------------------------------------------------------------------
    fn = _find(tree, "events", TB)
    b = _body(fn)
    init = [s for s in b if isinstance(s, ast.Assign) and ast.unparse(s.targets[0]) == "e"]
    loops = [s for s in b if isinstance(s, ast.For)]
    _expect(len(init) == 1 and len(loops) == 1 and ast.unparse(loops[0].target) == "(time, a)"
            and ast.unparse(loops[0].iter) == "zip(times, amplitudes)" and len(loops[0].body) == 1, TB,
            "events: expected `e = …` and one loop `for time, a in zip(times, amplitudes)` with one statement")
    _expect(any(ast.unparse(s) == "asymb = Symbol('a')" for s in b), TB, "events: asymb is not Symbol('a')")
    _expect(isinstance(b[-1], ast.Return) and ast.unparse(b[-1].value) == "e", TB, "events does not return e")
    tgt, val = _assign1(loops[0].body[0], TB, "events loop")
    _expect(tgt == "e", TB, "events loop assigns " + tgt)
    if isinstance(val, ast.Call) and ast.unparse(val.func) == "sympy.Add" and len(val.args) == 2 and not val.keywords:
        val = ast.BinOp(left=val.args[0], op=ast.Add(), right=val.args[1])
    val, k = _replace_call(val, "g.subs(asymb, a)", "ga")
    _expect(k == 1, TB, "events loop: expected g.subs(asymb, a) once")
    t = _Tr({"e": "e", "ga": "(g a)", "T": "t", "time": "time"}, [], TB, "events loop", funcs=["f"])
    step = t.tr(val)
    e0 = _Tr({}, [], TB, "events init").tr(init[0].value)
    w("/-- `events`: `e = …` before the loop, and the loop body (`g a` is `g.subs(asymb, a)`) -/")
    w(f"def eventsInitSrc : Rat := {e0}")
    w(f"def eventsStepSrc (f g : Rat → Rat) (t e time a : Rat) : Rat := {step}")
    # ---- step_function._imp -----------------------------------------------------------------------------------
    fn = _find(tree, "step_function", TB)
    _expect(_args(fn) == ["times", "values", "name", "fill"], TB, f"step_function arguments are {_args(fn)}")
    dflt = fn.args.defaults[-1]
    imp = [s for s in fn.body if isinstance(s, ast.FunctionDef) and s.name == "_imp"]
    _expect(len(imp) == 1 and _args(imp[0]) == ["x"], TB, "step_function: _imp(x) not found")
    ib = _body(imp[0])
    _expect(len(ib) == 4 and ast.unparse(ib[0]) == "x = np.asarray(x)" and ast.unparse(ib[3]) == "return f"
            and isinstance(ib[2], ast.For) and ast.unparse(ib[2].target) == "(time, val)"
            and ast.unparse(ib[2].iter) == "zip(times, values)" and len(ib[2].body) == 1, TB,
            "step_function._imp has an unexpected shape")
    tgt, val = _assign1(ib[1], TB, "step_function._imp")
    _expect(tgt == "f", TB, "step_function._imp: initial array is " + tgt)
    val, k = _replace_call(val, "np.zeros(x.shape)", "z")
    _expect(k == 1, TB, "step_function._imp: expected np.zeros(x.shape) once")
    init_term = _Tr({"z": "(0 : Rat)", "fill": "fill"}, [], TB, "step_function init").tr(val)
    st = ib[2].body[0]
    _expect(isinstance(st, ast.Assign) and len(st.targets) == 1 and isinstance(st.targets[0], ast.Subscript)
            and ast.unparse(st.targets[0].value) == "f", TB, "step_function loop: " + ast.unparse(st))
    t = _Tr({"x": "x", "time": "time", "val": "val", "f": "f"}, [], TB, "step_function loop")
    cond, newv = t.tr(st.targets[0].slice), t.tr(st.value)
    w("/-- `step_function._imp`: initial value and the update `f[<mask>] = <value>` at one position -/")
    w(f"def stepDefaultFill : Rat := {_Tr({}, [], TB, 'step_function fill default').tr(dflt)}")
    w(f"def stepInitSrc (fill : Rat) : Rat := {init_term}")
    w(f"def stepUpdateSrc (x f time val : Rat) : Rat := if {cond} then {newv} else f")
    # ---- blocks -----------------------------------------------------------------------------------------------
    fn = _find(tree, "blocks", TB)
    b = [ast.unparse(s) for s in _body(fn)]
    loops = [s for s in _body(fn) if isinstance(s, ast.For)]
    _expect(len(loops) == 1 and ast.unparse(loops[0].target) == "(_t, a)", TB, "blocks: loop not found")
    it = ast.unparse(loops[0].iter)
    by_onset = it == "sorted(zip(intervals, amplitudes), key=lambda ta: ta[0][0])"
    _expect(by_onset or it == "zip(intervals, amplitudes)", TB, "blocks: loop runs over " + it)
    lb = [ast.unparse(s) for s in loops[0].body]
    _expect(len(lb) == 2 and lb[0] == "t += list(_t)" and lb[1].startswith("v += ["), TB, f"blocks loop body: {lb}")
    vl = loops[0].body[1].value
    _expect(isinstance(vl, ast.List), TB, "blocks loop: " + lb[1])
    t = _Tr({"a": "a"}, [], TB, "blocks knot values")
    knots = ", ".join(t.tr(x) for x in vl.elts)
    _expect("t = [-np.inf]" in b and "t.append(np.inf)" in b and b[-1] == "return step_function(t, v, name=name)", TB,
            f"blocks: sentinel knots / return changed: {b}")
    first = [s for s in _body(fn) if isinstance(s, ast.Assign) and ast.unparse(s.targets[0]) == "v"]
    last = [s for s in _body(fn) if ast.unparse(s).startswith("v.append(")]
    _expect(len(first) == 1 and isinstance(first[0].value, ast.List) and len(first[0].value.elts) == 1
            and len(last) == 1, TB, "blocks: v = [..] / v.append(..) not found")
    w("/-- `blocks`: intervals laid down in order of onset; values written at (start, stop) of one interval; the")
    w("    values of the `-inf` and `+inf` knots -/")
    w(f"def blocksByOnset : Bool := {'true' if by_onset else 'false'}")
    w(f"def blocksKnotValsSrc (a : Rat) : List Rat := [{knots}]")
    w(f"def blocksFirstValSrc : Rat := {t.tr(first[0].value.elts[0])}")
    w(f"def blocksLastValSrc : Rat := {t.tr(last[0].value.args[0])}")
    return out


def _cond(node, TB, where):
    """the tests of `interp` / `linear_interp` on optional arguments -> Lean propositions over
    `fill : Option Rat`, `be : Option Bool` (kw.get('bounds_error')), `fv : Option Rat`, `kind : Option String`"""
    key = ast.unparse(node)
    atoms = {"fill is not None": "fill ≠ none", "fill is None": "fill = none",
             "kw.get('bounds_error') is True": "be = some true", "kw.get('bounds_error') is False": "be = some false",
             "fv is None": "fv = none", "fv is fill": "fv = fill", "fv == fill": "fv = fill",
             "kind is None": "kind = none", "kind != 'linear'": "kind ≠ some \"linear\"",
             "kind == 'linear'": "kind = some \"linear\""}
    if key in atoms:
        return atoms[key]
    if isinstance(node, ast.UnaryOp) and isinstance(node.op, ast.Not):
        return f"¬ ({_cond(node.operand, TB, where)})"
    if isinstance(node, ast.BoolOp):
        op = " ∨ " if isinstance(node.op, ast.Or) else " ∧ "
        return "(" + op.join(_cond(v, TB, where) for v in node.values) + ")"
    raise TB(f"{where}: unsupported test: {key}")


def _interp_guards(tree, TB):
    out = []
    w = out.append
    fn = _find(tree, "interp", TB)
    _expect(_args(fn) == ["times", "values", "fill", "name"] and fn.args.kwarg is not None and fn.args.kwarg.arg == "kw", TB,
            f"interp arguments are {_args(fn)}")
    b = _body(fn)
    _expect(isinstance(b[0], ast.If) and not b[0].orelse, TB, "interp: first statement is not the `fill` guard")
    g = b[0]
    outer = _cond(g.test, TB, "interp")
    gb = g.body
    _expect(len(gb) == 5 and isinstance(gb[0], ast.If) and isinstance(gb[2], ast.If)
            and ast.unparse(gb[1]) == "fv = kw.get('fill_value')"
            and all(len(x.body) == 1 and isinstance(x.body[0], ast.Raise) and ast.unparse(x.body[0].exc.func) == "ValueError"
                    and not x.orelse for x in (gb[0], gb[2])), TB, "interp: the guard has an unexpected shape")
    c1, c2 = _cond(gb[0].test, TB, "interp"), _cond(gb[2].test, TB, "interp")
    sets = {ast.unparse(x.targets[0]): ast.unparse(x.value) for x in gb[3:] if isinstance(x, ast.Assign)}
    _expect(set(sets) == {"kw['bounds_error']", "kw['fill_value']"}, TB, f"interp: the guard sets {sorted(sets)}")
    be_new = {"False": "some false", "True": "some true"}.get(sets["kw['bounds_error']"])
    fv_new = {"fill": "fill"}.get(sets["kw['fill_value']"])
    _expect(be_new is not None and fv_new is not None, TB, f"interp: the guard sets {sets}")
    _expect(ast.unparse(b[1]) == "interpolator = Interp1dNumeric(times, values, **kw)", TB, "interp: " + ast.unparse(b[1]))
    dflt = fn.args.defaults[0]
    w("/-- `interp`: the guard on `fill` / `bounds_error` / `fill_value`; `.error` = ValueError, otherwise the")
    w("    (`bounds_error`, `fill_value`) handed to `interp1d` -/")
    w("def interpGuardSrc (fill : Option Rat) (be : Option Bool) (fv : Option Rat) : Except Unit (Option Bool × Option Rat) :=")
    w(f"  if {outer} then")
    w(f"    if {c1} then .error ()")
    w(f"    else if {c2} then .error ()")
    w(f"    else .ok ({be_new}, {fv_new})")
    w("  else .ok (be, fv)")
    w(f"def interpDefaultFill : Rat := {_Tr({}, [], TB, 'interp fill default').tr(dflt)}")
    fn = _find(tree, "linear_interp", TB)
    b = _body(fn)
    _expect(len(b) == 3 and ast.unparse(b[0]) == "kind = kw.get('kind')" and isinstance(b[1], ast.If)
            and ast.unparse(b[2]) == "return interp(times, values, fill, name, **kw)", TB, "linear_interp has an unexpected shape")
    g = b[1]
    _expect(len(g.body) == 1 and ast.unparse(g.body[0]) == "kw['kind'] = 'linear'" and len(g.orelse) == 1
            and isinstance(g.orelse[0], ast.If) and not g.orelse[0].orelse and len(g.orelse[0].body) == 1
            and isinstance(g.orelse[0].body[0], ast.Raise), TB, "linear_interp: the `kind` guard has an unexpected shape")
    w("/-- `linear_interp`: the guard on `kind`; `.error` = ValueError, otherwise the kind handed on -/")
    w("def linearKindGuardSrc (kind : Option String) : Except Unit (Option String) :=")
    w(f"  if {_cond(g.test, TB, 'linear_interp')} then .ok (some \"linear\")")
    w(f"  else if {_cond(g.orelse[0].test, TB, 'linear_interp')} then .error ()")
    w("  else .ok kind")
    return out


def _lean_str(s):
    return '"' + s.replace("\\", "\\\\").replace('"', '\\"') + '"'


def _formula(tree, TB):
    """the statements of formulae.py that decide the term list of a sum / difference / product and the column order"""
    out = []
    w = out.append

    def stmts(cls, name):
        return [ast.unparse(s) for s in _body(_find(tree, name, TB, cls=cls))]
    add = stmts("Formula", "__add__")
    _expect(add[-2:] == ["f = Formula(np.hstack([self.terms, other.terms]))", "return f"], TB, f"Formula.__add__: {add}")
    sub = stmts("Formula", "__sub__")
    _expect(sub[-3:] == ["unwanted = set(other.terms)", "d = [term for term in self.terms if term not in unwanted]",
                         "return Formula(d)"], TB, f"Formula.__sub__: {sub}")
    mul = stmts("Formula", "__mul__")
    _expect(len(mul) == 6 and mul[1] == "if is_factor(self):\n    if self == other:\n        return self" and mul[2] == "v = []"
            and mul[4] == "terms = sorted(set(v), key=default_sort_key)" and mul[5] == "return Formula(tuple(terms))", TB,
            f"Formula.__mul__: {mul}")
    loop = _body(_find(tree, "__mul__", TB, cls="Formula"))[3]
    want = ("for sterm in self.terms:\n    for oterm in other.terms:\n        if is_term(sterm):\n"
            "            v.append(Term.__mul__(sterm, oterm))\n        elif is_term(oterm):\n"
            "            v.append(Term.__mul__(oterm, sterm))\n        else:\n            v.append(sterm * oterm)")
    _expect(ast.unparse(loop) == want, TB, "Formula.__mul__ loop: " + ast.unparse(loop))
    coefs = _find(tree, "_getcoefs", TB, cls="Formula")
    names = [n for n in ast.walk(coefs) if isinstance(n, ast.Call) and ast.unparse(n.func) == "Beta"]
    _expect(len(names) == 1 and ast.unparse(names[0]) == "Beta('%s%d' % (self.char, self._counter), term)", TB,
            "Formula._getcoefs: parameter names are not '%s%d' % (char, position)")
    cb = [ast.unparse(s) for s in ast.walk(coefs) if isinstance(s, (ast.Assign, ast.AugAssign))]
    _expect("self._counter += 1" in cb, TB, "Formula._getcoefs: the counter does not advance by one per term")
    init = stmts("Formula", "__init__")
    _expect("self._counter = 0" in init, TB, "Formula.__init__: the counter does not start at 0")
    diff = stmts("Formula", "_getdiff")
    by_name = ["params = sorted(set(getparams(self.mean)), key=default_sort_key)",
               "return [sympy.diff(self.mean, p).doit() for p in params]"]
    by_position = ["mean = self.mean",
                   "position = {beta: i for i, beta in enumerate(self._betas)}",
                   "params = sorted(set(getparams(mean)), key=lambda p: (0, position[p]) if p in position else "
                   "(1, default_sort_key(p)))",
                   "return [sympy.diff(mean, p).doit() for p in params]"]
    _expect(diff in (by_name, by_position), TB, f"Formula._getdiff: {diff}")
    sorted_by_name = diff == by_name
    mean = stmts("Formula", "_getmean")
    _expect(mean[-1] == "return np.sum(np.array(self._betas) * self.terms)", TB, f"Formula._getmean: {mean}")
    w("/-- formulae.py: `+` is `np.hstack([self.terms, other.terms])`; `-` keeps, in order, the terms not in")
    w("    `set(other.terms)`; `*` is `sorted(set(pairwise products))` after the Factor shortcut; the design lists")
    w("    `diff(mean, p)` for `p` in the coefficients - sorted by *name* (`designSortedByParamName`, the coefficient of")
    w("    position `i` being named `'%s%d' % (char, i)` from `i = 0`) or by the position of their term -/")
    w("def addIsConcatenation : Bool := true")
    w("def subFiltersBySet : Bool := true")
    w("def mulIsSetOfPairwiseProducts : Bool := true")
    w("def mulFactorShortcut : Bool := true")
    w("def paramNameFormat : String := " + _lean_str("%s%d"))
    w("def paramCounterStart : Nat := 0")
    w(f"def designSortedByParamName : Bool := {'true' if sorted_by_name else 'false'}")
    return out


def translate(repo, TieBroken):
    def parse(rel):
        try:
            return ast.parse(open(os.path.join(repo, rel)).read())
        except Exception as e:
            raise TieBroken(f"{rel} does not parse: {e}")
    ut = parse("nipy/modalities/fmri/utils.py")
    fm = parse("nipy/algorithms/statistics/formula/formulae.py")
    lines = ["/- GENERATED by harness/props/c10_translate.py from the text of nipy/modalities/fmri/utils.py and",
             "   nipy/algorithms/statistics/formula/formulae.py.  Do not edit.  Props/C10A.lean proves that these are",
             "   what the model implements; the driver runs `convolveFunctionsSrc` / `timeConvolverSrc`. -/",
             "import NipyVerif.Model.C10N",
             "set_option linter.unusedVariables false",
             "namespace NipyVerif.C10.Gen", ""]
    lines += _grid(ut, TieBroken) + [""] + _courses(ut, TieBroken) + [""] + _interp_guards(ut, TieBroken) + [""] + \
        _formula(fm, TieBroken)
    lines += ["", "end NipyVerif.C10.Gen", ""]
    return [("NipyVerif/Gen/C10Grid.lean", "\n".join(lines))]
