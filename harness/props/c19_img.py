"""C19 (wave 3) — the image front ends and the pure parts of the diagnostics commands against the
Lean model (`Model/C19D`):

* `imgax`  : one coordinate map (permuted / sheared / zero-scaled affine, names shared between domain
             and range, 'slice' / time names) and one front end:
             `io_axis_indices` + `input_axis_index` (line `ioaxis`), `pca_image` (`pcaimg`: refusals, the
             input axis, domain and range names of the component image), `time_slice_diffs_image`
             (`tsdimg`: array axes handed on, names of the volume images), `screens.screen`
             (`screenax`), `commands.parse_fname_axes` (`parseaxes`);
             `io_orientation` (the in->out pairing `axmap` reports) is a parameter of the model;
* `tsdplot`: `tsdiffplot.plot_tsdiffs` drawn on an Agg canvas; the plotted series, scatter positions and
             x-limits are read back from the axes (`tsdplot` line); `write_screen_res` /
             `commands.tsdiffana` / `commands.diagnose` file outputs are checked against the results.
"""
from __future__ import annotations

import os
import shutil
import tempfile
import types
import warnings

import numpy as np

from harness.util import Snapshot, errname, fr, frs

PCA = "PCA components"


def vview(a):
    a = np.asarray(a)
    return f"{a.ndim} " + " ".join(str(int(s)) for s in a.shape) + (" " + frs(a.ravel().tolist()) if a.size else "")


# ---------------------------------------------------------------------- generation
def gen_imgax(rng, quick):
    cases = []
    for _ in range(220 if quick else 6000):
        which = rng.choice(["ioaxis", "pcaimg", "pcaimg", "tsdimg", "tsdimg", "screen", "screen", "parse"])
        nd = rng.choice([4, 4, 4, 3, 5, 2]) if which != "screen" else rng.choice([4] * 8 + [3, 5])
        perm = list(range(nd))
        if rng.random() < 0.4:
            rng.shuffle(perm)
        tpos = rng.randrange(nd)
        spos = rng.choice([i for i in range(nd) if i != tpos])
        axis_pool = ["t", "time", "slice", "i", "j", "k", "x", "y", "z", "tt", "nope", 0, 1, 2, 3, -1, -2, -nd,
                     nd, nd + 1, -nd - 1, -nd - 3, "T"]
        cases.append({"kind": "imgax", "which": which, "nd": nd, "perm": perm, "tpos": tpos, "spos": spos,
                      "tname": rng.choice(["t", "t", "t", "time"]),
                      "sname": rng.choice(["k", "k", "slice", "slice", "z"]),
                      "rtime": rng.choice(["t", "t", "tt", "time"]),
                      "clash": rng.random() < 0.12,
                      "shear": rng.choice([None] * 10 + ["t", "s", "other"]),
                      "zero": rng.random() < 0.1,
                      "ta": rng.choice(["tname", "tname", "tname", "rtime", "tidx", "tneg"] * 4 + axis_pool),
                      "sa": rng.choice(["sname", "sname", "sidx", "sneg", None, None] * 4 + axis_pool),
                      "mask": rng.choice([None, None, "ok", "ok", "bad"]),
                      "ncomp": rng.choice([10, 2, 1]),
                      "analyze": rng.random() < 0.6,
                      "strarg": rng.random() < 0.7,
                      "seed": rng.randrange(1 << 30)})
    return cases


def gen_tsdplot(rng, quick):
    cases = []
    for _ in range(24 if quick else 400):
        nd = rng.choice([3, 4, 4])
        shape = [rng.choice([2, 3, 4]) for _ in range(nd)]
        ta = rng.randrange(-nd, nd)
        sa = rng.choice([None] + [a for a in range(-nd, nd) if a % nd != ta % nd])
        cases.append({"kind": "tsdplot", "shape": shape, "ta": ta, "sa": sa, "seed": rng.randrange(1 << 30),
                      "files": rng.random() < 0.35})
    return cases


# ---------------------------------------------------------------------- coordinate maps
def _names(c):
    nd = c["nd"]
    base = ["i", "j", "k", "l", "m"][:nd]
    dom = list(base)
    dom[c["tpos"]] = c["tname"]
    dom[c["spos"]] = c["sname"] if c["sname"] != "z" else dom[c["spos"]]
    rbase = ["x", "y", "z", "u", "v"][:nd]
    rng_names = [None] * nd
    for i in range(nd):
        rng_names[c["perm"][i]] = rbase[i]
    rng_names[c["perm"][c["tpos"]]] = c["rtime"]
    if c["clash"]:
        # a range axis carrying the name of a domain axis it does not correspond to
        o = c["perm"][(c["tpos"] + 1) % nd]
        rng_names[o] = dom[(c["tpos"] + 2) % nd] if nd > 2 else dom[c["tpos"]]
    # names must be unique within each system
    for names in (dom, rng_names):
        seen = set()
        for k, n in enumerate(names):
            while names[k] in seen:
                names[k] = names[k] + "q"
            seen.add(names[k])
    return dom, rng_names


def build_image(c):
    from nipy.core.api import AffineTransform, Image
    from nipy.core.reference.coordinate_system import CoordinateSystem
    rs = np.random.RandomState(c["seed"])
    nd = c["nd"]
    dom, rng_names = _names(c)
    aff = np.zeros((nd + 1, nd + 1))
    scales = [2.0, 3.0, 4.0, 5.0, 6.0]
    for i in range(nd):
        aff[c["perm"][i], i] = scales[i]
    aff[:nd, nd] = [float(rs.randint(-3, 4)) for _ in range(nd)]
    aff[nd, nd] = 1.0
    if c["zero"]:
        aff[c["perm"][c["tpos"]], c["tpos"]] = 0.0          # TR = 0
    if c["shear"] == "t":
        aff[c["perm"][(c["tpos"] + 1) % nd], c["tpos"]] = 0.5
    elif c["shear"] == "s":
        aff[c["perm"][c["spos"]], (c["spos"] + 1) % nd] = 0.25
    elif c["shear"] == "other":
        others = [i for i in range(nd) if i not in (c["tpos"], c["spos"])]
        if len(others) >= 2:
            aff[c["perm"][others[0]], others[1]] = 0.5
    shape = [int(rs.choice([2, 3])) for _ in range(nd)]
    shape[c["tpos"]] = int(rs.choice([3, 4, 5]))
    data = np.round(rs.randn(*shape) * 4) / 4 + np.arange(int(np.prod(shape))).reshape(shape) % 3
    cm = AffineTransform(CoordinateSystem(dom), CoordinateSystem(rng_names), aff)
    return Image(data, cm), data, dom, rng_names, aff


def _axis_value(c, spec, dom, rng_names, role):
    nd = c["nd"]
    pos = c["tpos"] if role == "t" else c["spos"]
    table = {"tname": dom[c["tpos"]], "rtime": rng_names[c["perm"][c["tpos"]]], "tidx": c["tpos"],
             "tneg": c["tpos"] - nd, "sname": dom[c["spos"]], "sidx": c["spos"], "sneg": c["spos"] - nd}
    del pos
    return table.get(spec, spec) if isinstance(spec, str) else spec


def _ax_txt(a):
    return f"i {a}" if isinstance(a, int) else f"n {a}"


def cmap_text(cm_dom, cm_rng, in2out, aff):
    nin, nout = len(cm_dom), len(cm_rng)
    io = " ".join("none" if x is None else str(x) for x in in2out)
    a = np.asarray(aff, dtype=float)
    return (f"{nin} {nout} {' '.join(cm_dom)} {' '.join(cm_rng)} {io} {a.shape[0]} {a.shape[1]} "
            f"{frs(a.ravel().tolist())} {fr(1e-5)}")


def _names_txt(names):
    return " ".join(n.replace(" ", "_") for n in names)


# ---------------------------------------------------------------------- one case
def run_imgax(c):
    from nipy.algorithms.diagnostics import commands as CMD
    from nipy.algorithms.diagnostics.screens import screen
    from nipy.algorithms.diagnostics.timediff import time_slice_diffs, time_slice_diffs_image
    from nipy.algorithms.utils.pca import pca, pca_image
    from nipy.core.api import Image
    from nipy.core.reference.coordinate_map import (axmap, drop_io_dim, input_axis_index, io_axis_indices)
    warnings.filterwarnings("ignore")
    np.seterr(all="ignore")
    img, data, dom, rng_names, aff = build_image(c)
    nd = c["nd"]
    cm = img.coordmap
    i2o = axmap(cm, "in2out")
    in2out = [i2o[i] for i in range(nd)]
    out2in = {o: i for i, o in enumerate(in2out) if o is not None}
    head = cmap_text(dom, rng_names, in2out, aff)
    ta = _axis_value(c, c["ta"], dom, rng_names, "t")
    sa = _axis_value(c, c["sa"], dom, rng_names, "s") if c["sa"] is not None else None
    which = c["which"]
    tags = ["imgax", "imgax-" + which, f"imgax-nd{nd}"]
    if c["perm"] != list(range(nd)):
        tags.append("imgax-permuted")
    for k in ("clash", "zero"):
        if c[k]:
            tags.append("imgax-" + k)
    if c["shear"]:
        tags.append("imgax-shear")
    snap = Snapshot(data=data)
    fail = None

    def resolve(a):
        """independent reading of the documented convention: an int is an input axis (negative from the
        end); a str is an input name, or an output name standing for the input axis paired with it"""
        if isinstance(a, int):
            return a + nd if -nd <= a < 0 else (a if 0 <= a < nd else None)
        if a in dom:
            i = dom.index(a)
            if a in rng_names and in2out[i] != rng_names.index(a):
                return None
            return i
        if a in rng_names:
            return out2in.get(rng_names.index(a))
        return None

    def orth(i):
        o = in2out[i]
        if o is None:
            return False
        nz = np.abs(aff[:-1, :-1]) > 1e-5
        nz[o, i] = False
        return not nz[o].any() and not nz[:, i].any()

    if which == "ioaxis":
        def call(f):
            try:
                return f()
            except Exception as e:
                return errname(e)
        a = call(lambda: io_axis_indices(cm, ta))
        b = call(lambda: input_axis_index(cm, ta))
        atxt = a if isinstance(a, str) else " ".join("none" if x is None else str(int(x)) for x in a)
        btxt = b if isinstance(b, str) else str(int(b))
        it = resolve(ta)
        if it is not None and not isinstance(a, str) and a[0] != it:
            fail = f"io_axis_indices({ta!r}) gives input axis {a[0]} on domain {dom} / range {rng_names}, expected {it}"
        elif it is not None and isinstance(a, str):
            fail = f"io_axis_indices({ta!r}) raised {a} on domain {dom} / range {rng_names} (input axis {it})"
        return {"lines": [f"ioaxis {head} {_ax_txt(ta)}"], "impl": [("text", f"{atxt} | {btxt}")], "oracle": fail,
                "nontrivial": True, "tags": tags, "mutated": snap.changed()}

    if which == "pcaimg":
        it = resolve(ta)
        mimg, msim = None, None
        if c["mask"] and it is not None:
            rs = np.random.RandomState(c["seed"] + 1)
            marr = (rs.rand(*[s for i, s in enumerate(data.shape) if i != it]) > 0.3).astype(float)
            marr.flat[0] = 1
            try:
                mcm = drop_io_dim(cm, ta)
                if c["mask"] == "bad":
                    mcm = mcm.renamed_domain({0: "other"})
                mimg = Image(marr, mcm)
                msim = bool(mimg.coordmap.similar_to(drop_io_dim(cm, ta)))
            except Exception:
                mimg, msim = None, None
        line = f"pcaimg {head} {_ax_txt(ta)} " + ("0" if msim is None else f"1 {int(msim)}")
        try:
            r = pca_image(img, ta, mimg)
        except Exception as e:
            if it is not None and orth(it) and msim in (None, True):
                fail = (f"pca_image raised {type(e).__name__}: {e} for axis {ta!r} on domain {dom} / range "
                        f"{rng_names} (input axis {it}, orthogonal to the rest)")
            return {"lines": [line], "impl": [("text", errname(e))], "oracle": fail, "nontrivial": False,
                    "tags": tags + ["imgax-refused"], "mutated": snap.changed()}
        bp = r["basis_projections"]
        dn = list(bp.coordmap.function_domain.coord_names)
        rn = list(bp.coordmap.function_range.coord_names)
        obs = f"{r['axis']} | {_names_txt(dn)} | {_names_txt(rn)}"
        if it is None:
            tags.append("imgax-unresolvable-accepted")
        elif msim is False:
            fail = (f"pca_image accepted a mask image whose coordinate map ({list(mimg.coordmap.function_domain.coord_names)}) "
                    f"is not the image's with axis {ta!r} dropped (documented requirement; ValueError)")
        else:
            r2 = pca(data, it, None if mimg is None else mimg.get_fdata())
            wd = list(dom); wd[it] = PCA
            wr = list(rng_names); wr[in2out[it]] = PCA
            if r["axis"] != it:
                fail = f"pca_image({ta!r}) reports axis {r['axis']}, expected input axis {it}"
            elif dn != wd or rn != wr:
                fail = f"pca_image({ta!r}) output axes {dn} -> {rn}, expected {wd} -> {wr}"
            elif not np.allclose(r["pcnt_var"], r2["pcnt_var"], atol=1e-8):
                fail = f"pca_image({ta!r}) percent variance differs from pca on array axis {it}"
            elif bp.shape != r2["basis_projections"].shape:
                fail = f"pca_image({ta!r}) projections shape {bp.shape}, pca on the array gives {r2['basis_projections'].shape}"
            elif f"basis_vectors over {ta}" not in r:
                fail = f"pca_image({ta!r}) result lacks the key 'basis_vectors over {ta}'"
            else:
                sgn = np.sign((r["basis_vectors"] * r2["basis_vectors"]).sum(0)); sgn[sgn == 0] = 1
                sh = [1] * nd; sh[it] = -1
                e = r2["basis_projections"] * sgn[:bp.shape[it]].reshape(sh)
                pv = r["pcnt_var"]
                if (len(pv) < 2 or np.min(-np.diff(pv)) > 1e-6) and not np.allclose(
                        bp.get_fdata(), e, atol=1e-6 * max(1, np.abs(e).max())):
                    fail = f"pca_image({ta!r}) projections differ from pca on array axis {it}"
        return {"lines": [line], "impl": [("text", obs)], "oracle": fail, "nontrivial": True, "tags": tags,
                "mutated": snap.changed()}

    if which == "tsdimg":
        if sa is None:
            sa = "slice"
        it, is_ = resolve(ta), resolve(sa)
        line = f"tsdimg {head} {_ax_txt(ta)} {_ax_txt(sa)}"
        try:
            r = time_slice_diffs_image(img, ta, sa)
        except Exception as e:
            if it is not None and is_ is not None and it != is_ and orth(it) and in2out[is_] is not None:
                fail = (f"time_slice_diffs_image raised {type(e).__name__}: {e} for time axis {ta!r}, slice axis "
                        f"{sa!r} on domain {dom} / range {rng_names}")
            return {"lines": [line], "impl": [("text", errname(e))], "oracle": fail, "nontrivial": False,
                    "tags": tags + ["imgax-refused"], "mutated": snap.changed()}
        v = r["diff2_mean_vol"]
        dn = list(v.coordmap.function_domain.coord_names)
        rn = list(v.coordmap.function_range.coord_names)
        obs = f"{it} {is_} | {_names_txt(dn)} | {_names_txt(rn)}"
        if it is None or is_ is None or it == is_:
            tags.append("imgax-unresolvable-accepted")
            obs = "accepted"
        else:
            r2 = time_slice_diffs(data, it, is_)
            for k in ("volume_mean_diff2", "slice_mean_diff2", "volume_means"):
                if not np.array_equal(r[k], r2[k]):
                    fail = fail or (f"time_slice_diffs_image({ta!r}, {sa!r}) {k} differs from the array call on "
                                    f"axes ({it}, {is_})")
            for k in ("diff2_mean_vol", "slice_diff2_max_vol"):
                if not np.array_equal(r[k].get_fdata(), r2[k]):
                    fail = fail or f"time_slice_diffs_image({ta!r}, {sa!r}) {k} differs from the array call"
                want = [n for i, n in enumerate(dom) if i != it]
                if list(r[k].coordmap.function_domain.coord_names) != want:
                    fail = fail or (f"time_slice_diffs_image {k} has axes "
                                    f"{r[k].coordmap.function_domain.coord_names}, expected {want}")
        return {"lines": [line], "impl": [("text", obs)], "oracle": fail, "nontrivial": True, "tags": tags,
                "mutated": snap.changed()}

    if which == "screen":
        line = (f"screenax {head} {nd} {_ax_txt(ta)} " + ("0" if sa is None else "1 " + _ax_txt(sa)))
        it = resolve(ta)
        if sa is None:
            is_ = dom.index("slice") if "slice" in dom and resolve("slice") is not None else (
                None if "slice" in dom or "slice" in rng_names else (2 if it == 3 else 3))
        else:
            is_ = resolve(sa)
        ok = nd == 4 and it is not None and is_ is not None and it != is_ and orth(it)
        try:
            r = screen(img, c["ncomp"], ta, sa)
        except Exception as e:
            if ok:
                fail = (f"screen raised {type(e).__name__}: {e} for time axis {ta!r}, slice axis {sa!r} on a 4D "
                        f"image with domain {dom} / range {rng_names}")
            return {"lines": [line], "impl": [("text", errname(e))], "oracle": fail, "nontrivial": False,
                    "tags": tags + ["imgax-refused"], "mutated": snap.changed()}
        dn = list(r["mean"].coordmap.function_domain.coord_names)
        if not ok:
            # accepted although the documented reading does not resolve the axes (e.g. an integer beyond the
            # range that `input_axis_index` shifts without checking): correspondence only
            tags.append("imgax-unresolvable-accepted")
            pa = r["pca_res"]["axis"]
            return {"lines": [line], "impl": [("screenax", pa, _names_txt(dn))], "oracle": None, "nontrivial": False,
                    "tags": tags, "mutated": snap.changed()}
        obs = f"{it} {is_} | {_names_txt(dn)}"
        defs = {"mean": data.mean(it), "std": data.std(it), "max": data.max(it), "min": data.min(it)}
        want = [n for i, n in enumerate(dom) if i != it]
        for k, v in defs.items():
            g = r[k]
            if list(g.coordmap.function_domain.coord_names) != want:
                fail = fail or f"screen {k} image has axes {g.coordmap.function_domain.coord_names}, expected {want}"
            elif g.shape != v.shape or not np.allclose(g.get_fdata(), v, rtol=1e-12, atol=1e-12):
                fail = fail or f"screen {k} image is not np.{k} over the time axis {ta!r}"
        if fail is None:
            p2 = pca_image(img, it, None, c["ncomp"], False)
            if not np.allclose(r["pca_res"]["pcnt_var"], p2["pcnt_var"], atol=1e-8) or r["pca_res"]["axis"] != it:
                fail = "screen pca_res differs from pca_image over the time axis"
            elif r["pca"] is not r["pca_res"]["basis_projections"]:
                fail = "screen['pca'] is not the pca basis projections image"
            else:
                t2 = time_slice_diffs(data, it, is_)
                for k in t2:
                    if not np.allclose(r["ts_res"][k], t2[k], rtol=1e-12, atol=1e-12):
                        fail = f"screen ts_res[{k}] differs from time_slice_diffs(data, {it}, {is_})"
                        break
        return {"lines": [line], "impl": [("text", obs)], "oracle": fail, "nontrivial": True, "tags": tags,
                "mutated": snap.changed()}

    # ---- commands.parse_fname_axes (the loaded image is substituted for the file)
    import nibabel as nib
    meta = {"header": nib.Nifti1Header()} if c["analyze"] else {}
    img2 = Image(data, cm, metadata=meta)
    targ = None if c["ta"] == "tname" and c["seed"] % 3 == 0 else ta
    sarg = sa
    if c["strarg"]:
        targ = None if targ is None else str(targ)
        sarg = None if sarg is None else str(sarg)
    fake = types.SimpleNamespace(load_image=lambda fname: img2)
    old = CMD.nipy
    CMD.nipy = fake
    try:
        try:
            _, t2, s2 = CMD.parse_fname_axes("some.nii", targ, sarg)
            obs = f"{_ax_txt(t2)} | {_ax_txt(s2)}"
        except Exception as e:
            obs = errname(e)
    finally:
        CMD.nipy = old

    def opt(a):
        return "0" if a is None else f"1 {a}"
    line = f"parseaxes {len(dom)} {' '.join(dom)} {int(c['analyze'])} {nd} {opt(targ)} {opt(sarg)}"
    want_t = "t" if targ is None else targ
    if isinstance(want_t, str):
        try:
            want_t = int(want_t)
        except ValueError:
            pass
    if not obs.startswith("error") and obs.split(" | ")[0] != _ax_txt(want_t):
        fail = f"parse_fname_axes time axis {obs.split(' | ')[0]!r} for argument {targ!r}"
    if obs.startswith("error") and (sarg is not None or "slice" in dom or (c["analyze"] and nd == 4)):
        fail = f"parse_fname_axes raised {obs} although a slice axis is given or has a documented default"
    return {"lines": [line], "impl": [("text", obs)], "oracle": fail, "nontrivial": True, "tags": tags,
            "mutated": snap.changed()}


def compare_screenax(obs, model_out):
    """`screen` accepted axes the documented convention does not resolve: the model must accept too and
    agree on the PCA axis and the names of the summary images"""
    if model_out.startswith(("error", "bad-op")):
        return f"impl accepted, model says {model_out}"
    parts = [p.strip() for p in model_out.split("|")]
    if parts[0].split()[0] != str(obs[1]) or parts[1] != obs[2]:
        return f"impl axis={obs[1]} names={obs[2]!r} model={model_out!r}"
    return None


# ---------------------------------------------------------------------- plot_tsdiffs
def run_tsdplot(c):
    import matplotlib
    matplotlib.use("Agg")
    import matplotlib.pyplot as plt
    from nipy.algorithms.diagnostics.timediff import time_slice_diffs
    from nipy.algorithms.diagnostics.tsdiffplot import plot_tsdiffs
    warnings.filterwarnings("ignore")
    rs = np.random.RandomState(c["seed"])
    data = rs.randint(1, 9, size=c["shape"]).astype(float) / 2
    res = time_slice_diffs(data, c["ta"], c["sa"])
    fail = None
    tags = ["tsdplot"]
    fig = plt.figure()
    axes = [fig.add_subplot(4, 1, i + 1) for i in range(4)]
    try:
        out_axes = plot_tsdiffs(res, axes)
        y0 = np.asarray(axes[0].lines[0].get_ydata(), dtype=float)
        off = np.asarray(axes[1].collections[0].get_offsets(), dtype=float)
        col = np.asarray(axes[1].collections[0].get_array(), dtype=float)
        y2 = np.asarray(axes[2].lines[0].get_ydata(), dtype=float)
        y3 = [np.asarray(l.get_ydata(), dtype=float) for l in axes[3].lines]
        xmax = [ax.get_xlim()[1] for ax in axes]
        xmin = [ax.get_xlim()[0] for ax in axes]
    finally:
        plt.close(fig)
    obs = [y0.tolist(), off[:, 1].tolist(), off[:, 0].tolist(), col.tolist(), y2.tolist(), y3[0].tolist(),
           y3[1].tolist(), y3[2].tolist(), xmax]
    T = len(res["volume_means"])
    S = res["slice_mean_diff2"].shape[1]
    mm = res["volume_means"].mean()
    sc = res["slice_mean_diff2"] / mm
    if out_axes is not axes and list(out_axes) != axes:
        fail = "plot_tsdiffs does not return the axes it was given"
    elif not np.allclose(y0, res["volume_mean_diff2"] / mm) or not np.allclose(y2, res["volume_means"] / mm):
        fail = "plot_tsdiffs panels 1 / 3 are not volume_mean_diff2 / volume_means scaled by the mean of means"
    elif not (np.allclose(y3[0], sc.mean(0)) and np.allclose(y3[1], sc.min(0)) and np.allclose(y3[2], sc.max(0))):
        fail = "plot_tsdiffs panel 4 is not mean / min / max over difference images of the scaled slice differences"
    elif sorted(zip(off[:, 0].tolist(), col.tolist(), off[:, 1].tolist())) != sorted(
            (float(t), float(s), float(sc[t, s])) for t in range(T - 1) for s in range(S)):
        fail = "plot_tsdiffs panel 2 does not show every (difference image, slice) value exactly once"
    elif xmin != [0, 0, 0, 0] or xmax != [T - 1, T - 1, T, S + 1]:
        fail = f"plot_tsdiffs x-limits {list(zip(xmin, xmax))}, expected (0, T-1), (0, T-1), (0, T), (0, S+1)"
    if fail is None and c.get("files"):
        tags.append("tsdplot-files")
        fail = _files_roundtrip(c, data)
    line = f"tsdplot {vview(data)} {c['ta']} {'none' if c['sa'] is None else c['sa']}"
    return {"lines": [line], "impl": [("parts", obs, 1e-9)], "oracle": fail, "nontrivial": True, "tags": tags,
            "mutated": None}


def _files_roundtrip(c, data):
    """`commands.tsdiffana` / `commands.diagnose` (-> `screen`, `write_screen_res`) on a NIfTI file: what
    is written equals what is computed"""
    import matplotlib.pyplot as plt
    import nibabel as nib
    import nipy
    from nipy.algorithms.diagnostics import commands as CMD
    from nipy.algorithms.diagnostics.timediff import time_slice_diffs
    if data.ndim != 4:
        return None
    d = tempfile.mkdtemp(prefix="c19plot")
    try:
        fn = os.path.join(d, "run.nii")
        nib.save(nib.Nifti1Image(data, np.diag([2.0, 3.0, 4.0, 1.0])), fn)
        # a NIfTI file has axes i, j, k, t: time last, slices third
        want = time_slice_diffs(data, 3, 2)
        args = types.SimpleNamespace(filename=fn, out_file=None, write_results=True, time_axis=None, slice_axis=None,
                                     out_path=None, out_fname_label=None)
        CMD.tsdiffana(args)
        plt.close("all")
        z = np.load(os.path.join(d, "tsdiff_run.npz"))
        if not np.allclose(z["volume_means"], want["volume_means"]) or not np.allclose(
                z["slice_mean_diff2"], want["slice_mean_diff2"]):
            return "tsdiffana wrote time courses that differ from time_slice_diffs of the file (time last, slice third)"
        for key, prefix in (("slice_diff2_max_vol", "dv2_max_"), ("diff2_mean_vol", "dv2_mean_")):
            v = nipy.load_image(os.path.join(d, prefix + "run.nii")).get_fdata()
            if not np.allclose(v, want[key]):
                return f"tsdiffana wrote a {key} volume that differs from time_slice_diffs of the file"
        try:
            CMD.tsdiffana(types.SimpleNamespace(filename=fn, out_file=os.path.join(d, "x.png"), write_results=True,
                                                time_axis=None, slice_axis=None, out_path=None, out_fname_label=None))
            return "tsdiffana accepted OUT_FILE together with WRITE_RESULTS (documented ValueError)"
        except ValueError:
            pass
        args = types.SimpleNamespace(filename=fn, time_axis="t", slice_axis="2", out_path=None, out_fname_label="lab",
                                     ncomponents=2)
        res = CMD.diagnose(args)
        plt.close("all")
        z = np.load(os.path.join(d, "vectors_components_lab.npz"))
        if not np.allclose(z["basis_vectors"], res["pca_res"]["basis_vectors"]) or not np.allclose(
                z["volume_means"], want["volume_means"]):
            return "diagnose wrote component vectors / volume means that differ from the screen results"
        for key in ("mean", "min", "max", "std", "pca"):
            v = nipy.load_image(os.path.join(d, f"{key}_lab.nii")).get_fdata()
            if not np.allclose(v, res[key].get_fdata(), atol=1e-6):
                return f"diagnose wrote a {key} image that differs from the screen result"
        if not np.allclose(res["mean"].get_fdata(), data.mean(-1)):
            return "diagnose: mean image is not the mean over time of the file"
        return None
    finally:
        plt.close("all")
        shutil.rmtree(d, ignore_errors=True)


def shrink(case):
    k = case.get("kind")
    if k == "imgax":
        for key, val in (("clash", False), ("zero", False), ("shear", None), ("mask", None),
                         ("perm", list(range(case["nd"]))), ("rtime", "tt"), ("tname", "t"), ("sname", "k")):
            if case[key] != val:
                c = dict(case)
                c[key] = val
                yield c
    if k == "tsdplot":
        if case.get("files"):
            c = dict(case); c["files"] = False
            yield c
        for i, s in enumerate(case["shape"]):
            if s > 2:
                c = dict(case); sh = list(case["shape"]); sh[i] = s - 1; c["shape"] = sh
                yield c
