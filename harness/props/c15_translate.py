"""C15 expression translator (wave 5): function bodies of `intvol.pyx` (the scalar `mu*` routines) and of
`rft.py` (`ECquasi` methods, `IntrinsicVolumes.__mul__`, the weights / tests of `ECcone`, `Q`, the cone of every
statistic class) regenerated statement by statement from the text of /repo as Lean **terms** over the model's
types (`lean/NipyVerif/Gen/C15Source.lean`).  `Props/C15Source.lean` proves each term to be what the model
computes (`*_from_source` / `*_as_modelled`): an edit of a source expression changes the generated term and the
theorem about it stops building.

libm / numpy calls are named leaves: `sqrt`, `acos`, `PI` -> the fields of `Num`; `np.power` -> a parameter `pw`;
`np.poly1d` arithmetic -> the model's `pmul` / `padd'` / `pderiv` / `peval` / `ppow`.
A source shape the translator does not recognise raises `TieBroken` (never a silent default)."""
from __future__ import annotations

import ast
import os
import re
from fractions import Fraction

PYX = "nipy/algorithms/statistics/intvol.pyx"
RFT = "nipy/algorithms/statistics/rft.py"


def _num(v):
    q = Fraction(v)
    return f"({q.numerator} : Rat)" if q.denominator == 1 else f"(({q.numerator} : Rat) / {q.denominator})"


class _Tr:
    """statements / expressions -> a Lean term.  `names`: source text of a leaf expression -> Lean text;
    `calls`: source text of a callee -> function (translator, positional arg nodes, keyword dict) -> Lean text."""

    def __init__(self, where, T, names, calls):
        self.where, self.T, self.names, self.calls = where, T, dict(names), dict(calls)

    def bad(self, node, why="unexpected shape"):
        txt = ast.unparse(node) if isinstance(node, ast.AST) else str(node)
        raise self.T(f"c15 translator, {self.where}: {why}: {txt}")

    def e(self, node):
        txt = ast.unparse(node)
        if txt in self.names:
            return self.names[txt]
        if isinstance(node, ast.Constant):
            if isinstance(node.value, bool):
                return "true" if node.value else "false"
            if isinstance(node.value, (int, float)):
                return _num(node.value)
            self.bad(node, "constant not translated")
        if isinstance(node, ast.Name):
            self.bad(node, "free name")
        if isinstance(node, ast.UnaryOp) and isinstance(node.op, ast.USub):
            return f"(-{self.e(node.operand)})"
        if isinstance(node, ast.BinOp):
            op = {ast.Add: "+", ast.Sub: "-", ast.Mult: "*", ast.Div: "/"}.get(type(node.op))
            if op is None:
                self.bad(node, "operator not translated")
            return f"({self.e(node.left)} {op} {self.e(node.right)})"
        if isinstance(node, ast.Call):
            f = ast.unparse(node.func)
            if f in self.calls:
                kw = {k.arg: k.value for k in node.keywords}
                return self.calls[f](self, node.args, kw)
            self.bad(node, "call not translated")
        self.bad(node)

    def test(self, node):
        if isinstance(node, ast.BoolOp):
            op = " ∧ " if isinstance(node.op, ast.And) else " ∨ "
            return "(" + op.join(self.test(v) for v in node.values) + ")"
        if isinstance(node, ast.Compare) and len(node.ops) == 1:
            op = {ast.Lt: "<", ast.LtE: "≤", ast.Gt: ">", ast.GtE: "≥", ast.Eq: "=", ast.NotEq: "≠"}.get(type(node.ops[0]))
            if op is None:
                self.bad(node, "comparison not translated")
            return f"({self.e(node.left)} {op} {self.e(node.comparators[0])})"
        if isinstance(node, ast.Call):
            return f"({self.e(node)} = true)"
        self.bad(node, "not a test")

    def block(self, stmts, ind="  ", raise_as=None):
        """a statement list that ends in `return` on every path -> `let … if … then … else …`"""
        if not stmts:
            raise self.T(f"c15 translator, {self.where}: a path does not end in return")
        s, rest = stmts[0], stmts[1:]
        if isinstance(s, ast.Return):
            if s.value is None:
                self.bad(s)
            return ind + self.e(s.value)
        if isinstance(s, ast.Raise):
            if raise_as is None:
                self.bad(s, "raise not expected")
            return ind + raise_as
        if isinstance(s, ast.Assign) and len(s.targets) == 1 and isinstance(s.targets[0], ast.Name):
            nm = s.targets[0].id
            v = self.e(s.value)
            self.names[nm] = nm
            return f"{ind}let {nm} := {v}\n" + self.block(rest, ind, raise_as)
        if isinstance(s, ast.AugAssign) and isinstance(s.target, ast.Name):
            nm = s.target.id
            op = {ast.Add: "+", ast.Sub: "-", ast.Mult: "*", ast.Div: "/"}.get(type(s.op))
            if op is None or nm not in self.names:
                self.bad(s)
            return f"{ind}let {nm} := ({nm} {op} {self.e(s.value)})\n" + self.block(rest, ind, raise_as)
        if isinstance(s, ast.If):
            if not isinstance(s.body[-1], (ast.Return, ast.Raise)):
                self.bad(s, "if-body does not end in return")
            saved = dict(self.names)
            a = self.block(s.body, ind + "    ", raise_as)
            self.names = dict(saved)
            b = self.block(list(s.orelse) + rest, ind, raise_as)
            return f"{ind}if {self.test(s.test)} then (\n{a})\n{ind}else\n{b}"
        self.bad(s, "statement not translated")


# ---------------------------------------------------------------------------------------------------------
# intvol.pyx: the scalar routines
# ---------------------------------------------------------------------------------------------------------
_PYX_FUNCS = ["mu1_edge", "mu2_tri", "mu1_tri", "mu3_tet", "mu2_tet", "limited_acos", "_mu1_tetface", "mu1_tet"]


def _pyx_function(txt, name, T):
    m = re.search(rf"^(?:cpdef|cdef inline|cdef|def) double {name}\((.*?)\)\s*(?:nogil)?\s*:\n(.*?)(?=^\S)", txt, re.S | re.M)
    if m is None:
        raise T(f"c15 translator: {name} not found in intvol.pyx")
    args = re.findall(r"double\s+(\w+)", m.group(1))
    if len(args) != len([a for a in m.group(1).split(",") if a.strip()]):
        raise T(f"c15 translator: {name}: arguments are not all `double`")
    body = re.sub(r'(r?""".*?""")', "", m.group(2), flags=re.S)
    lines = []
    for ln in body.split("\n"):
        code = ln.split("#")[0].rstrip()
        if not code.strip():
            continue
        d = re.match(r"^(\s*)cdef\s+double\s+(\w+)\s*=\s*(.*)$", code)
        if d:
            code = f"{d.group(1)}{d.group(2)} = {d.group(3)}"
        elif re.match(r"^\s*cdef\s+double\s+[\w, ]+$", code):
            continue
        lines.append(code)
    ind = min(len(l) - len(l.lstrip()) for l in lines)
    src = "def f():\n" + "\n".join("    " + l[ind:] for l in lines)
    try:
        fn = ast.parse(src).body[0]
    except SyntaxError as e:
        raise T(f"c15 translator: body of {name} is not plain statements: {e}")
    return args, fn.body


def _translate_pyx(repo, T):
    try:
        txt = open(os.path.join(repo, PYX)).read()
    except OSError as e:
        raise T(f"intvol.pyx unreadable: {e}")
    out = []
    done = []

    def mkcall(lean):
        def f(tr, args, kw):
            if kw:
                raise T(f"c15 translator: keyword arguments in a call of {lean}")
            return "(" + " ".join([lean] + [tr.e(a) for a in args]) + ")"
        return f
    for name in _PYX_FUNCS:
        args, body = _pyx_function(txt, name, T)
        calls = {"sqrt": mkcall("P.sq"), "acos": mkcall("P.acos")}
        for d in done:
            calls[d] = mkcall(f"{d.lstrip('_')} P")
        names = {a: a for a in args}
        names["PI"] = "P.pi"
        tr = _Tr(f"intvol.pyx {name}", T, names, calls)
        sig = " ".join(args)
        out.append(f"/-- intvol.pyx `{name}`, statement by statement -/\n"
                   f"def {name.lstrip('_')} (P : Num) ({sig} : Rat) : Rat :=\n{tr.block(body)}\n")
        done.append(name)
    return "\n".join(out)


# ---------------------------------------------------------------------------------------------------------
# rft.py
# ---------------------------------------------------------------------------------------------------------
def _strip_doc(fn):
    if fn.body and isinstance(fn.body[0], ast.Expr) and isinstance(getattr(fn.body[0], "value", None), ast.Constant):
        fn.body = fn.body[1:]
    return fn


def _translate_rft(repo, T):
    try:
        tree = ast.parse(open(os.path.join(repo, RFT)).read())
    except Exception as e:
        raise T(f"rft.py does not parse: {e}")
    classes = {n.name: n for n in tree.body if isinstance(n, ast.ClassDef)}
    funcs = {n.name: n for n in tree.body if isinstance(n, ast.FunctionDef)}

    def method(cls, name):
        c = classes.get(cls)
        if c is None:
            raise T(f"c15 translator: class {cls} not found in rft.py")
        for n in c.body:
            if isinstance(n, ast.FunctionDef) and n.name == name:
                return _strip_doc(n)
        raise T(f"c15 translator: {cls}.{name} not found in rft.py")

    def argnames(fn):
        return [a.arg for a in fn.args.args]

    def poly(tr, node):
        """an argument in a polynomial position: an ECquasi variable stands for its coefficients"""
        t = ast.unparse(node)
        if t in ("self", "other"):
            return f"{t}.c"
        return tr.e(node)

    def c_ecquasi(tr, args, kw):
        if len(args) != 1 or set(kw) != {"m", "exponent"}:
            raise T(f"c15 translator, {tr.where}: ECquasi(...) call has an unexpected shape")
        return f"(mkSQ {poly(tr, args[0])} {tr.e(kw['exponent'])} {tr.e(kw['m'])})"

    def c_poly1d(tr, args, kw):
        if len(args) != 1 or kw or not isinstance(args[0], ast.List):
            raise T(f"c15 translator, {tr.where}: np.poly1d literal has an unexpected shape")
        return "(poly1d [" + ", ".join(tr.e(x) for x in args[0].elts) + "])"

    def polyfn(lean, n):
        def f(tr, args, kw):
            if len(args) != n or kw:
                raise T(f"c15 translator, {tr.where}: call of {lean} has an unexpected shape")
            return "(" + " ".join([lean] + [poly(tr, a) for a in args]) + ")"
        return f

    def c_deriv(tr, args, kw):
        # np.poly1d.deriv(self, m=1) / <poly>.deriv(m=1)
        if set(kw) != {"m"} or ast.unparse(kw["m"]) != "1" or len(args) != 1:
            raise T(f"c15 translator, {tr.where}: deriv call has an unexpected shape")
        return f"(pderiv {poly(tr, args[0])})"

    base_names = {"self.m": "self.m", "self.exponent": "self.exponent", "other.exponent": "other.exponent",
                  "other.m": "other.m", "self.coeffs": "self.c", "p.coeffs": "p", "self": "self", "other": "other"}
    base_calls = {
        "ECquasi": c_ecquasi, "np.poly1d": c_poly1d,
        "np.poly1d.__mul__": polyfn("pmul", 2), "np.polymul": polyfn("pmul", 2),
        "np.poly1d.__add__": polyfn("padd'", 2),
        "np.poly1d.deriv": c_deriv,
    }
    out = []

    # --- denom_poly -------------------------------------------------------------------------------------
    fn = method("ECquasi", "denom_poly")
    tr = _Tr("ECquasi.denom_poly", T, {"self.m": "m"}, base_calls)
    out.append("/-- `ECquasi.denom_poly` (finite `m`) -/\n"
               f"def denom_poly (m : Rat) : Poly :=\n{tr.block(fn.body)}\n")

    # --- compatible -------------------------------------------------------------------------------------
    fn = method("ECquasi", "compatible")
    tr = _Tr("ECquasi.compatible", T, base_names, base_calls)
    out.append("/-- `ECquasi.compatible` -/\n"
               f"def compatible (self other : SQ) : Bool :=\n{tr.block(fn.body)}\n")

    # --- __mul__: the scalar branch and the instance branch -----------------------------------------------
    fn = method("ECquasi", "__mul__")
    if argnames(fn) != ["self", "other"] or len(fn.body) != 1 or not isinstance(fn.body[0], ast.If) \
            or ast.unparse(fn.body[0].test) != "np.isscalar(other)" or len(fn.body[0].orelse) != 1 \
            or not isinstance(fn.body[0].orelse[0], ast.If) \
            or ast.unparse(fn.body[0].orelse[0].test) != "self.compatible(other)" or fn.body[0].orelse[0].orelse:
        raise T("c15 translator: ECquasi.__mul__ has an unexpected shape")
    names = dict(base_names)
    names["self.coeffs * other"] = "(pscale other self.c)"
    tr = _Tr("ECquasi.__mul__ (scalar)", T, names, base_calls)
    out.append("/-- `ECquasi.__mul__`, branch `np.isscalar(other)` -/\n"
               f"def mul_scalar (self : SQ) (other : Rat) : SQ :=\n{tr.block(fn.body[0].body)}\n")
    tr = _Tr("ECquasi.__mul__ (instances)", T, base_names, base_calls)
    inner = tr.block(fn.body[0].orelse[0].body, "    ")
    out.append("/-- `ECquasi.__mul__`, branch `self.compatible(other)` (falls through to `None` otherwise) -/\n"
               f"def mul_quasi (self other : SQ) : Option SQ :=\n  if compatible self other = true then some (\n{inner})\n  else none\n")

    # --- __call__ ---------------------------------------------------------------------------------------
    fn = method("ECquasi", "__call__")
    names = {"self.m": "m", "self.exponent": "self.exponent", "val": "val", "self": "self"}
    calls = dict(base_calls)
    calls["np.poly1d.__call__"] = lambda tr, a, kw: f"(peval {poly(tr, a[0])} {tr.e(a[1])})"
    calls["self.denom_poly()"] = lambda tr, a, kw: f"(peval (denom_poly m) {tr.e(a[0])})"
    calls["np.power"] = lambda tr, a, kw: f"(pw {tr.e(a[0])} {tr.e(a[1])})"
    tr = _Tr("ECquasi.__call__", T, names, calls)
    out.append("/-- `ECquasi.__call__` (finite `m`); `pw` stands for `np.power` -/\n"
               f"def call (pw : Rat → Rat → Rat) (self : SQ) (m : Rat) (val : Rat) : Rat :=\n{tr.block(fn.body)}\n")

    # --- __pow__ ----------------------------------------------------------------------------------------
    fn = method("ECquasi", "__pow__")
    names = dict(base_names)
    names["_pow"] = "(_pow : Rat)"
    calls = dict(base_calls)
    calls["np.poly1d.__pow__"] = lambda tr, a, kw: (
        f"(ppow {poly(tr, a[0])} _pow)" if ast.unparse(a[1]) == "int(_pow)" else tr.bad(a[1]))
    calls["ECquasi"] = lambda tr, a, kw: c_ecquasi(tr, a, kw)
    tr = _Tr("ECquasi.__pow__", T, names, calls)
    tr.names["p"] = "p"
    out.append("/-- `ECquasi.__pow__` for a natural number `_pow` -/\n"
               f"def pow (self : SQ) (_pow : Nat) : SQ :=\n{tr.block(fn.body)}\n")

    # --- change_exponent: finite branch -------------------------------------------------------------------
    fn = method("ECquasi", "change_exponent")
    if len(fn.body) != 1 or not isinstance(fn.body[0], ast.If) or ast.unparse(fn.body[0].test) != "np.isfinite(self.m)":
        raise T("c15 translator: ECquasi.change_exponent has an unexpected shape")
    names = {"self.m": "(some m)", "self.exponent": "self.exponent", "_pow": "_pow", "self": "self",
             "int(_pow)": "((pyInt _pow : Int) : Rat)"}
    calls = dict(base_calls)
    calls["self.denom_poly"] = lambda tr, a, kw: "(denom_poly m)"
    tr = _Tr("ECquasi.change_exponent", T, names, calls)
    body = list(fn.body[0].body)
    # `p = _denom_poly ** int(_pow)`
    pw = [s for s in body if isinstance(s, ast.Assign) and ast.unparse(s.value) == "_denom_poly ** int(_pow)"]
    if len(pw) != 1:
        raise T("c15 translator: change_exponent: `_denom_poly ** int(_pow)` not found")
    tr.names["_denom_poly ** int(_pow)"] = "(ppow _denom_poly (pyInt _pow).toNat)"
    tr.names["coeffs"] = "coeffs"
    tr.names["np.polymul(self, p).coeffs"] = "(pmul self.c p)"
    out.append("/-- `ECquasi.change_exponent`, branch `np.isfinite(self.m)`; `none` = `ValueError` -/\n"
               f"def change_exponent (self : SQ) (m : Rat) (_pow : Rat) : Option SQ :=\n"
               + _optionise(tr.block(body, raise_as="none")) + "\n")
    els = fn.body[0].orelse
    if len(els) != 1 or ast.unparse(els[0]) != "return ECquasi(self.coeffs, exponent=self.exponent, m=self.m)":
        raise T("c15 translator: change_exponent: the m = inf branch has an unexpected shape")

    # --- __add__: finite branch ------------------------------------------------------------------------------
    fn = method("ECquasi", "__add__")
    try:
        top = fn.body[0]
        assert len(fn.body) == 1 and ast.unparse(top.test) == "self.compatible(other)" and not top.orelse
        fin = top.body[0]
        assert ast.unparse(fin.test) == "np.isfinite(self.m)"
        sM, s1, s2, sp, sr = fin.body
        assert ast.unparse(s1.targets[0]) == "q1" and ast.unparse(s1.value.func) == "self.change_exponent"
        assert ast.unparse(s2.targets[0]) == "q2" and ast.unparse(s2.value.func) == "other.change_exponent"
        assert ast.unparse(sp) == "p = np.poly1d.__add__(q1, q2)"
        assert ast.unparse(sr) == "return ECquasi(p.coeffs, exponent=M, m=self.m)"
        assert [ast.unparse(x) for x in fin.orelse] == ["p = np.poly1d.__add__(self, other)",
                                                        "return ECquasi(p.coeffs, exponent=0, m=self.m)"]
    except Exception:
        raise T("c15 translator: ECquasi.__add__ has an unexpected shape")
    names = {"self.exponent": "self.exponent", "other.exponent": "other.exponent", "M": "M"}
    calls = {"max": lambda tr, a, kw: f"(max {tr.e(a[0])} {tr.e(a[1])})"}
    tr = _Tr("ECquasi.__add__", T, names, calls)
    out.append("/-- `ECquasi.__add__`, branch `np.isfinite(self.m)` of compatible instances (`m` their common `m`);\n"
               "    `none` = the `ValueError` of `change_exponent` -/\n"
               "def add_fin (self other : SQ) (m : Rat) : Option SQ :=\n"
               f"  let M := {tr.e(sM.value)}\n"
               f"  (change_exponent self m {tr.e(s1.value.args[0])}).bind fun q1 =>\n"
               f"  (change_exponent other m {tr.e(s2.value.args[0])}).bind fun q2 =>\n"
               "  let p := (padd' q1.c q2.c)\n"
               "  some (mkSQ p M (some m))\n")

    # --- deriv: the two terms of the finite branch ------------------------------------------------------------
    fn = method("ECquasi", "deriv")
    try:
        fin = fn.body[0].body[0]
        assert ast.unparse(fn.body[0].test) == "m == 1" and ast.unparse(fin.test) == "np.isfinite(self.m)"
        q1, q2, ret = fin.body
        assert ast.unparse(ret) == "return q1 - self.exponent * q2"
        assert ast.unparse(fin.orelse[0]) == "return ECquasi(np.poly1d.deriv(self, m=1), m=np.inf, exponent=0)"
    except Exception:
        raise T("c15 translator: ECquasi.deriv has an unexpected shape")
    names = {"self.m": "(some m)", "self.exponent": "self.exponent", "self": "self"}
    calls = dict(base_calls)
    calls["self.denom_poly().deriv"] = lambda tr, a, kw: (
        "(pderiv (denom_poly m))" if not a and set(kw) == {"m"} and ast.unparse(kw["m"]) == "1" else tr.bad("deriv(m=…)"))
    tr = _Tr("ECquasi.deriv", T, names, calls)
    out.append("/-- `ECquasi.deriv`, finite `m`: the terms `q1`, `q2` of `q1 - self.exponent * q2` -/\n"
               f"def deriv_q1 (self : SQ) (m : Rat) : SQ := {tr.e(q1.value)}\n"
               f"def deriv_q2 (self : SQ) (m : Rat) : SQ := {tr.e(q2.value)}\n")

    # --- IntrinsicVolumes.__mul__ -----------------------------------------------------------------------------
    fn = method("IntrinsicVolumes", "__mul__")
    want = ("order = self.order + other.order + 1\nmu = np.zeros(order)\nfor i in range(order):\n"
            "    for j in range(i + 1):\n        try:\n            mu[i] += self.mu[j] * other.mu[i - j]\n"
            "        except:\n            pass\nreturn self.__class__(mu)")
    got = "\n".join(ast.unparse(s) for s in fn.body[1:])
    init = method("IntrinsicVolumes", "__init__")
    if "self.order = self.mu.shape[0] - 1" not in [ast.unparse(s) for s in init.body]:
        raise T("c15 translator: IntrinsicVolumes.__init__: `order` has an unexpected definition")
    if got != want:
        raise T("c15 translator: IntrinsicVolumes.__mul__ has an unexpected shape")
    out.append("/-- `IntrinsicVolumes.__mul__`: `order = self.order + other.order + 1` (`order = len(mu) - 1`),\n"
               "    `mu[i] += self.mu[j] * other.mu[i - j]` for `j in range(i + 1)` -/\n"
               "def iv_mul (self_mu other_mu : List Rat) : List Rat :=\n"
               "  let order := (self_mu.length - 1) + (other_mu.length - 1) + 1\n"
               "  (List.range order).map (fun i => ((List.range (i + 1)).map (fun j => tryGet self_mu j * tryGet other_mu (i - j))).sum)\n")

    # --- ECcone: weights and tests --------------------------------------------------------------------------------
    def find_assign(fn, target):
        vals = [n.value for n in ast.walk(fn) if isinstance(n, ast.Assign) and ast.unparse(n.targets[0]) == target]
        if len(vals) != 1:
            raise T(f"c15 translator: {fn.name}: expected exactly one assignment to {target}")
        return vals[0]

    call = method("ECcone", "__call__")
    names = {"float(search.mu[k])": "mu_k", "k": "(k : Rat)", "2 * np.pi": "twoPi", "x": "x", "self.dfd": "m",
             "q_even(x)": "qe", "q_odd(x)": "qo"}
    calls = {"np.power": lambda tr, a, kw: f"(pw {tr.e(a[0])} {tr.e(a[1])})",
             "np.exp": lambda tr, a, kw: f"(ex {tr.e(a[0])})"}
    tr = _Tr("ECcone.__call__", T, names, calls)
    cexpr = tr.e(find_assign(call, "c"))
    tr.names["x ** 2"] = "(x ^ 2)"
    aug = [n for n in ast.walk(call) if isinstance(n, ast.AugAssign) and ast.unparse(n.target) == "_rho"]
    if [type(a.op) for a in aug] != [ast.Mult, ast.Mult, ast.Add] or ast.unparse(find_assign(call, "_rho")) != "q_even(x) + q_odd(x)":
        raise T("c15 translator: ECcone.__call__: the assembly of _rho has an unexpected shape")
    tr.names["P(x)"] = "tail"
    tr.names["search.mu[0]"] = "s0"
    tr.names["self.mu[0]"] = "mu0"
    tests = [n.test for n in ast.walk(call) if isinstance(n, ast.If) and "search.mu[0]" in ast.unparse(n.test)]
    if len(tests) != 1:
        raise T("c15 translator: ECcone.__call__: the tail test has an unexpected shape")
    accs = sorted(ast.unparse(n) for n in ast.walk(call) if isinstance(n, ast.AugAssign) and ast.unparse(n.target).startswith("q_"))
    if accs != ["q_even += q * c", "q_even += q[0] * c", "q_odd += q[1] * c"]:
        raise T("c15 translator: ECcone.__call__: the accumulation of q_even / q_odd has an unexpected shape")
    out.append("/-- `ECcone.__call__`: the weight `c` of `quasi(k)` (`pw` = `np.power`), the kernels multiplying `_rho`\n"
               "    (finite `dfd` / inf), the test and the value of the tail term -/\n"
               f"def cone_c (pw : Rat → Rat → Rat) (twoPi mu_k : Rat) (k : Nat) : Rat := {cexpr}\n"
               f"def cone_kernel_fin (pw : Rat → Rat → Rat) (m x : Rat) : Rat := {tr.e(aug[0].value)}\n"
               f"def cone_kernel_inf (ex : Rat → Rat) (x : Rat) : Rat := {tr.e(aug[1].value)}\n"
               f"def cone_tail_test (s0 mu0 : Rat) : Prop := {tr.test(tests[0])}\n"
               f"def cone_tail (tail s0 mu0 : Rat) : Rat := {tr.e(aug[2].value)}\n"
               f"def cone_rho0 (qe qo : Rat) : Rat := {tr.e(find_assign(call, '_rho'))}\n")

    qp = method("ECcone", "_quasi_polynomials")
    tests = [n for n in ast.walk(qp) if isinstance(n, ast.If)]
    if len(tests) != 1 or [ast.unparse(s) for s in tests[0].body] != [
            "_q = ECquasi(Q(k + dim, dfd=self.dfd), m=self.dfd, exponent=k / 2.0)", "_q *= float(c[k])",
            "quasi_polynomials.append(_q)"] or tests[0].orelse:
        raise T("c15 translator: ECcone._quasi_polynomials has an unexpected shape")
    if ast.unparse(find_assign(qp, "c")) != "self.mu / np.power(2 * np.pi, np.arange(self.order + 1.0) / 2.0)":
        raise T("c15 translator: ECcone._quasi_polynomials: `c` has an unexpected shape")
    tr = _Tr("ECcone._quasi_polynomials", T, {"k": "(k : Int)", "dim": "dim", "0": "(0 : Int)"}, {})
    tq = _Tr("ECcone._quasi_polynomials", T, {"k": "(k : Rat)"}, {})
    ecq = tests[0].body[0].value
    out.append("/-- `ECcone._quasi_polynomials`: which `k` contribute, the exponent and the dimension of `Q` -/\n"
               f"def qp_test (k : Nat) (dim : Int) : Prop := {tr.test(tests[0].test)}\n"
               f"def qp_exponent (k : Nat) : Rat := {tq.e({kw.arg: kw.value for kw in ecq.keywords}['exponent'])}\n"
               f"def qp_qdim (k : Nat) (dim : Int) : Int := {ast.unparse(ecq.args[0].args[0]).replace('k', '(k : Int)')}\n")

    qu = method("ECcone", "quasi")
    tests = [n for n in ast.walk(qu) if isinstance(n, ast.If) and "exponent" in ast.unparse(n.test)]
    if len(tests) != 1 or ast.unparse(tests[0].test) != "_q.exponent % 1 == 0" \
            or [ast.unparse(s) for s in tests[0].body] != ["q_even += _q"] \
            or [ast.unparse(s) for s in tests[0].orelse] != ["q_odd += _q"]:
        raise T("c15 translator: ECcone.quasi: the even / odd test has an unexpected shape")
    out.append("/-- `ECcone.quasi`: `_q.exponent % 1 == 0` sends `_q` to `q_even`, else to `q_odd` -/\n"
               "def quasi_is_even (exponent : Rat) : Prop := exponent - (Rat.floor exponent : Rat) = 0\n")

    # --- Q ----------------------------------------------------------------------------------------------------
    q = _strip_doc(funcs.get("Q") or (_ for _ in ()).throw(T("c15 translator: Q not found in rft.py")))
    loops = [n for n in ast.walk(q) if isinstance(n, ast.For)]
    if len(loops) != 1 or ast.unparse(loops[0].iter) != "range((j - 1) // 2 + 1)" or ast.unparse(loops[0].target) != "L":
        raise T("c15 translator: Q: the loop over L has an unexpected shape")
    if ast.unparse(find_assign(q, "coeffs")) != "np.around(hermitenorm(j - 1).c)":
        raise T("c15 translator: Q: the Hermite coefficients have an unexpected shape")
    stm = [ast.unparse(s) for s in loops[0].body]
    if len(stm) != 4 or stm[3] != "coeffs[2 * L] *= f" or \
            stm[2] != "f *= 0.0 if b <= 0 and b == np.floor(b) else gammasgn(b)":
        raise T("c15 translator: Q: the loop body has an unexpected shape")
    tr = _Tr("Q", T, {"m": "m", "j": "(j : Rat)", "L": "(L : Rat)", "b": "b"},
             {"gammaln": lambda tr, a, kw: f"(lg {tr.e(a[0])})", "np.log": lambda tr, a, kw: f"(ln {tr.e(a[0])})",
              "np.exp": lambda tr, a, kw: f"(ex {tr.e(a[0])})"})
    out.append("/-- `Q(dim, dfd)`, finite `dfd`: the number of rescaled coefficients, the Gamma argument `b`, the factor `f`\n"
               "    before its sign (`lg` = gammaln, `ln`, `ex` named leaves) and the index of the coefficient it scales -/\n"
               "def q_loop_count (j : Nat) : Nat := (j - 1) / 2 + 1\n"
               f"def q_b (m : Rat) (j L : Nat) : Rat := {tr.e(loops[0].body[0].value)}\n"
               f"def q_f (lg ln ex : Rat → Rat) (m : Rat) (j L : Nat) : Rat :=\n  let b := q_b m j L\n  {tr.e(loops[0].body[1].value)}\n"
               "def q_index (L : Nat) : Nat := 2 * L\n")

    # --- the cone of every statistic ------------------------------------------------------------------------------
    rows = []
    for cls in ["ChiSquared", "TStat", "FStat", "Roy", "MultilinearForm", "Hotelling", "OneSidedF"]:
        init = method(cls, "__init__")
        cone = [n for n in ast.walk(init) if isinstance(n, ast.Call) and ast.unparse(n.func) == "ECcone.__init__"]
        if len(cone) != 1:
            raise T(f"c15 translator: {cls}.__init__ does not call ECcone.__init__ exactly once")
        kw = {k.arg: ast.unparse(k.value) for k in cone[0].keywords}
        prod = kw.get("product", "[1]")
        if prod == "product":
            prod = "; ".join(ast.unparse(s) for s in init.body if "product" in ast.unparse(s) and "ECcone" not in ast.unparse(s))
        arg = "x"
        c = classes[cls]
        cl = [n for n in c.body if isinstance(n, ast.FunctionDef) and n.name == "__call__"]
        if cl:
            # what is evaluated: the statements up to the last `ECcone.__call__` and the return value; statements
            # between the two only restore the object's state (covered by the `stathist` cases of the check)
            body = [ast.unparse(s) for s in _strip_doc(cl[0]).body]
            # a cast of the threshold (same numbers, float64) is not part of what is evaluated
            body = [t for t in body if t != "x = np.asarray(x, np.float64)"]
            last = max((i for i, t in enumerate(body) if "ECcone.__call__" in t), default=None)
            if last is None or not body[-1].startswith("return "):
                raise T(f"c15 translator: {cls}.__call__ has an unexpected shape")
            arg = "; ".join(body[:last + 1] + ([body[-1]] if last != len(body) - 1 else []))
        rows.append((cls, kw.get("mu", "[1]"), kw.get("dfd", "np.inf"), prod, arg))
    ss = funcs.get("spherical_search")
    if ss is None or [ast.unparse(s) for s in _strip_doc(ss).body] != ["return IntrinsicVolumes([mu_sphere(n, j, r=r) for j in range(n)])"]:
        raise T("c15 translator: spherical_search has an unexpected shape")

    def s(x):
        x = " ".join(x.split())
        return '"' + x.replace("\\", "\\\\").replace('"', '\\"') + '"'
    out.append("/-- the cone of every statistic class: (class, `mu=`, `dfd=`, `product`, what `__call__` evaluates) -/\n"
               "def statCones : List (String × String × String × String × String) := [\n  "
               + ",\n  ".join("(" + ", ".join(s(x) for x in r) + ")" for r in rows) + "]\n")
    return "\n".join(out)


def _optionise(block):
    """wrap the value lines of a block (those that are not `let` / `if` / `else` / `none`) in `some`"""
    res = []
    for ln in block.split("\n"):
        st = ln.strip()
        if st.startswith(("let ", "if ", "else", ")")) or st in ("none", "none)"):
            res.append(ln)
        else:
            ind = ln[:len(ln) - len(ln.lstrip())]
            res.append(f"{ind}some {st}")
    return "\n".join(res)


def translate(repo, TieBroken):
    txt = ("/- GENERATED by harness/props/c15_translate.py from nipy/algorithms/statistics/intvol.pyx and rft.py:\n"
           "   function bodies statement by statement as Lean terms over the model's types.  Do not edit. -/\n"
           "import NipyVerif.Model.C15Np\n"
           "namespace NipyVerif.Gen.C15Source\nopen NipyVerif.C15\n\n"
           + _translate_pyx(repo, TieBroken) + "\n" + _translate_rft(repo, TieBroken)
           + "\nend NipyVerif.Gen.C15Source\n")
    return [("NipyVerif/Gen/C15Source.lean", txt)]
