"""C16 helper — the *definition* of nipy's cubic B-spline sampling, written independently of
cubic_spline.c (floor-based window, exact 2/3), and the same value through SciPy.

For a coefficient array c along one axis of length ddim+1 the mirror (whole-sample symmetric)
spline is    s(x) = sum_k c[mirror(k)] * beta3(x - k),  k over all integers (beta3 vanishes
outside (-2, 2), so the sum has at most four terms: floor(x)-1 .. floor(x)+2).
Boundary modes (the comment block at the top of cubic_spline.c):
  zero    : x < -1 or x > dim -> 0;  -1 <= x < 0 -> (1+x) s(0);  ddim < x <= dim -> (dim-x) s(ddim)
  nearest : x clamped into [0, ddim]
  reflect : the grid mirrored once on each side: s(x) for -ddim <= x <= 2 ddim, 0 beyond.
n-D sampling is the tensor product.
"""
from __future__ import annotations

import math

import numpy as np


def beta3(t):
    a = abs(t)
    if a >= 2:
        return 0.0
    if a < 1:
        return 2.0 / 3.0 - a * a + 0.5 * a * a * a
    return (2 - a) ** 3 / 6.0


def mirror(k, ddim):
    if ddim == 0:
        return 0
    per = 2 * ddim
    k %= per                      # Python: non-negative
    return per - k if k > ddim else k


def boundary(mode, ddim, x):
    """(x', weight) or None (the sample is 0)"""
    dim = ddim + 1
    if mode == 0:
        if x < -1 or x > dim:
            return None
        if x < 0:
            return 0.0, 1.0 + x
        if x > ddim:
            return float(ddim), dim - x
        return x, 1.0
    if mode == 1:
        return min(max(x, 0.0), float(ddim)), 1.0
    if x < -ddim or x > 2 * ddim:
        return None
    return x, 1.0


def axis_taps(x, ddim):
    """[(coefficient index, weight)]: every integer node whose B-spline reaches x"""
    f = math.floor(x)
    out = []
    for k in range(f - 2, f + 4):
        b = beta3(x - k)
        if b != 0.0:
            out.append((mirror(k, ddim), b))
    return out


def sample_def(coef, p, modes):
    """tensor-product definition on the coefficient array"""
    v = np.asarray(coef, dtype=float)
    w = 1.0
    for x, m in zip(p, modes):
        ddim = v.shape[0] - 1
        bc = boundary(m, ddim, float(x))
        if bc is None:
            return 0.0
        x2, wa = bc
        w *= wa
        acc = 0.0
        for pos, b in axis_taps(x2, ddim):
            acc = acc + b * v[pos]
        v = acc
    return float(w * v)


def scipy_def(src, pts, modes):
    """the same through SciPy: order-3 spline of the mirror extension of the *samples*
    (independent of nipy's coefficients), at the boundary-transformed coordinates"""
    from scipy import ndimage as ndi
    src = np.asarray(src, dtype=float)
    P, W = [], []
    for p in pts:
        q, w = [], 1.0
        for x, m, s in zip(p, modes, src.shape):
            bc = boundary(m, s - 1, float(x))
            if bc is None:
                q.append(0.0); w = 0.0
            else:
                q.append(bc[0]); w *= bc[1]
        P.append(q); W.append(w)
    vals = ndi.map_coordinates(src, np.array(P, dtype=float).T.reshape(src.ndim, -1), order=3, mode="mirror")
    return [float(a * b) for a, b in zip(vals, W)]


def gen_points(rs, shape, modes, npts):
    """off-grid sampling points: inside, outside on both sides, at and beyond every mode's limits"""
    pts = []
    for _ in range(npts):
        p = []
        for s, m in zip(shape, modes):
            dd = s - 1
            u = rs.random_sample()
            if u < 0.12:
                x = float(rs.randint(0, s))
            elif u < 0.24:
                x = float(rs.choice([-1.0, -0.5, dd + 0.5, dd + 1.0, -dd, 2.0 * dd, dd - 0.25, -0.25, dd + 0.25,
                                     -dd + 0.5, 2.0 * dd - 0.5]))
            elif u < 0.5:
                x = float(np.round(rs.uniform(0, dd) * 8) / 8)
            elif u < 0.72:         # left of the grid, non-integer
                lo = -1.0 if m == 0 else (-3.0 if m == 1 else -float(max(dd, 1)))
                x = float(np.round(rs.uniform(lo, 0) * 8) / 8)
                if x == math.floor(x):
                    x -= 0.375
                if m == 2 and x < -dd:
                    x = -dd + 0.125 if dd > 0 else 0.0
            elif u < 0.92:         # right of the grid
                hi = dd + 1.0 if m == 0 else (dd + 3.0 if m == 1 else 2.0 * dd)
                x = float(np.round(rs.uniform(dd, hi) * 8) / 8)
            else:                  # beyond the limits of the mode
                x = float(rs.choice([-dd - 0.5, 2 * dd + 0.5, -1.25, dd + 1.25, -dd - 2.0, 2 * dd + 3.0]))
            p.append(x)
        pts.append(p)
    return pts
