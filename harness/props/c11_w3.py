"""C11, third part (wave 3): presentations of the *same numbers* in other dtypes / memory layouts,
operation histories that start from a builder's output (SciPy's int32 indices, inexact lengths),
selectors as bool / 0-1 / signed scores, and the model lines of `Model/C11C.lean`
(`compact`, `norm2`, `euclid`, `rme`, `vdiag`, `fromcsc`, `bfromcoo`).
"""
from __future__ import annotations

import numpy as np

from harness.props.c11_more import fr, frs, gline, mat

INT_DTS = ["int8", "uint8", "int16", "uint16", "int32", "uint32", "int64"]
LAYOUTS = ["C", "C", "C", "F", "strided", "neg", "ro"]


def representable(a, dt):
    """every entry of the float array `a` is exactly a value of dtype `dt`"""
    a = np.asarray(a, dtype=float)
    if dt is None:
        return True
    d = np.dtype(dt)
    if a.size == 0:
        return True
    if d.kind in "iu":
        info = np.iinfo(d)
        return bool(np.all(a == np.round(a)) and a.min() >= info.min and a.max() <= info.max)
    if d.kind == "f":
        with np.errstate(all="ignore"):
            return bool(np.all(a.astype(d).astype(float) == a))
    return False


def present(a, dt=None, layout="C"):
    """the numbers of `a` as dtype `dt` (when representable, else unchanged) in the given memory layout"""
    a = np.asarray(a)
    if dt is not None and representable(a, dt):
        a = a.astype(dt)
    if layout == "F" and a.ndim == 2:
        a = np.asfortranarray(a)
    elif layout == "strided":
        big = np.zeros(tuple(2 * s for s in a.shape), dtype=a.dtype)
        sl = tuple(slice(None, None, 2) for _ in a.shape)
        big[sl] = a
        a = big[sl]
    elif layout == "neg":
        sl = (slice(None, None, -1),) + (slice(None),) * (a.ndim - 1)
        a = a[sl].copy()[sl]
    elif layout == "ro":
        a = a.copy()
        a.setflags(write=False)
    else:
        a = np.ascontiguousarray(a)
    return a


def how(dt, layout):
    s = []
    if dt:
        s.append(str(dt))
    if layout and layout != "C":
        s.append({"F": "Fortran order", "strided": "strided view", "neg": "negative-stride view",
                  "ro": "read-only"}[layout])
    return ", ".join(s)


# ----------------------------------------------------------------------
# selectors
# ----------------------------------------------------------------------
SELECTOR_KINDS = ["int", "bool", "scores", "float", "col", "uint8"]


def selector(keep01, kind):
    """the 0/1 vector `keep01` as callers hold such a selector: the kept entries are the non-zero ones"""
    k = np.asarray(keep01, dtype=np.int64)
    n = len(k)
    if kind == "bool":
        return k.astype(bool)
    if kind == "scores":      # positive and negative scores, 0 = drop
        return np.where(k > 0, np.where(np.arange(n) % 2 == 0, 2 + np.arange(n) % 3, -1 - np.arange(n) % 2), 0).astype(np.int64)
    if kind == "float":
        return np.where(k > 0, 0.5 + (np.arange(n) % 3), 0.0)
    if kind == "col":
        return k.reshape(n, 1)
    if kind == "uint8":
        return k.astype(np.uint8)
    return k


# ----------------------------------------------------------------------
# model lines
# ----------------------------------------------------------------------
def compact_line(g, V, cur, add, fail):
    """compact_neighb as written: idx and the (neighbour, weight) slices, each slice in canonical order"""
    idx, nb, wt = g.compact_neighb()
    idx = [int(x) for x in np.asarray(idx).ravel()]
    nb = [int(x) for x in np.asarray(nb).ravel()]
    wt = [float(x) for x in np.asarray(wt, float).ravel()]
    ok = len(idx) == V + 1 and idx[0] == 0 and all(a <= b for a, b in zip(idx, idx[1:])) and idx[-1] == len(nb) == len(wt)
    slices = [sorted(zip(nb[idx[v]:idx[v + 1]], wt[idx[v]:idx[v + 1]])) for v in range(V)] if ok else []
    add(f"compact {gline(V, cur)}",
        " ".join(map(str, idx)) + " | " + " ; ".join(" ".join(f"{a} {fr(b)}" for a, b in s) for s in slices))
    if not ok:
        fail(f"compact_neighb: idx {idx} does not cut the {len(nb)} neighbours into V slices")
        return
    for v in range(V):
        if slices[v] != sorted((b, w) for a, b, w in cur if a == v):
            fail(f"compact_neighb: slice of vertex {v} is {slices[v]}, its out-edges are "
                 f"{sorted((b, w) for a, b, w in cur if a == v)}")
            return


def norm2_line(V, cur, after_txt, ret, add):
    """normalize(2): the two scalings handed back are passed to the model as certified parameters"""
    try:
        r1, r2 = (np.asarray(m.diagonal(), float).ravel().tolist() for m in ret)
    except Exception:      # noqa: BLE001
        return
    if not (np.all(np.isfinite(r1)) and np.all(np.isfinite(r2))):
        return
    add(f"norm2 {gline(V, cur)} {len(r1)} {frs(r1)} {len(r2)} {frs(r2)}", after_txt + " | ok")


def euclid_line(V, cur, X, w, add):
    w = np.asarray(w, float).ravel()
    add(f"euclid {gline(V, cur)} {mat(X)} {len(w)} {frs(w.tolist())}".rstrip(),
        (frs((w ** 2).tolist()) + " | ok").strip() if len(w) else "| ok")


def rme_line(V, cur, valid, obs, add):
    v = np.asarray(valid, float).ravel()
    add(f"rme {gline(V, cur)} {len(v)} {frs(v.tolist())}".rstrip(), obs)
