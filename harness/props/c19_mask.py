"""C19 — mask utilities of `nipy/labs/mask.py` in full (case kinds of the extension round).

Kinds: `intersect` (collections of 1 … 2**15 masks, every mask dtype, values other than 0/1, every
threshold that separates two voxel counts, file names), `cc` (largest_cc /
threshold_connect_components incl. masks with > 255 and > 32767 components), `cmask`
(compute_mask on every volume dtype), `sessions` (compute_mask_sessions on images / file lists /
4-D files, 1 … 300 sessions), `cmfiles` (compute_mask_files), `series` (series_from_mask).

Counting clauses are evaluated with Python integers (`Fraction`), never in a NumPy integer type.
"""
from __future__ import annotations

import math
import os
import shutil
import tempfile
from fractions import Fraction

import numpy as np

from harness.util import Snapshot, errname, fr, frs

CAP = 1 - 1.e-7
MDTYPES = ["bool", "uint8", "int8", "int16", "int64", "float32", "float64"]
VDTYPES = ["float64", "float64", "float32", "uint8", "int16", "int32", "uint16"]
BIGK = [127, 128, 129, 200, 255, 256, 257, 300]
INTSCALE = {"uint8": (1, 140), "int16": (100, 20000), "uint16": (300, 30000), "int32": (10000000, 1000000000)}


def flood_components(mask):
    """independent 6-connectivity labelling (face neighbours), any ndim"""
    mask = np.asarray(mask) != 0
    lab = np.zeros(mask.shape, int)
    cur = 0
    for start in zip(*np.nonzero(mask)):
        if lab[start]:
            continue
        cur += 1
        stack = [start]
        lab[start] = cur
        while stack:
            p = stack.pop()
            for ax in range(mask.ndim):
                for d in (-1, 1):
                    q = list(p); q[ax] += d
                    if 0 <= q[ax] < mask.shape[ax]:
                        q = tuple(q)
                        if mask[q] and not lab[q]:
                            lab[q] = cur
                            stack.append(q)
    return lab, cur


def is_largest_component_of(g2, g):
    """g2 is one connected component of g of maximal size (or both empty)"""
    lab, nb = flood_components(g)
    if nb == 0:
        return not np.asarray(g2).any()
    sizes = np.bincount(lab.ravel())[1:]
    _, nb2 = flood_components(g2)
    g2 = np.asarray(g2) != 0
    return nb2 == 1 and int(g2.sum()) == int(sizes.max()) and not (g2 & ~(np.asarray(g) != 0)).any()


# ---------------------------------------------------------------------- generation
def gen_intersect(rng, quick):
    cases = []

    def one(k, shape, **kw):
        c = {"kind": "intersect", "shape": shape, "seed": rng.randrange(1 << 30), "k": k,
             "thr": rng.choice([0.0, 0.25, 0.5, 0.5, 0.75, 1.0, 0.125, 1 / 3, 0.3, 0.9, 2 / 3, 0.2, 1.5, -0.25,
                                1.0, 0.99, 0.0]),
             "mtype": rng.choice(MDTYPES), "vals": rng.choice(["01", "01", "other", "other", "mixed"]),
             "layout": rng.choice(["C", "C", "F", "strided"]), "files": False}
        c.update(kw)
        return c

    for _ in range(110 if quick else 4000):
        cases.append(one(rng.choice([1, 2, 3, 3, 4, 5, 8, 13]), [rng.choice([1, 2, 3, 4]) for _ in range(3)]))
    # large collections: the per-voxel count passes 127 / 255 / 32767
    for k in (BIGK if quick else BIGK * 6):
        cases.append(one(k + (0 if quick else rng.choice([0, 0, 1, 7])),
                         rng.choice([[1, 1, 2], [1, 2, 2], [2, 2, 2], [1, 1, 1], [2, 1, 3]])))
    for k in ([32768, 32769] if quick else [32767, 32768, 32769, 40000, 65536, 65537]):
        cases.append(one(k, rng.choice([[1, 1, 2], [1, 1, 1]]), layout="C"))
    for _ in range(6 if quick else 100):
        cases.append(one(rng.choice([1, 2, 3, 5]), [rng.choice([2, 3]) for _ in range(3)], files=True,
                         mtype=rng.choice(["uint8", "int16", "float32", "float64"]), layout="C"))
    return cases


def gen_cc(rng, quick):
    cases = []
    for _ in range(80 if quick else 3000):
        shape = [rng.choice([1, 2, 3, 4, 5]) for _ in range(3)]
        cases.append({"kind": "cc", "shape": shape, "seed": rng.randrange(1 << 30), "pattern": "random",
                      "dens": rng.choice([0.0, 0.15, 0.3, 0.45, 0.6, 1.0]),
                      "thr": rng.choice([0, 1, 2, 3, 5, 2.5, 100]),
                      "mtype": rng.choice(["bool", "int", "float", "uint8", "float32", "int8neg"]),
                      "layout": rng.choice(["C", "C", "F", "strided"])})
    # many components: label counts beyond 255 / 32767
    for n in ([300, 600] if quick else [257, 300, 520, 600, 1000, 4000]):
        cases.append({"kind": "cc", "shape": [1, 2, 2 * n], "seed": rng.randrange(1 << 30), "pattern": "comb",
                      "dens": 0.0, "thr": rng.choice([1, 2, 3]), "mtype": rng.choice(["bool", "uint8", "float"]),
                      "layout": "C"})
    for n in ([32800] if quick else [32768, 32800, 33000, 65600]):
        cases.append({"kind": "cc", "shape": [1, 2, 2 * n], "seed": rng.randrange(1 << 30), "pattern": "comb",
                      "dens": 0.0, "thr": 2, "mtype": "bool", "layout": "C"})
    return cases


def gen_cmask(rng, quick):
    cases = []
    for _ in range(100 if quick else 3500):
        shape = [rng.choice([3, 4, 5, 6]) for _ in range(3)]
        cases.append({"kind": "cmask", "shape": shape, "seed": rng.randrange(1 << 30),
                      "m": rng.choice([0.2, 0.25, 0.125, 0.0, 0.5, 0.3]),
                      "M": rng.choice([0.9, 0.875, 0.75, 0.5, 0.95]),
                      "excl": rng.random() < 0.3, "ties": rng.random() < 0.4,
                      "a": rng.choice([2.0, 0.5, 4.0, 1.0, 8.0, 3.0]),
                      "b": rng.choice([0.0, 16.0, -8.0, 100.0, 1.0]),
                      "ref": rng.random() < 0.4, "dtype": rng.choice(VDTYPES),
                      # mean-centred / contrast volumes: negative and positive values around exact zeros
                      "signed": rng.random() < 0.35})
    return cases


def gen_sessions(rng, quick):
    cases = []
    small = [1, 2, 3, 3, 4, 5, 8]

    def one(n, shape, how):
        return {"kind": "sessions", "shape": shape, "seed": rng.randrange(1 << 30), "n": n, "how": how,
                "thr": rng.choice([0.0, 0.25, 0.5, 0.5, 0.5, 0.75, 1.0, 1.0, 0.125, 0.3, 0.9]),
                "m": rng.choice([0.2, 0.25, 0.125]), "M": rng.choice([0.9, 0.875, 0.75]),
                "excl": rng.random() < 0.2, "cc": rng.random() < 0.3, "mean": rng.random() < 0.4,
                "opening": rng.choice([0, 0, 0, 1])}

    for _ in range(40 if quick else 1500):
        cases.append(one(rng.choice(small), [rng.choice([3, 4, 5]) for _ in range(3)],
                         rng.choice(["images", "images", "images4d", "mixed"])))
    for n in (BIGK if quick else BIGK * 4):
        cases.append(one(n, [2, 2, 3], "images"))
    for _ in range(6 if quick else 120):
        cases.append(one(rng.choice([1, 2, 3]), [rng.choice([3, 4]) for _ in range(3)],
                         rng.choice(["files3d", "files4d", "filesmixed"])))
    return cases


def gen_cmfiles(rng, quick):
    cases = []
    for _ in range(14 if quick else 400):
        cases.append({"kind": "cmfiles", "shape": [rng.choice([3, 4, 5]) for _ in range(3)],
                      "seed": rng.randrange(1 << 30), "T": rng.choice([1, 2, 3, 4]),
                      "how": rng.choice(["4d", "4d", "list", "list", "3d", "2d", "empty"]),
                      "dtype": rng.choice(["int16", "uint8", "float32", "float64", "int16"]),
                      "m": rng.choice([0.2, 0.25]), "M": rng.choice([0.9, 0.875]), "cc": rng.random() < 0.4,
                      "excl": rng.random() < 0.3, "opening": rng.choice([0, 0, 1, 2]),
                      "mean": rng.random() < 0.5, "out": rng.random() < 0.5, "nan": rng.random() < 0.2})
    return cases


def gen_series(rng, quick):
    cases = []
    for _ in range(24 if quick else 600):
        cases.append({"kind": "series", "shape": [rng.choice([2, 3, 4]) for _ in range(3)],
                      "seed": rng.randrange(1 << 30), "T": rng.choice([1, 2, 3, 5]),
                      "mtype": rng.choice(["bool", "uint8", "float64", "int16"]),
                      "dtype": rng.choice(["float32", "float32", "float64"]),
                      "smooth": rng.choice([False, False, False, 2.0, 3.5, 0]),
                      "finite": rng.choice([True, True, False]), "plant": rng.random() < 0.5,
                      "vox": rng.choice([[1.0, 1.0, 1.0], [2.0, 3.0, 4.0], [1.5, 1.5, 5.0]])})
    return cases


# ---------------------------------------------------------------------- helpers
def _layout(a, how):
    if how == "F":
        return np.asfortranarray(a)
    if how == "strided":
        big = np.zeros(tuple(2 * s for s in a.shape), a.dtype)
        big[::2, ::2, ::2] = a
        return big[::2, ::2, ::2]
    return a


def _mask_values(rs, member, mtype, vals):
    """an array of dtype `mtype` that is non-zero exactly where `member` is True"""
    dt = np.dtype(mtype)
    if vals == "01" or dt == bool:
        return member.astype(dt)
    if dt.kind == "f":
        pool = [0.5, 1.5, -2.0, 0.25, 1.0, 3.0, 0.001]
    elif dt.kind == "u":
        pool = [2, 3, 255, 1, 128]
    else:
        pool = [2, 3, -1, 127, 1, -128 if dt.itemsize == 1 else 1000]
    if vals == "mixed":
        pool = pool + [1] * len(pool)
    w = rs.choice(pool, size=member.shape)
    return (member * w).astype(dt)


def _save_nifti(path, data, affine=None, dtype=None):
    from nibabel import Nifti1Image, save
    data = np.asarray(data)
    if dtype is not None:
        data = data.astype(dtype)
    save(Nifti1Image(data, np.eye(4) if affine is None else affine), path)
    return path


def _members(rs, k, shape, big):
    """k boolean masks with per-voxel membership probabilities spread over [0, 1] so that the
    counts straddle the thresholds; always a voxel in every mask and one in about half"""
    nvox = int(np.prod(shape))
    p = rs.choice([0.0, 0.3, 0.5, 0.7, 1.0, 0.9, 0.1], size=nvox)
    p[rs.randint(nvox)] = 1.0
    if nvox > 1:
        q = rs.randint(nvox)
        if p[q] != 1.0 or (p == 1.0).sum() > 1:
            p[q] = 0.5
    mem = rs.rand(k, nvox) < p
    return mem.reshape((k,) + tuple(shape))


# ---------------------------------------------------------------------- intersect
def run_intersect(c):
    from nipy.labs import mask as M
    rs = np.random.RandomState(c["seed"])
    k, shape = c["k"], c["shape"]
    mem = _members(rs, k, shape, k > 64)
    masks = [_layout(_mask_values(rs, mem[i], c["mtype"], c["vals"]), c["layout"]) for i in range(k)]
    thr = c["thr"]
    snap = Snapshot(masks=masks if k <= 400 else masks[:400])
    lines, impl, fail = [], [], None
    tags = ["intersect", "intersect-" + c["mtype"], "intersect-vals-" + c["vals"]]
    if k >= 128:
        tags.append("intersect-k>=128")
    if k >= 256:
        tags.append("intersect-k>=256")
    if k >= 32768:
        tags.append("intersect-k>=2^15")
    tmp = None
    arg = masks
    if c.get("files"):
        tmp = tempfile.mkdtemp(prefix="c19i")
        arg = [_save_nifti(os.path.join(tmp, f"m{i}.nii"), m) for i, m in enumerate(masks)]
        tags.append("intersect-files")
    try:
        # exact per-voxel membership counts (Python integers)
        cnt = [int(x) for x in mem.reshape(k, -1).sum(0, dtype=object)] if k else []
        nvox = len(cnt)
        try:
            g = M.intersect_masks(arg, threshold=thr, cc=False)
            obs = ("bools", np.asarray(g).astype(int).ravel().tolist())
        except Exception as e:
            g = None
            obs = ("text", errname(e))
            if 0 <= thr <= 1:
                fail = f"intersect_masks raised {type(e).__name__}: {e} for threshold {thr} ({k} {c['mtype']} masks)"
            tags.append("intersect-refused")
        mut = snap.changed()
        t = min(thr, CAP)
        exact = Fraction(t) * k == Fraction(t * k) or not (0 <= thr <= 1)
        if exact:
            flat = " ".join(frs(np.asarray(m, dtype=float).ravel().tolist()) for m in masks)
            lines.append(f"intersectb {fr(thr)} {fr(CAP)} {k} {nvox} {flat}")
            impl.append(obs)
            if c["vals"] == "01" and k <= 64:
                lines.append(f"intersect {fr(thr)} {fr(CAP)} {k} {nvox} {flat}")
                impl.append(obs)
        if g is not None and fail is None:
            if g.dtype != bool or g.shape != tuple(shape):
                fail = f"intersect_masks returned dtype {g.dtype} shape {g.shape} for masks of shape {shape}"
        if g is not None and fail is None:
            # threshold semantics for every threshold that separates two counts (and the ends)
            ts = {0.0, 1.0, thr if 0 <= thr <= 1 else 0.5}
            for cv in sorted(set(cnt)):
                for d in (-0.5, 0.5):
                    x = (cv + d) / k
                    if 0 <= x <= 1:
                        ts.add(x)
            ts = sorted(ts)
            if len(ts) > 9:
                ts = sorted(set([0.0, 1.0, thr if 0 <= thr <= 1 else 0.5] + [ts[i] for i in
                                                                           rs.choice(len(ts), 6, replace=False)]))
            for tv in ts:
                gv = g if tv == thr else M.intersect_masks(arg, threshold=tv, cc=False)
                gv = np.asarray(gv).ravel()
                bound = Fraction(min(tv, CAP)) * k
                for v in range(nvox):
                    if abs(cnt[v] - bound) < Fraction(1, 1000) and tv not in (0.0, 1.0):
                        continue   # the float product threshold*n may round either way
                    want = cnt[v] > bound
                    if bool(gv[v]) != want:
                        what = ("the union" if tv == 0.0 else "the intersection" if tv == 1.0 else
                                f"'in more than threshold*n = {float(bound):g} masks'")
                        fail = (f"intersect_masks(threshold={tv:g}) of {k} {c['mtype']} masks is not {what}: "
                                f"voxel {v} is in {cnt[v]} of {k} masks and is "
                                f"{'kept' if gv[v] else 'dropped'}")
                        break
                if fail:
                    break
        if g is not None and fail is None and k >= 2 and 0 <= thr <= 1:
            # a collection has no order
            perm = rs.permutation(k)
            g3 = M.intersect_masks([arg[i] for i in perm], threshold=thr, cc=False)
            if not np.array_equal(g3, g):
                fail = f"intersect_masks(threshold={thr}) depends on the order of the {k} {c['mtype']} masks"
        if g is not None and fail is None and 0 <= thr <= 1 and nvox <= 200:
            kw = {}
            if tmp is not None:
                kw["output_filename"] = os.path.join(tmp, "out.nii")
            g2 = M.intersect_masks(arg, threshold=thr, cc=True, **kw)
            if not is_largest_component_of(g2, g):
                fail = "intersect_masks(cc=True) is not a largest connected component of the cc=False result"
            elif tmp is not None:
                from nibabel import load
                sv = np.asarray(load(kw["output_filename"]).dataobj)
                if sv.shape != g2.shape or not np.array_equal(sv != 0, g2):
                    fail = "intersect_masks(output_filename=…) saved a different mask than it returned"
    finally:
        if tmp is not None:
            shutil.rmtree(tmp, ignore_errors=True)
    return {"lines": lines, "impl": impl, "oracle": fail, "nontrivial": k >= 2, "tags": tags, "mutated": mut}


# ---------------------------------------------------------------------- connected components
def _cc_mask(c):
    rs = np.random.RandomState(c["seed"])
    shape = c["shape"]
    if c["pattern"] == "comb":
        # isolated voxels along a line (one component each) and one two-voxel component late in
        # label order: the largest component has a label beyond 255 / 32767
        m = np.zeros(shape, bool)
        m[0, 0, ::2] = True
        n = m[0, 0].sum()
        j = 2 * int(n - 1 - rs.randint(0, max(1, n // 8)))
        m[0, 1, j] = True
    else:
        m = rs.rand(*shape) < c["dens"]
    mt = c["mtype"]
    if mt == "int":
        m = m.astype(np.int16) * rs.randint(1, 4, size=shape)
    elif mt == "float":
        m = m * (np.round(rs.randn(*shape) * 4) / 4 + 3)
    elif mt == "float32":
        m = (m * (np.round(rs.randn(*shape) * 4) / 4 + 3)).astype(np.float32)
    elif mt == "uint8":
        m = m.astype(np.uint8) * rs.choice([1, 2, 255], size=shape).astype(np.uint8)
    elif mt == "int8neg":
        m = m.astype(np.int8) * rs.choice([1, -1, -128, 127], size=shape).astype(np.int8)
    return _layout(m, c.get("layout", "C"))


def run_cc(c):
    from scipy import ndimage
    from nipy.labs import mask as M
    m = _cc_mask(c)
    snap = Snapshot(m=m)
    labels, nb = ndimage.label(m)
    lines, impl, fail = [], [], None
    tags = ["cc", f"cc-nb{min(nb, 3)}", "cc-" + c["mtype"]]
    if nb > 255:
        tags.append("cc-nb>255")
    if nb > 32767:
        tags.append("cc-nb>32767")
    flat = frs(np.asarray(m, dtype=float).ravel().tolist())
    ltxt = " ".join(str(int(x)) for x in labels.ravel())
    N = m.size
    lines.append(f"largestcc {nb} {N} {flat} {N} {ltxt}")
    mylab, mynb = flood_components(m)
    try:
        g = M.largest_cc(m)
        impl.append(("bools", np.asarray(g).astype(int).ravel().tolist()))
        if mynb == 0:
            fail = "largest_cc returned a mask for an empty input (documented ValueError)"
        else:
            sizes = np.bincount(mylab.ravel())[1:]
            _, gnb = flood_components(g)
            if g.dtype != bool or g.shape != m.shape or gnb != 1 or int(g.sum()) != int(sizes.max()) \
                    or (g & ~(np.asarray(m) != 0)).any():
                fail = (f"largest_cc result is not a single largest connected component "
                        f"({mynb} components in the mask; result has {gnb} components, {int(g.sum())} voxels; "
                        f"largest has {int(sizes.max())})")
    except Exception as e:
        impl.append(("text", errname(e)))
        if mynb != 0 or not isinstance(e, ValueError):
            fail = f"largest_cc raised {type(e).__name__}: {e}"
    thr = c["thr"]
    lines.append(f"threshcc {nb} {fr(thr)} {N} {flat} {N} {ltxt}")
    mm = m.copy()
    out = M.threshold_connect_components(mm, thr)
    impl.append(("rats", np.asarray(out, dtype=float).ravel().tolist(), 0))
    if fail is None:
        sizes = np.bincount(mylab.ravel())
        want = np.where((mylab > 0) & (sizes[mylab] >= thr), m, 0)
        if not np.array_equal(np.asarray(out), want):
            fail = (f"threshold_connect_components(threshold={thr}) does not keep exactly the components "
                    f"of at least that many voxels")
        elif not np.array_equal(mm, m):
            fail = "threshold_connect_components(copy=True) modified its input"
        else:
            m2 = m.copy()
            out2 = M.threshold_connect_components(m2, thr, copy=False)
            if not np.array_equal(out2, want) or not np.array_equal(m2, want):
                fail = "threshold_connect_components(copy=False) does not write the result into its input"
    if fail is None and mynb > 0:
        # the same components on a floating-point map whose non-zero voxels carry non-finite / extreme values
        # (statistical maps do: +-inf z-scores, NaN outside the brain): what is removed must be 0, the rest untouched
        rs = np.random.RandomState(c["seed"] + 17)
        pool = np.array([np.inf, -np.inf, np.nan, 1e308, -1e308, 5e-324, -2.5, 1.0])
        nz = np.asarray(m) != 0
        mf = np.zeros(m.shape, dtype=float)
        mf[nz] = pool[rs.randint(0, len(pool), size=int(nz.sum()))]
        sizes = np.bincount(mylab.ravel())
        wantf = np.where((mylab > 0) & (sizes[mylab] >= thr), mf, 0.0)
        tags.append("cc-nonfinite")
        for cp in (True, False):
            mf2 = mf.copy()
            try:
                outf = M.threshold_connect_components(mf2, thr, copy=cp)
            except Exception as e:
                fail = f"threshold_connect_components raised {type(e).__name__}: {e} on a map with non-finite values"
                break
            if not np.array_equal(np.asarray(outf), wantf, equal_nan=True):
                bad = np.argwhere(~((np.asarray(outf) == wantf) | (np.isnan(outf) & np.isnan(wantf))))[0].tolist()
                fail = (f"threshold_connect_components(threshold={thr}, copy={cp}) on a map with non-finite values: "
                        f"voxel {bad} is {np.asarray(outf)[tuple(bad)]!r}, expected {wantf[tuple(bad)]!r} "
                        f"(components below the threshold are set to 0, the others kept as they are)")
                break
            if cp and not np.array_equal(mf2, mf, equal_nan=True):
                fail = "threshold_connect_components(copy=True) modified its non-finite input"
                break
    return {"lines": lines, "impl": impl, "oracle": fail, "nontrivial": mynb >= 2, "tags": tags,
            "mutated": snap.changed()}


# ---------------------------------------------------------------------- compute_mask
def _volume(rs, shape, ties, excl, dtype="float64", shift=None, signed=False):
    """a volume with a bright block: background 0..39, block +64 (distinct values unless ties); `signed`
    (floating-point volumes only) centres the values so that negative and positive ones surround the zeros"""
    v = rs.randint(0, 40, size=shape).astype(float)
    if not ties:
        v = v + np.arange(v.size).reshape(shape) / 1024.0
    lo = [s // 4 for s in shape] if shift is None else shift
    v[lo[0]:lo[0] + shape[0] // 2 + 1, lo[1]:lo[1] + shape[1] // 2 + 1, lo[2]:lo[2] + shape[2] // 2 + 1] += 64
    if signed and np.dtype(dtype).kind == "f":
        v = v - 30.25
    if excl:
        v[rs.rand(*shape) < 0.2] = 0
    dt = np.dtype(dtype)
    if dt.kind in "iu":
        # integer volumes in the upper half of the type's range: every value fits, sums of two do not
        scale, off = INTSCALE[dt.name]
        zero = v == 0
        v = np.floor(v) * scale + off
        if excl:
            v[zero] = 0
    return v.astype(dt)


def run_cmask(c):
    from nipy.labs import mask as M
    rs = np.random.RandomState(c["seed"])
    shape = c["shape"]
    dtype = c.get("dtype", "float64")
    v = _volume(rs, shape, c["ties"], c["excl"], dtype, signed=c.get("signed", False))
    ref = None
    if c["ref"]:
        ref = rs.randint(0, 100, size=shape)
        if np.dtype(dtype).kind in "iu":
            ref = ref * INTSCALE[dtype][0] + INTSCALE[dtype][1]
        ref = ref.astype(dtype)
    m_, M_ = c["m"], c["M"]
    snap = Snapshot(v=v, ref=ref if ref is not None else 0)
    lines, impl, fail = [], [], None
    tags = ["cmask", "cmask-" + dtype]
    nlen = int((v != 0).sum()) if c["excl"] else v.size
    exact = (math.floor(m_ * nlen) == math.floor(Fraction(m_) * nlen)
             and math.floor(M_ * nlen) == math.floor(Fraction(M_) * nlen))
    try:
        g = M.compute_mask(v, ref, m_, M_, cc=False, opening=0, exclude_zeros=c["excl"])
        obs = ("cmask", np.asarray(g).astype(int).ravel().tolist())
    except Exception as e:
        g = None
        obs = ("text", errname(e))
        tags.append("cmask-refused")
        if m_ < M_ and math.floor(m_ * nlen) < math.floor(M_ * nlen) < nlen:
            fail = f"compute_mask raised {type(e).__name__}: {e} (m={m_}, M={M_}, {nlen} values)"
    vf = v.astype(float)
    rf = vf if ref is None else ref.astype(float)
    if exact:
        lines.append(f"computemask {fr(m_)} {fr(M_)} {int(c['excl'])} {v.size} {frs(vf.ravel().tolist())} "
                     f"{rf.size} {frs(rf.ravel().tolist())}")
        impl.append(obs)
    if g is not None and fail is None:
        # threshold semantics: the mask is the reference thresholded at the middle of the widest gap of
        # the sorted intensities between the m and M fractions (first such gap)
        s = np.sort(vf.ravel())
        if c["excl"]:
            s = s[s != 0]
        i0, i1 = math.floor(Fraction(m_) * s.size), math.floor(Fraction(M_) * s.size)
        d = s[i0 + 1:i1 + 1] - s[i0:i1]
        if d.size and exact:
            t = 0.5 * (s[i0 + int(np.argmax(d))] + s[i0 + int(np.argmax(d)) + 1])
            if g.dtype != bool or g.shape != v.shape:
                fail = f"compute_mask returned dtype {g.dtype} shape {g.shape}"
            elif not np.array_equal(g, rf >= t):
                fail = (f"compute_mask(cc=False, opening=0) on a {dtype} volume is not the reference thresholded "
                        f"at the widest histogram gap (threshold {t:g}: {int((rf >= t).sum())} voxels, "
                        f"returned {int(g.sum())})")
            else:
                tags.append("cmask-threshold-spec")
    if g is not None and fail is None and (not c["excl"] or c["b"] == 0.0):
        a, b = c["a"], (0.0 if c["excl"] else c["b"])
        for cc_, op in ((False, 0), (True, 0), (True, 1), (False, 2)):
            try:
                g1 = M.compute_mask(v, ref, m_, M_, cc=cc_, opening=op, exclude_zeros=c["excl"])
                g2 = M.compute_mask(a * vf + b, None if ref is None else a * rf + b, m_, M_, cc=cc_, opening=op,
                                    exclude_zeros=c["excl"])
            except ValueError:
                continue   # no component left: refused for both
            if not np.array_equal(g1, g2):
                fail = fail or (f"compute_mask(cc={cc_}, opening={op}, exclude_zeros={c['excl']}) of a {dtype} "
                                f"volume changes under the positive affine intensity map x -> {a}*x + {b}")
            if cc_ and op == 0 and fail is None and not is_largest_component_of(g1, g):
                fail = "compute_mask(cc=True, opening=0) is not a largest connected component of the cc=False mask"
        tags.append("cmask-affine")
    return {"lines": lines, "impl": impl, "oracle": fail, "nontrivial": True, "tags": tags,
            "mutated": snap.changed()}


# ---------------------------------------------------------------------- sessions
def _session_volumes(c):
    rs = np.random.RandomState(c["seed"])
    shape = c["shape"]
    vols = []
    for s in range(c["n"]):
        shift = [rs.randint(0, max(1, sh // 2)) for sh in shape]
        vols.append(_volume(rs, shape, False, c["excl"], "float64", shift))
    return vols, rs


def run_sessions(c):
    from nipy.core.api import AffineTransform, Image
    from nipy.labs import mask as M
    vols, rs = _session_volumes(c)
    n, shape, how = c["n"], c["shape"], c["how"]
    snap = Snapshot(vols=vols[:64])
    cm3 = AffineTransform.from_params("ijk", "xyz", np.eye(4))
    cm4 = AffineTransform.from_params("ijkt", "xyzt", np.eye(5))
    tmp = None
    sessions, means = [], []
    tags = ["sessions", "sessions-" + how]
    if n >= 128:
        tags.append("sessions-n>=128")
    if n >= 256:
        tags.append("sessions-n>=256")
    try:
        if how.startswith("files"):
            tmp = tempfile.mkdtemp(prefix="c19s")
        for s, v in enumerate(vols):
            kind = how
            if how == "mixed":
                kind = ["images", "images4d"][s % 2]
            if how == "filesmixed":
                kind = ["files3d", "files4d"][s % 2]
            if kind == "images":
                sessions.append(Image(v, cm3)); means.append(v)
            else:
                T = 1 + (s + c["seed"]) % 3
                d4 = np.stack([v + (t - (T - 1) / 2.0) * ((np.arange(v.size).reshape(shape) % 3) - 1)
                               for t in range(T)], axis=-1)
                if kind == "images4d":
                    sessions.append(Image(d4, cm4)); means.append(d4.mean(-1))
                elif kind == "files4d":
                    sessions.append(_save_nifti(os.path.join(tmp, f"s{s}.nii"), d4, dtype=np.float64))
                    means.append(d4.mean(-1))
                else:
                    sessions.append([_save_nifti(os.path.join(tmp, f"s{s}_{t}.nii"), d4[..., t], dtype=np.float64)
                                     for t in range(T)])
                    means.append((d4.astype(np.float32).sum(-1) / float(T)) if T > 1 else d4[..., 0])
        thr, m_, M_ = c["thr"], c["m"], c["M"]
        lines, impl, fail = [], [], None
        kw = dict(m=m_, M=M_, exclude_zeros=c["excl"])
        try:
            r = M.compute_mask_sessions(sessions, cc=0, threshold=thr, opening=0, return_mean=c["mean"], **kw)
            g, mean = r if c["mean"] else (r, None)
            obs = ("bools", np.asarray(g).astype(int).ravel().tolist())
        except Exception as e:
            g = None
            obs = ("text", errname(e))
            fail = (f"compute_mask_sessions raised {type(e).__name__}: {e} ({n} sessions, threshold {thr}, "
                    f"m={m_}, M={M_})")
        if g is not None:
            per = []
            for s, mv in enumerate(means):
                ref = None
                if isinstance(sessions[s], (str, list)):
                    # compute_mask_files thresholds the first volume with the histogram of the mean
                    from nibabel import load
                    f0 = sessions[s] if isinstance(sessions[s], str) else sessions[s][0]
                    d0 = load(f0).get_fdata()
                    ref = d0[..., 0] if d0.ndim == 4 else d0
                per.append(M.compute_mask(mv, ref, cc=0, opening=0, **kw))
            cnt = [sum(int(p.ravel()[v]) for p in per) for v in range(int(np.prod(shape)))]
            bound = Fraction(min(thr, CAP)) * n
            gv = np.asarray(g).ravel()
            if g.dtype != bool or g.shape != tuple(shape):
                fail = f"compute_mask_sessions returned dtype {g.dtype} shape {g.shape}"
            for v in range(len(cnt)):
                if fail:
                    break
                if abs(cnt[v] - bound) < Fraction(1, 1000) and thr not in (0.0, 1.0):
                    continue
                if bool(gv[v]) != (cnt[v] > bound):
                    what = ("the union" if thr == 0.0 else "the intersection" if thr == 1.0 else
                            f"'in more than threshold*n = {float(bound):g} of the session masks'")
                    fail = (f"compute_mask_sessions(threshold={thr:g}) over {n} sessions is not {what}: voxel {v} "
                            f"is in {cnt[v]} of {n} session masks and is {'kept' if gv[v] else 'dropped'}")
            if fail is None and c["mean"]:
                want = sum(np.asarray(x, dtype=float) for x in means) / n
                if mean is None or np.shape(mean) != want.shape or not np.allclose(mean, want, rtol=1e-5, atol=1e-4):
                    fail = "compute_mask_sessions(return_mean=True) mean is not the average of the session means"
            if fail is None and how == "images":
                exact = Fraction(min(thr, CAP)) * n == Fraction(min(thr, CAP) * n)
                nl = [int((x != 0).sum()) if c["excl"] else x.size for x in means]
                exact = exact and all(math.floor(f * k_) == math.floor(Fraction(f) * k_) for k_ in set(nl)
                                      for f in (m_, M_))
                if exact:
                    N = int(np.prod(shape))
                    lines.append(f"sessions {fr(m_)} {fr(M_)} {int(c['excl'])} {fr(thr)} {fr(CAP)} {n} {N} "
                                 + " ".join(frs(x.ravel().tolist()) for x in means))
                    impl.append(obs)
            if fail is None and (c["cc"] or c["opening"]):
                try:
                    g2 = M.compute_mask_sessions(sessions, cc=c["cc"], threshold=thr, opening=c["opening"], **kw)
                except ValueError:
                    g2 = None   # a session without any component left
                if g2 is not None:
                    per2 = []
                    for s, mv in enumerate(means):
                        ref = None
                        if isinstance(sessions[s], (str, list)):
                            from nibabel import load
                            f0 = sessions[s] if isinstance(sessions[s], str) else sessions[s][0]
                            d0 = load(f0).get_fdata()
                            ref = d0[..., 0] if d0.ndim == 4 else d0
                        per2.append(M.compute_mask(mv, ref, cc=c["cc"], opening=c["opening"], **kw))
                    c2 = sum(p.astype(object) for p in per2)
                    base = np.array([x > bound for x in c2.ravel()]).reshape(shape)
                    ok = is_largest_component_of(g2, base) if c["cc"] else np.array_equal(g2, base)
                    borderline = any(abs(x - bound) < Fraction(1, 1000) for x in c2.ravel()) and thr not in (0.0, 1.0)
                    if not ok and not borderline:
                        fail = (f"compute_mask_sessions(cc={c['cc']}, opening={c['opening']}, threshold={thr}) is "
                                f"not the {'largest component of the ' if c['cc'] else ''}threshold-level "
                                f"intersection of the session masks")
    finally:
        if tmp is not None:
            shutil.rmtree(tmp, ignore_errors=True)
    return {"lines": lines, "impl": impl, "oracle": fail, "nontrivial": n >= 2, "tags": tags,
            "mutated": snap.changed()}


# ---------------------------------------------------------------------- compute_mask_files
def run_cmfiles(c):
    from nibabel import load
    from nipy.labs import mask as M
    rs = np.random.RandomState(c["seed"])
    shape, T, how, dtype = c["shape"], c["T"], c["how"], c["dtype"]
    base = _volume(rs, shape, False, c["excl"], "float64")
    d4 = np.stack([np.floor(base) + rs.randint(0, 3, size=shape) for _ in range(T)], axis=-1)
    if np.dtype(dtype).kind in "iu":
        sc, off = {"uint8": (1, 140), "int16": (100, 20000)}[dtype]
        d4 = np.where(d4 == 0, 0, d4 * sc + off) if c["excl"] else d4 * sc + off
    d4 = d4.astype(dtype)
    if c["nan"] and np.dtype(dtype).kind == "f" and how in ("4d", "list"):
        d4[0, 0, 0, -1] = np.nan
    aff = np.diag([2.0, 3.0, 4.0, 1.0])
    tmp = tempfile.mkdtemp(prefix="c19f")
    tags = ["cmfiles", "cmfiles-" + how, "cmfiles-" + dtype]
    fail = None
    lines, impl = [], []
    try:
        if how == "4d":
            arg = _save_nifti(os.path.join(tmp, "f4.nii"), d4, aff)
            mean, first = d4.mean(-1), d4[..., 0]
        elif how == "3d":
            arg = _save_nifti(os.path.join(tmp, "f3.nii"), d4[..., 0], aff)
            mean = first = d4[..., 0]
        elif how == "2d":
            arg = _save_nifti(os.path.join(tmp, "f2.nii"), d4[:, :, 0, 0], aff)
            mean = first = None
        elif how == "empty":
            arg = []
            mean = first = None
        else:
            arg = [_save_nifti(os.path.join(tmp, f"v{t}.nii"), d4[..., t], aff) for t in range(T)]
            first = d4[..., 0].astype(float)
            acc = first.copy().astype(np.float32)
            for t in range(1, T):
                acc += d4[..., t].astype(float)
            mean = acc / float(T)
        out = os.path.join(tmp, "mask_out.nii") if c["out"] else None
        kw = dict(m=c["m"], M=c["M"], cc=c["cc"], exclude_zeros=c["excl"], opening=c["opening"])
        try:
            r = M.compute_mask_files(arg, out, return_mean=c["mean"], **kw)
        except Exception as e:
            r = None
            if mean is None:
                if not isinstance(e, ValueError):
                    fail = f"compute_mask_files raised {type(e).__name__} for a {how} input (documented ValueError)"
                tags.append("cmfiles-refused")
            else:
                err = e
        if mean is None:
            if r is not None:
                fail = f"compute_mask_files accepted a {how} input"
        else:
            mean_c = np.where(np.isnan(mean), 0, mean) if np.asarray(mean).dtype.kind == "f" else mean
            try:
                want = M.compute_mask(mean_c, first, **{k_: v for k_, v in kw.items()})
            except Exception as e2:
                want = None
                if r is not None:
                    fail = "compute_mask_files returned a mask where compute_mask on the same volumes refuses"
            if want is not None and r is None:
                fail = f"compute_mask_files raised {type(err).__name__}: {err} ({how}, {dtype}, T={T})"
            elif want is not None:
                g, gm = r if c["mean"] else (r, None)
                if g.dtype != bool or not np.array_equal(g, want):
                    fail = (f"compute_mask_files({how}, {dtype}) is not compute_mask of the mean volume and the "
                            f"first volume ({int(g.sum())} vs {int(want.sum())} voxels)")
                elif c["mean"] and not np.allclose(np.asarray(gm, dtype=float), np.asarray(mean_c, dtype=float),
                                                   rtol=1e-6, atol=1e-4):
                    fail = "compute_mask_files(return_mean=True) does not return the mean volume"
                elif out is not None:
                    sv = load(out)
                    if not np.array_equal(np.asarray(sv.dataobj) != 0, g) or not np.allclose(sv.affine, aff):
                        fail = "compute_mask_files(output_filename=…) saved a different mask / affine"
                # the same threshold semantics on the file contents: model line without cc / opening
                if fail is None:
                    mf = np.asarray(mean_c, dtype=float); ff = np.asarray(first, dtype=float)
                    s = np.sort(mf.ravel())
                    nlen = int((s != 0).sum()) if c["excl"] else s.size
                    if all(math.floor(f * nlen) == math.floor(Fraction(f) * nlen) for f in (c["m"], c["M"])):
                        try:
                            g0 = M.compute_mask_files(arg, None, False, c["m"], c["M"], 0, c["excl"], 0)
                            lines.append(f"computemask {fr(c['m'])} {fr(c['M'])} {int(c['excl'])} {mf.size} "
                                         f"{frs(mf.ravel().tolist())} {ff.size} {frs(ff.ravel().tolist())}")
                            impl.append(("cmask", np.asarray(g0).astype(int).ravel().tolist()))
                        except Exception:
                            pass
    finally:
        shutil.rmtree(tmp, ignore_errors=True)
    return {"lines": lines, "impl": impl, "oracle": fail, "nontrivial": mean is not None, "tags": tags,
            "mutated": None}


# ---------------------------------------------------------------------- series_from_mask
def run_series(c):
    from scipy import ndimage
    from nipy.labs import mask as M
    rs = np.random.RandomState(c["seed"])
    shape, T = c["shape"], c["T"]
    d4 = (np.round(rs.randn(*shape, T) * 8) / 8 + 10).astype(np.float32)
    planted = False
    if c["plant"]:
        for val in (np.nan, np.inf, -np.inf):
            idx = tuple(rs.randint(0, s) for s in d4.shape)
            d4[idx] = val
            planted = True
    member = rs.rand(*shape) < 0.5
    member.flat[rs.randint(member.size)] = True
    mask = _mask_values(rs, member, c["mtype"], "other" if c["mtype"] != "bool" else "01")
    aff = np.diag(c["vox"] + [1.0])
    tmp = tempfile.mkdtemp(prefix="c19t")
    tags = ["series", "series-smooth" if c["smooth"] is not False else "series-plain",
            "series-finite" if c["finite"] else "series-raw"]
    fail, lines, impl = None, [], []
    snap = Snapshot(mask=mask)
    try:
        f4 = _save_nifti(os.path.join(tmp, "series4d.nii"), d4, aff)
        f3 = [_save_nifti(os.path.join(tmp, f"vol{t}.nii"), d4[..., t], aff) for t in range(T)]
        dt = np.dtype(c["dtype"])
        smooth = c["smooth"]
        res = {}
        for name, arg in (("4d", f4), ("list", f3)):
            try:
                s, hdr = M.series_from_mask(arg, mask, dtype=dt, smooth=smooth, ensure_finite=c["finite"])
                res[name] = np.asarray(s)
            except Exception as e:
                fail = fail or f"series_from_mask({name} file input) raised {type(e).__name__}: {e}"
        if fail is None:
            clean = d4.astype(np.float64)
            if c["finite"]:
                clean[~np.isfinite(clean)] = 0
            clean = clean.astype(dt)
            nv = int(member.sum())
            if smooth is not False and smooth != 0:
                sig = (smooth / np.sqrt(8 * np.log(2))) / np.asarray(c["vox"])
                sm = np.stack([ndimage.gaussian_filter(clean[..., t], sig) for t in range(T)], axis=-1)
            else:
                sm = clean
            want = sm[member]
            for name, s in res.items():
                if s.shape != (nv, T):
                    fail = f"series_from_mask({name}) returned shape {s.shape}, expected ({nv}, {T})"
                elif s.dtype != dt:
                    fail = f"series_from_mask({name}, dtype={dt}) returned dtype {s.dtype}"
                elif not np.allclose(s, want, rtol=1e-5, atol=1e-5, equal_nan=True):
                    what = "the smoothed volumes" if smooth else "the volumes"
                    fail = (f"series_from_mask({name} file input, smooth={smooth}, ensure_finite={c['finite']}, "
                            f"{c['mtype']} mask) is not {what} extracted at the mask voxels")
                if fail:
                    break
            if fail is None and not (planted and not c["finite"] and smooth):
                if not np.allclose(res["4d"], res["list"], rtol=1e-5, atol=1e-5, equal_nan=True):
                    fail = "series_from_mask: a 4D file and the list of its 3D volumes give different series"
            if fail is None and (smooth is False or smooth == 0) and not (planted and not c["finite"]):
                N = int(np.prod(shape))
                lines.append(f"series {T} {N} {frs(np.asarray(mask, dtype=float).ravel().tolist())} "
                             + frs(clean.astype(float).reshape(N, T).ravel().tolist()))
                impl.append(("rats", res["list"].astype(float).ravel().tolist(), 0))
    finally:
        shutil.rmtree(tmp, ignore_errors=True)
    return {"lines": lines, "impl": impl, "oracle": fail, "nontrivial": T >= 2, "tags": tags,
            "mutated": snap.changed()}


# ---------------------------------------------------------------------- shrinking / classification
def shrink(case):
    k = case.get("kind")
    if k == "intersect":
        kk = case["k"]
        for nk in (128, 129, 256, 257, kk // 2, kk - 1):
            if 1 <= nk < kk:
                c = dict(case); c["k"] = nk
                yield c
        if case["layout"] != "C":
            c = dict(case); c["layout"] = "C"
            yield c
        if case.get("files"):
            c = dict(case); c["files"] = False
            yield c
        if case["mtype"] != "bool":
            c = dict(case); c["mtype"] = "bool"; c["vals"] = "01"
            yield c
        if case["vals"] != "01":
            c = dict(case); c["vals"] = "01"
            yield c
    if k == "sessions":
        n = case["n"]
        for nn in (128, n // 2, n - 1):
            if 1 <= nn < n:
                c = dict(case); c["n"] = nn
                yield c
        for key, val in (("cc", False), ("mean", False), ("opening", 0), ("excl", False), ("how", "images")):
            if case[key] != val and not case["how"].startswith("files"):
                c = dict(case); c[key] = val
                yield c
    if k == "cmask":
        for key, val in (("ref", False), ("excl", False), ("ties", False)):
            if case[key] != val:
                c = dict(case); c[key] = val
                yield c
    if k in ("cmfiles", "series"):
        if case["T"] > 1:
            c = dict(case); c["T"] = case["T"] - 1
            yield c
    if k == "cmfiles":
        for key, val in (("cc", False), ("opening", 0), ("mean", False), ("out", False), ("excl", False)):
            if case[key] != val:
                c = dict(case); c[key] = val
                yield c
    if k == "series":
        for key, val in (("plant", False), ("mtype", "bool")):
            if case[key] != val:
                c = dict(case); c[key] = val
                yield c
