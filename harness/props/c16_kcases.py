"""C16 helper — cases of kind `kern`: the *static* helpers of cubic_spline.c (`_mirrored_position`,
`_apply_boundary_conditions`, `_mirror_grid_neighbors`) and `prng_double` of wichmann_prng.c, observed on the C
re-compiled from the tree and answered by the driver with the expressions regenerated from the same text
(`Gen/C16Kern.lean`, line kinds `kmirror kbound kneigh kprng`).  The statics are reached by compiling a shim that
`#include`s cubic_spline.c and exports one-line wrappers (nothing of the file is copied or edited).
"""
from __future__ import annotations

import ctypes as C
import hashlib
import math
import os
import subprocess
import sysconfig
from fractions import Fraction

import numpy as np

from harness.util import fr, frs, plist

REPO = os.environ.get("NIPY_VERIF_REPO", "/repo")
VERIF = os.path.dirname(os.path.dirname(os.path.dirname(os.path.abspath(__file__))))
BUILD = os.path.join(VERIF, ".build")
REG = "nipy/algorithms/registration"

SHIM = r'''
#include "_registration.h"
#include <Python.h>
#include <numpy/arrayobject.h>
int verif_import_array(void) { return _import_array(); }
#include "cubic_spline.c"
int k_mirror(int x, unsigned int ddim) { return _mirrored_position(x, ddim); }
int k_bound(int mode, unsigned int ddim, double* x, double* w) { return _apply_boundary_conditions(mode, ddim, x, w); }
int k_neigh(double x, unsigned int ddim, int* nx, int* px) { return _mirror_grid_neighbors(x, ddim, nx, px); }
'''


class PS(C.Structure):
    _fields_ = [("ix", C.c_int), ("iy", C.c_int), ("iz", C.c_int), ("it", C.c_int)]


_LIB = None
MODS = (2147483579, 2147483543, 2147483423, 2147483123)
MULT = (11600, 47003, 23000, 33000)


def build():
    d = os.path.join(REPO, REG)
    h = hashlib.sha1()
    for f in ("cubic_spline.c", "cubic_spline.h", "_registration.h"):
        h.update(open(os.path.join(d, f), "rb").read())
    h.update(SHIM.encode())
    os.makedirs(BUILD, exist_ok=True)
    so = os.path.join(BUILD, f"c16kstat-{h.hexdigest()[:16]}.so")
    if not os.path.exists(so):
        shim = os.path.join(BUILD, f"c16kstat-shim-{os.getpid()}.c")
        with open(shim, "w") as f:
            f.write(SHIM)
        tmp = f"{so}.{os.getpid()}.tmp"
        cmd = ["gcc", "-O1", "-g", "-fPIC", "-shared", "-w", "-DNPY_NO_DEPRECATED_API=0", f"-I{d}",
               f"-I{np.get_include()}", f"-I{sysconfig.get_paths()['include']}", shim, "-lm", "-o", tmp]
        p = subprocess.run(cmd, capture_output=True, text=True)
        try:
            os.remove(shim)
        except OSError:
            pass
        if p.returncode != 0:
            raise RuntimeError("C build of the cubic_spline.c statics shim failed:\n" + p.stderr[-3000:])
        os.replace(tmp, so)
    return so


def lib():
    global _LIB
    if _LIB is None:
        L = C.PyDLL(build())
        L.k_mirror.restype = C.c_int; L.k_mirror.argtypes = [C.c_int, C.c_uint]
        L.k_bound.restype = C.c_int
        L.k_bound.argtypes = [C.c_int, C.c_uint, C.POINTER(C.c_double), C.POINTER(C.c_double)]
        L.k_neigh.restype = C.c_int
        L.k_neigh.argtypes = [C.c_double, C.c_uint, C.POINTER(C.c_int), C.POINTER(C.c_int)]
        from harness import cshim
        R = cshim.load("registration")
        R.prng_seed.restype = None; R.prng_seed.argtypes = [C.c_int, C.POINTER(PS)]
        R.prng_double.restype = C.c_double; R.prng_double.argtypes = [C.POINTER(PS)]
        _LIB = (L, R)
    return _LIB


def gen(rng, n):
    return [{"kind": "kern", "seed": rng.randrange(1 << 30), "ddim": rng.choice([0, 0, 1, 1, 2, 3, 4, 7, 12, 100]),
             "steps": rng.choice([1, 2, 5, 30]), "seeded": rng.random() < 0.5} for _ in range(n)]


def _mirror_def(x, ddim):
    """whole-sample symmetric extension: the point of [0, ddim] that x reflects to"""
    if ddim == 0:
        return 0
    y = x % (2 * ddim)
    return 2 * ddim - y if y > ddim else y


def run(check, c):
    L, R = lib()
    rs = np.random.RandomState(c["seed"])
    dd = int(c["ddim"])
    lines, impl, fails = [], [], []
    tags = ["kern", f"ddim={dd}" if dd < 5 else "ddim>=5"]
    # ---- _mirrored_position: around the grid, several periods away, far away ----
    xs = [int(t) for t in rs.randint(-3 * dd - 6, 3 * dd + 7, size=12)] + [0, dd, -dd, 2 * dd, -2 * dd, dd + 1, -1,
          2 * dd + 1, -2 * dd - 1] + [int(t) for t in rs.randint(-10 ** 9, 10 ** 9, size=3)]
    got = [int(L.k_mirror(x, dd)) for x in xs]
    for x, g in zip(xs, got):
        if not (0 <= g <= dd) or g != _mirror_def(x, dd):
            fails.append(f"_mirrored_position({x}, ddim={dd}) = {g}: the mirror (whole-sample symmetric) image of {x} "
                         f"in [0, {dd}] is {_mirror_def(x, dd)}")
            break
    lines.append(f"kmirror {dd} {plist(xs)}"); impl.append(("nats", got))
    # ---- coordinates: dyadic, on and around every threshold of the three modes ----
    edge = [-1.0, 0.0, float(dd), float(dd + 1), float(-dd), float(2 * dd), -1.25, -0.5, dd + 0.5, dd + 1.25,
            -dd - 0.25, 2 * dd + 0.25, -dd + 0.5, 2 * dd - 0.5]
    pts = [float(t) for t in np.round(rs.uniform(-dd - 3, 2 * dd + 3, 6) * 8) / 8] + \
          [edge[i] for i in rs.choice(len(edge), 5, replace=False)] + [float(rs.choice([1e9, -1e9, 1e300, -1e300, 3.0e9]))]
    for x in pts:
        for mode in (0, 1, 2):
            cx, cw = C.c_double(x), C.c_double(1.0)
            ok = L.k_bound(mode, dd, C.byref(cx), C.byref(cw))
            lines.append(f"kbound {mode} {dd} {fr(x)}")
            impl.append(("optrats", [cx.value, cw.value] if ok else None))
            tags.append("bound-ok" if ok else "bound-refused")
            if ok and not (0.0 <= cw.value <= 1.0 and (mode == 2 or 0.0 <= cx.value <= dd)):
                fails.append(f"_apply_boundary_conditions(mode={mode}, ddim={dd}, x={x}) accepts with x'={cx.value}, "
                             f"w={cw.value}: outside the grid / not a weight")
        nx, px = C.c_int(0), C.c_int(0)
        ok = L.k_neigh(x, dd, C.byref(nx), C.byref(px))
        lines.append(f"kneigh {dd} {fr(x)}")
        impl.append(("optints", [nx.value, px.value] if ok else None))
        tags.append("neigh-ok" if ok else "neigh-refused")
        inside = -dd <= x and math.floor(x) <= 2 * dd
        if bool(ok) != inside or (ok and (nx.value, px.value) != (math.floor(x) - 1, math.floor(x) + 2)):
            fails.append(f"_mirror_grid_neighbors(x={x}, ddim={dd}) -> ok={ok}, window [{nx.value}, {px.value}]: the "
                         f"4-tap window of x is [{math.floor(x) - 1}, {math.floor(x) + 2}], defined iff -ddim <= x < 2 ddim + 1")
    # ---- prng_double: from a seeded state, or from an arbitrary state of the enumeration range ----
    st = PS()
    if c["seeded"]:
        R.prng_seed(int(rs.randint(1, 2 ** 31 - 1)), C.byref(st))
        tags.append("prng-seeded")
    else:
        pick = lambda m: int(rs.choice([0, 1, 2, m - 1, m - 2, int(rs.randint(1, m))], p=[.05, .1, .05, .1, .05, .65]))
        st.ix, st.iy, st.iz, st.it = [pick(m) for m in MODS]
        tags.append("prng-state")
    s0 = [st.ix, st.iy, st.iz, st.it]
    vals, cur = [], list(s0)
    for _ in range(c["steps"]):
        v = float(R.prng_double(C.byref(st)))
        vals.append(v)
        cur = [(a * s) % m for a, s, m in zip(MULT, cur, MODS)]
        now = [st.ix, st.iy, st.iz, st.it]
        w = sum(Fraction(s, m) for s, m in zip(cur, MODS))
        if now != cur:
            fails.append(f"prng_double from state {s0}: state {now} after {len(vals)} calls, the four congruential "
                         f"generators a*s mod m give {cur}")
            break
        if not (0.0 <= v < 1.0) or abs(v - float(w - math.floor(w))) > 1e-12:
            fails.append(f"prng_double from state {s0}: call {len(vals)} returns {v!r}, the fractional part of "
                         f"sum s/m is {float(w - math.floor(w))!r}")
            break
    lines.append(f"kprng {s0[0]} {s0[1]} {s0[2]} {s0[3]} {c['steps']}")
    impl.append(("kprng", [st.ix, st.iy, st.iz, st.it], vals))
    return check._res(lines, impl, fails[0] if fails else None, dd >= 1, sorted(set(tags)), None)


def compare(impl_obs, model_out, cmp_rats):
    kind = impl_obs[0]
    if kind == "optrats":
        if impl_obs[1] is None:
            return None if model_out == "none" else f"impl refuses, model={model_out}"
        if model_out == "none":
            return f"impl={impl_obs[1]}, model refuses"
        return cmp_rats(impl_obs[1], model_out, 1e-15, 1e-15)
    if kind == "optints":
        want = "none" if impl_obs[1] is None else " ".join(str(v) for v in impl_obs[1])
        return None if want == model_out else f"impl={want} model={model_out}"
    if kind == "kprng":
        try:
            head, tail = model_out.split(" | ")
        except Exception:
            return f"unparsable model output {model_out[:80]!r}"
        want = " ".join(str(v) for v in impl_obs[1])
        if head.strip() != want:
            return f"state impl={want} model={head}"
        return cmp_rats(impl_obs[2], tail, 1e-12, 1e-12)
    return "unknown observation kind"


def shrink(case):
    if case["ddim"] > 0:
        c = dict(case); c["ddim"] = case["ddim"] - 1
        yield c
    if case["steps"] > 1:
        c = dict(case); c["steps"] = 1
        yield c
