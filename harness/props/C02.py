"""C02 — image manipulations keep every value at its world position.

Correspondence: histories (1..6 operations: slicing, reorder / rename axes and
reference, rollimg, rollaxis, synchronized_order, iter_axis, as_xyz_image) on
1..5-D images with `arange` data and integer / dyadic affines, run on the real
nipy code, versus the Lean model `NipyVerif.C02` (state after every operation:
shape, names, exact affine, flattened data, or the refusal class).
Oracle: after every operation, directly on the real code, every value of the
result sits at the named world coordinates it had in the *original* image, no
value is duplicated or invented, shape matches the coordmap's input dimension,
inputs are left unchanged; a valid operation must not raise.
"""
from __future__ import annotations

import itertools
import random
import warnings

import numpy as np

from harness.core import PropertyCheck
from harness.util import Snapshot, cmp_rats, errname, fr, frac

N2X = {"x": "x", "y": "y", "z": "z", "mx": "x", "my": "y", "mz": "z"}
XYZI = {"x": 0, "y": 1, "z": 2}
IN_POOLS = [list("ijklm"), ["slice", "phase", "freq", "t", "u"], list("abcde"),
            ["x", "j", "z", "l", "m"], ["y", "x", "k", "t", "q"]]
OUT_POOLS = [list("xyztuv"), ["mx", "my", "mz", "t", "u", "v"], ["z", "x", "y", "t", "w", "v"],
             ["t", "x", "y", "z", "u", "v"], ["x", "y", "q", "t", "u", "v"]]
LEGAL_REFUSALS = ("ValueError", "AxisError", "AxesError", "AffineError", "IndexError")


# ----------------------------------------------------------------------
# generation (pure functions of the rng and of names / shape of the current image)
# ----------------------------------------------------------------------
def gen_image(rng, small=False):
    nd = rng.choice([1, 2, 2, 3, 3, 3, 4, 4, 5])
    while True:
        shape = [rng.choice([1, 2, 2, 3, 3, 4, 5] if nd <= 3 else [1, 2, 2, 3]) for _ in range(nd)]
        if int(np.prod(shape)) <= (60 if small else 200):
            break
    nout = nd + (1 if rng.random() < 0.1 else 0)
    inn = rng.choice(IN_POOLS)[:nd]
    outn = rng.choice(OUT_POOLS)[:nout]
    kind = rng.choice(["diag", "flip", "perm", "oblique", "oblique", "zerotr", "dyadic"])
    A = np.zeros((nout, nd))
    vals = [1, 2, 3, 4, 5, 0.5, 1.5, 0.25]
    if kind in ("diag", "flip", "zerotr", "dyadic"):
        for k in range(nd):
            A[k, k] = rng.choice(vals if kind == "dyadic" else [1, 2, 3, 4, 5])
            if kind == "flip" and rng.random() < 0.6:
                A[k, k] = -A[k, k]
        if kind == "zerotr":
            A[nd - 1, nd - 1] = 0
    elif kind == "perm":
        p = list(range(nd)); rng.shuffle(p)
        for k in range(nd):
            A[p[k], k] = rng.choice([1, 2, 3, -1, -2, 0.5])
    else:
        for r in range(nout):
            for k in range(nd):
                A[r, k] = rng.choice([0, 0, 1, -1, 2, -2, 3, 0.5, -0.25])
    b = [rng.choice([0, 1, -2, 3.5, 10, -7.25]) for _ in range(nout)]
    aff = np.zeros((nout + 1, nd + 1))
    aff[:nout, :nd] = A
    aff[:nout, nd] = b
    aff[nout, nd] = 1
    return {"shape": shape, "in": inn, "out": outn, "aff": aff.tolist(),
            "base": rng.choice([0, 0, 7, -5]), "dtype": rng.choice(["f8", "i8"])}


def gen_atom(rng, n, bad=False):
    if bad:
        k = rng.choice(["oob", "step0", "empty"])
        if k == "oob":
            return ["I", rng.choice([n, n + 1, -n - 1])]
        if k == "step0":
            return ["S", None, None, 0]
        return ["S", rng.choice([n, n + 2]), None, None] if rng.random() < 0.5 else ["S", 1, 1, None]
    r = rng.random()
    if r < 0.22:
        return ["I", rng.randrange(-n, n)]
    if r < 0.40:
        return ["S", None, None, None]
    for _ in range(8):
        a = rng.choice([None, None] + list(range(-n - 2, n + 3)))
        b = rng.choice([None, None] + list(range(-n - 2, n + 3)))
        c = rng.choice([None, 1, 2, 3, -1, -1, -2, -3])
        if len(range(*slice(a, b, c).indices(n))) > 0:
            return ["S", a, b, c]
    return ["S", None, None, rng.choice([None, -1, 2])]


def gen_getitem(rng, shape):
    nd = len(shape)
    bad = rng.random() < 0.12
    atoms = [gen_atom(rng, n) for n in shape]
    if bad:
        k = rng.choice(["atom", "atom", "many", "ell2"])
        if k == "atom":
            j = rng.randrange(nd)
            atoms[j] = gen_atom(rng, shape[j], bad=True)
        elif k == "many":
            atoms.append(rng.choice([["I", 0], ["S", None, None, None]]))
        else:
            atoms = [["E"]] + atoms[: max(0, nd - 2)] + [["E"]]
        return ["G", atoms, False]
    r = rng.random()
    if r < 0.25:      # trailing axes left implicit
        atoms = atoms[: rng.randrange(1, nd + 1)]
    elif r < 0.5:     # an ellipsis stands for a run of axes
        i = rng.randrange(0, nd + 1); j = rng.randrange(i, nd + 1)
        atoms = atoms[:i] + [["E"]] + atoms[j:]
    bare = len(atoms) == 1 and rng.random() < 0.5
    return ["G", atoms, bare]


def gen_order(rng, n, names):
    r = rng.random()
    p = list(range(n)); rng.shuffle(p)
    if r < 0.08:
        return None
    if r < 0.16:     # malformed
        k = rng.choice(["dup", "short", "big", "neg", "name"])
        if k == "dup" and n > 1:
            p[0] = p[1]; return p
        if k == "short" and n > 1:
            return p[:-1]
        if k == "big":
            p[rng.randrange(n)] = n; return p
        if k == "neg":
            p[rng.randrange(n)] = -n - 1 - rng.randrange(2); return p
        return [names[i] for i in p[:-1]] + ["nosuch"]
    if r < 0.50:
        return [names[i] for i in p]
    if r < 0.68:     # python-style negative positions
        return [i - n if rng.random() < 0.5 else i for i in p]
    return p


def gen_axis(rng, n, inn, outn, allow_bad=True):
    r = rng.random()
    if allow_bad and r < 0.08:
        return rng.choice([n, -n - 1, "nosuch"])
    if r < 0.30:
        return rng.randrange(n)
    if r < 0.45:
        return rng.randrange(-n, 0)
    if r < 0.75:
        return rng.choice(inn)
    return rng.choice(outn)


def gen_rename(rng, names, other):
    k = rng.randrange(0, min(3, len(names)) + 1)
    keys = rng.sample(names, k)
    fresh = ["n%d" % rng.randrange(4), "w", "tt", "newx", "r-s"]
    pairs = []
    for key in keys:
        r = rng.random()
        if r < 0.6:
            pairs.append([key, rng.choice(fresh)])
        elif r < 0.85:
            pairs.append([key, rng.choice(names + other)])   # swap / collision / cross name
        else:
            pairs.append([key, key])
    if rng.random() < 0.08:
        pairs.append(["nosuch", "w2"])
    return pairs


def gen_op(rng, shape, inn, outn):
    n = len(shape)
    r = rng.random()
    if r < 0.34:
        return gen_getitem(rng, shape)
    if r < 0.46:
        return ["RA", gen_order(rng, n, inn)]
    if r < 0.54:
        return ["RR", gen_order(rng, len(outn), outn)]
    if r < 0.59:
        return ["NA", gen_rename(rng, inn, outn)]
    if r < 0.64:
        return ["NR", gen_rename(rng, outn, inn)]
    if r < 0.76:
        return ["RI", gen_axis(rng, n, inn, outn), gen_axis(rng, n, inn, outn) if rng.random() < 0.6 else
                rng.choice([0, n, n - 1])]
    if r < 0.82:
        inv = rng.random() < 0.3
        ax = rng.randrange(-n, n + 1) if inv and rng.random() < 0.9 else gen_axis(rng, n, inn, outn)
        return ["RX", ax, inv]
    if r < 0.88:
        ti = list(inn); rng.shuffle(ti)
        to = list(outn); rng.shuffle(to)
        if rng.random() < 0.1:
            ti = ti[:-1] + ["nosuch"]
        return ["SY", ti, to, rng.random() < 0.8, rng.random() < 0.8]
    if r < 0.95 or len(outn) < 3 and rng.random() < 0.8:
        return ["IT", gen_axis(rng, n, inn, outn, allow_bad=False), rng.randrange(0, 1 << 16)]
    return ["XY"]


# ----------------------------------------------------------------------
# the real code
# ----------------------------------------------------------------------
def build_image(spec):
    from nipy.core.api import AffineTransform, CoordinateSystem, Image
    n = int(np.prod(spec["shape"]))
    data = (np.arange(n, dtype=spec.get("dtype", "f8")) + spec.get("base", 0)).reshape(spec["shape"])
    cmap = AffineTransform(CoordinateSystem(spec["in"], "voxels"), CoordinateSystem(spec["out"], "world"),
                           np.array(spec["aff"], dtype=float))
    return Image(data, cmap), data


def py_slicer(atoms, bare):
    out = []
    for a in atoms:
        if a[0] == "I":
            out.append(int(a[1]))
        elif a[0] == "S":
            out.append(slice(a[1], a[2], a[3]))
        else:
            out.append(Ellipsis)
    return out[0] if (bare and len(out) == 1) else tuple(out)


def ornt_of(aff, fix0):
    """first column of io_orientation as list of int / None ([] when it cannot be computed)"""
    from nibabel.orientations import io_orientation
    from nipy.core.reference.coordinate_map import _fix0
    try:
        a = _fix0(aff) if fix0 else aff
        o = io_orientation(a)[:, 0]
        return [None if np.isnan(v) else int(v) for v in o]
    except Exception:
        return []


def xyz_params(img):
    """the three io_orientation results as_xyz_image looks at (replaying its steps)"""
    from nipy.core.reference import spaces as rsp
    o0 = ornt_of(img.affine, False)
    o1, o2 = [], []
    try:
        order = rsp.xyz_order(img.coordmap.function_range, N2X)
        reo = img.reordered_reference(order)
        o1 = ornt_of(reo.affine, False)
        cur = np.array([np.inf if v is None else v for v in o1], dtype=float)
        if {0, 1, 2}.issubset(cur):
            reo2 = reo.reordered_axes(list(np.argsort(cur)))
            o2 = ornt_of(reo2.affine, False)
    except Exception:
        pass
    return o0, o1, o2


def apply_op(img, op):
    """run one operation of the real code; returns the result (Image or array scalar)"""
    from nipy.core.image import image as im
    from nipy.core.image.image_spaces import as_xyz_image
    k = op[0]
    if k == "G":
        return img[py_slicer(op[1], op[2])]
    if k == "RA":
        return img.reordered_axes(None if op[1] is None else list(op[1]))
    if k == "RR":
        return img.reordered_reference(None if op[1] is None else list(op[1]))
    if k == "NA":
        return img.renamed_axes(**{a: b for a, b in op[1]})
    if k == "NR":
        return img.renamed_reference(**{a: b for a, b in op[1]})
    if k == "RI":
        return im.rollimg(img, op[1], op[2])
    if k == "RX":
        return im.rollaxis(img, op[1], op[2])
    if k == "SY":
        from types import SimpleNamespace
        from nipy.core.api import CoordinateSystem
        tgt = SimpleNamespace(axes=CoordinateSystem(op[1], "voxels"),
                              coordmap=SimpleNamespace(function_range=CoordinateSystem(op[2], "world")))
        return im.synchronized_order(img, tgt, axes=op[3], reference=op[4])
    if k == "IT":
        return list(im.iter_axis(img, op[1]))
    if k == "XY":
        return as_xyz_image(img, N2X)
    raise ValueError("unknown op " + str(k))


def _isperm(o, n):
    return sorted(o) == list(range(n))


def expect(op, shape, inn, outn):
    """'ok' (must succeed), 'refuse' (not a valid request), 'either' (a documented refusal is legal)"""
    n, m = len(inn), len(outn)
    k = op[0]
    if k == "G":
        atoms = op[1]
        ne = [a for a in atoms if a[0] != "E"]
        if len(atoms) - len(ne) > 1 or len(ne) > n:
            return "refuse"
        if len(atoms) != len(ne):
            i = [a[0] for a in atoms].index("E")
            atoms = atoms[:i] + [["S", None, None, None]] * (n - len(ne)) + atoms[i + 1:]
        atoms = atoms + [["S", None, None, None]] * (n - len(atoms))
        names = []
        for a, s, nm in zip(atoms, shape, inn):
            if a[0] == "I":
                if not -s <= a[1] < s:
                    return "refuse"
                names.append(nm)
            else:
                if a[3] == 0:
                    return "refuse"
                r = range(*slice(a[1], a[2], a[3]).indices(s))
                if len(r) == 0:
                    return "refuse"
                names.append(nm + "-slice" if (len(r) > 1 and r.step > 1) else nm)
        return "ok" if len(set(names)) == len(names) else "either"
    if k in ("RA", "RR"):
        names, d = (inn, n) if k == "RA" else (outn, m)
        o = op[1]
        if o is None:
            return "ok" if (k == "RA" or n == m) else "refuse"
        if len(o) and isinstance(o[0], str):
            return "ok" if sorted(o) == sorted(names) else "refuse"
        if not all(isinstance(i, int) for i in o):
            return "refuse"
        return "ok" if _isperm([i + d if i < 0 else i for i in o], d) else "refuse"
    if k in ("NA", "NR"):
        names = inn if k == "NA" else outn
        mp = dict((a, b) for a, b in op[1])
        if not set(mp) <= set(names):
            return "refuse"
        new = [mp.get(x, x) for x in names]
        return "ok" if len(set(new)) == len(new) else "refuse"

    def axis_status(a, is_start=False):
        if isinstance(a, int):
            if -n <= a < n or (is_start and a == n):
                return "ok"
            return "either" if is_start else "refuse"
        if a in inn:
            return "either" if a in outn else "ok"
        return "either" if a in outn else "refuse"

    if k == "RI":
        s = [axis_status(op[1]), axis_status(op[2], True)]
        return "refuse" if "refuse" in s else ("either" if "either" in s else "ok")
    if k == "IT":
        return axis_status(op[1])
    if k == "RX":
        a, inv = op[1], op[2]
        if inv:
            if not isinstance(a, int):
                return "refuse"
            return "ok" if (n == m and -n <= a <= n) else "either"
        if isinstance(a, int):
            if not -n <= a < n:
                return "refuse"
            return "ok" if n == m else "either"
        if a not in inn and a not in outn:
            return "refuse"
        return "ok" if (n == m and not (a in inn and a in outn)) else "either"
    if k == "SY":
        ok = (not op[3] or sorted(op[1]) == sorted(inn)) and (not op[4] or sorted(op[2]) == sorted(outn))
        return "ok" if ok else "refuse"
    return "either"


# ----------------------------------------------------------------------
# text for the model
# ----------------------------------------------------------------------
def t_opt(v):
    return "_" if v is None else str(int(v))


def t_axis(a):
    return f"I {a}" if isinstance(a, int) else f"S {a}"


def t_ornt(o):
    return f"{len(o)} " + " ".join(t_opt(v) for v in o) if o else "0"


def t_order(o):
    if o is None:
        return "N"
    if len(o) and isinstance(o[0], str):
        return f"S {len(o)} " + " ".join(o)
    return f"I {len(o)} " + " ".join(str(i) for i in o)


def t_op(op, img):
    k = op[0]
    if k == "G":
        at = []
        for a in op[1]:
            at.append("I %d" % a[1] if a[0] == "I" else ("E" if a[0] == "E" else
                      "S %s %s %s" % (t_opt(a[1]), t_opt(a[2]), t_opt(a[3]))))
        return f"G {len(at)} " + " ".join(at)
    if k in ("RA", "RR"):
        return f"{k} " + t_order(op[1])
    if k in ("NA", "NR"):
        return f"{k} {len(op[1])} " + " ".join(f"{a} {b}" for a, b in op[1])
    if k == "RI":
        return f"RI {t_axis(op[1])} {t_axis(op[2])} {t_ornt(ornt_of(img.affine, True))}"
    if k == "RX":
        return f"RX {t_axis(op[1])} {1 if op[2] else 0}"
    if k == "SY":
        return (f"SY {len(op[1])} " + " ".join(op[1]) + f" {len(op[2])} " + " ".join(op[2])
                + f" {1 if op[3] else 0} {1 if op[4] else 0}")
    if k == "IT":
        return f"IT {t_axis(op[1])} {op[2]} {t_ornt(ornt_of(img.affine, True))}"
    if k == "XY":
        o0, o1, o2 = xyz_params(img)
        pairs = sorted((a, XYZI[b]) for a, b in N2X.items())
        return (f"XY {len(pairs)} " + " ".join(f"{a} {b}" for a, b in pairs)
                + f" {t_ornt(o0)} {t_ornt(o1)} {t_ornt(o2)}")
    raise ValueError(k)


def t_state(res):
    if hasattr(res, "coordmap"):
        aff = np.asarray(res.affine)
        d = np.asarray(res.get_fdata()).ravel()
        return ("S " + " ".join(str(s) for s in res.shape) + " | " + " ".join(res.axes.coord_names) + " | "
                + " ".join(res.reference.coord_names) + " | "
                + " ".join(fr(v) for v in aff[:-1].ravel().tolist()) + " | "
                + " ".join(fr(v) for v in d.tolist()))
    return "V " + fr(np.asarray(res).item())


def t_image(spec):
    aff = np.array(spec["aff"], dtype=float)
    n = int(np.prod(spec["shape"]))
    nout, nin = aff.shape[0] - 1, aff.shape[1] - 1
    return (f"{len(spec['shape'])} " + " ".join(str(s) for s in spec["shape"]) + f" {nin} " + " ".join(spec["in"])
            + f" {nout} " + " ".join(spec["out"]) + f" {nout} {nin + 1} "
            + " ".join(fr(v) for v in aff[:-1].ravel().tolist())
            + f" {n} " + " ".join(str(spec.get("base", 0) + i) for i in range(n)))


# ----------------------------------------------------------------------
# property oracle on the real code
# ----------------------------------------------------------------------
def check_against_original(res, img0, data0, base, refmap, what):
    """every value of `res` at the named world coordinates it has in the original image"""
    if not hasattr(res, "coordmap"):
        v = np.asarray(res).item()
        if not (base <= v < base + data0.size and float(v).is_integer()):
            return f"{what}: value {v} is not a value of the original image"
        return None
    d = np.asarray(res.get_fdata())
    if tuple(d.shape) != tuple(res.shape) or len(res.shape) != res.coordmap.ndims[0]:
        return (f"{what}: array shape {d.shape} does not match the coordmap input dimension "
                f"{res.coordmap.ndims[0]}")
    vals = d.ravel()
    k = vals - base
    if np.any(k != np.round(k)) or np.any(k < 0) or np.any(k >= data0.size):
        return f"{what}: result holds a value that is not in the original image ({vals[:8].tolist()}…)"
    k = k.astype(int)
    if len(set(k.tolist())) != k.size:
        return f"{what}: a value of the original image appears more than once in the result"
    idx = np.indices(d.shape).reshape(d.ndim, -1).T
    w = np.asarray(res.coordmap(idx.astype(float))).reshape(idx.shape[0], -1)
    idx0 = np.array(np.unravel_index(k, data0.shape)).T
    w0 = np.asarray(img0.coordmap(idx0.astype(float))).reshape(idx0.shape[0], -1)
    names, names0 = list(res.reference.coord_names), list(img0.reference.coord_names)
    back = [refmap.get(nm) for nm in names]
    if sorted(x for x in back if x is not None) != sorted(names0) or None in back:
        return f"{what}: reference coordinates {names} do not correspond to the original {names0}"
    cols = [names0.index(b) for b in back]
    ref = w0[:, cols]
    tol = 1e-9 * (1.0 + float(np.abs(ref).max()) if ref.size else 1.0)
    bad = np.nonzero(np.abs(w - ref).max(axis=1) > tol)[0] if w.size else []
    if len(bad):
        j = int(bad[0])
        return (f"{what}: value {vals[j]} is at {dict(zip(back, w[j].tolist()))} in the result but at "
                f"{dict(zip(back, ref[j].tolist()))} in the original image")
    return None


class C02(PropertyCheck):
    id = "C02"
    title = "Image manipulations keep every value at its world position"
    lean_modules = ["NipyVerif.Props.C02"]
    driver = "Drivers/C02.lean"
    rule = ("a case is an image (1..5-D, arange data, integer/dyadic affine: diagonal, flipped, signed "
            "permutation, oblique, zero-TR; optional extra output axis; axis names shared with reference names "
            "on purpose) and a history of 1..6 operations drawn from a seeded PRNG against the names/shape of "
            "the current image (~12 % malformed requests for the refusal branches); thorough adds every slice "
            "atom of one axis for shapes (3), (2,3), (3,3,2). Non-trivial = at least one operation succeeded "
            "and the image has more than one voxel; distinct by JSON of the case")
    assumptions = [
        "nibabel.io_orientation (SVD based) is a parameter of name resolution (rollimg / iter_axis through "
        "output names) and of as_xyz_image: the harness passes the orientations computed for the very "
        "affines the implementation sees; the theorems hold for every value of that parameter",
        "np.dot with the selection / permutation / scaling matrices built by _slice, reordered_domain/range "
        "is modelled by its column/row action (exact on the integer and dyadic affines generated)",
        "NumPy basic indexing / transpose are compared through the data they return (arange data, all "
        "values distinct), not modelled below the level of `a[start + k*step]` and axis permutation",
        "'the original image is left unchanged' is checked on the real code (byte digests of data, affine, "
        "names before/after every operation); the model is purely functional, so the clause is not a theorem",
        "as_xyz_image's np.allclose(extra columns, 0) is modelled as exact equality with 0",
        "the model follows the code with proposed_fixes/C02-*.patch applied (negative axis numbers)",
    ]
    level_note = ("as_xyz_image and output-name axis resolution are proved for every value of the "
                  "io_orientation parameter (they can only reorder or refuse); immutability is oracle-only")

    # ------------------------------------------------------------------
    def generate(self, rng, tier):
        nseq, nslice = (4000, 500) if tier == "quick" else (40000, 4000)
        cases = []
        for _ in range(nseq):
            cases.append({"kind": "seq", "gen": rng.randrange(1 << 40),
                          "nops": rng.choice([1, 1, 2, 3, 4, 5, 6])})
        for _ in range(nslice):
            n = rng.choice([1, 2, 3, 4, 5, 7])
            cases.append({"kind": "slice", "n": n,
                          "a": rng.choice([None] + list(range(-n - 3, n + 4))),
                          "b": rng.choice([None] + list(range(-n - 3, n + 4))),
                          "c": rng.choice([None, 1, 2, 3, 4, -1, -2, -3, -4, 0])})
        if tier == "thorough":
            for shape in ([3], [2, 3], [3, 3, 2]):
                spec0 = {"shape": shape, "in": list("ijk")[: len(shape)], "out": list("xyz")[: len(shape)],
                         "base": 0, "dtype": "f8"}
                nd = len(shape)
                aff = np.eye(nd + 1)
                for k in range(nd):
                    aff[k, k] = [2, -3, 0.5][k]
                    aff[k, nd] = [1, -2, 3][k]
                if nd == 3:
                    aff[0, 1] = 1; aff[2, 0] = -1
                spec0["aff"] = aff.tolist()
                for ax in range(nd):
                    n = shape[ax]
                    atoms = [["I", i] for i in range(-n - 1, n + 1)]
                    rng_ = [None] + list(range(-n - 1, n + 2))
                    atoms += [["S", a, b, c] for a in rng_ for b in rng_
                              for c in (None, 1, 2, 3, -1, -2, -3)]
                    for at in atoms:
                        full = [["S", None, None, None]] * nd
                        full[ax] = at
                        cases.append({"kind": "seq", "img": spec0, "ops": [["G", full, False]]})
        return cases

    # ------------------------------------------------------------------
    def materialise(self, case):
        """explicit image + operations of a seeded case (the operations are drawn against the names
        and shape the real code produced so far)"""
        if "ops" in case:
            return case
        warnings.filterwarnings("ignore")
        rng = random.Random(case["gen"])
        spec = gen_image(rng)
        img, _ = build_image(spec)
        ops = []
        for _ in range(case["nops"]):
            op = gen_op(rng, list(img.shape), list(img.axes.coord_names), list(img.reference.coord_names))
            try:
                res = apply_op(img, op)
            except Exception:
                ops.append(op)
                break
            if op[0] == "IT":
                op = ["IT", op[1], (op[2] % len(res)) if len(res) else 0]
                res = res[op[2]] if res else None
            ops.append(op)
            if not hasattr(res, "coordmap"):
                break
            img = res
        return {"kind": "seq", "img": spec, "ops": ops}

    def run_case(self, case):
        warnings.filterwarnings("ignore")
        if case["kind"] == "slice":
            return self._slice(case)
        c = self.materialise(case)
        spec, ops = c["img"], c["ops"]
        img0, data0 = build_image(spec)
        base = spec.get("base", 0)
        snap0 = Snapshot(data=data0, aff=img0.affine, inn=list(img0.axes.coord_names),
                         out=list(img0.reference.coord_names))
        refmap = {nm: nm for nm in img0.reference.coord_names}
        img = img0
        toks, obs, tags = [], [], []
        fail, mut = None, None
        ok_ops = 0
        for step_no, op in enumerate(ops):
            shape, inn, outn = list(img.shape), list(img.axes.coord_names), list(img.reference.coord_names)
            exp = expect(op, shape, inn, outn)
            toks.append(t_op(op, img))
            what = f"step {step_no} {op[0]}"
            snap = Snapshot(data=np.asarray(img.get_fdata()), aff=img.affine, inn=inn, out=outn)
            try:
                res = apply_op(img, op)
            except Exception as e:   # noqa: BLE001 - every refusal is an observation
                obs.append("E " + errname(e))
                tags.append(f"{op[0]}:refused")
                cls = type(e).__name__
                if exp == "ok":
                    fail = fail or (f"{what}: {cls}: {e} raised for a valid request {op} on an image with shape "
                                    f"{shape}, axes {inn}, reference {outn}")
                elif cls not in LEGAL_REFUSALS:
                    fail = fail or f"{what}: unexpected {cls}: {e} for {op}"
                break
            ch = snap.changed()
            if ch:
                mut = mut or f"{what} changed its input image ({ch})"
            tags.append(f"{op[0]}:ok" + ("" if exp == "ok" else f"({exp})"))
            ok_ops += 1
            if op[0] == "NR":
                mp = dict((a, b) for a, b in op[1])
                refmap = {mp.get(nm, nm): refmap[nm] for nm in outn}
            if op[0] == "IT":
                seen = set()
                for i, el in enumerate(res):
                    f = check_against_original(el, img0, data0, base, refmap, f"{what} element {i}")
                    vals = set(np.asarray(el.get_fdata() if hasattr(el, "coordmap") else el).ravel().tolist())
                    if f is None and seen & vals:
                        f = f"{what}: elements of the iteration share the value {sorted(seen & vals)[0]}"
                    seen |= vals
                    fail = fail or f
                if len(seen) != int(np.prod(shape)):
                    fail = fail or f"{what}: iteration visits {len(seen)} of {int(np.prod(shape))} values"
                res = res[op[2]]
            else:
                fail = fail or check_against_original(res, img0, data0, base, refmap, what)
            obs.append(t_state(res))
            if not hasattr(res, "coordmap"):
                tags.append("scalar")
                break
            img = res
        ch = snap0.changed()
        if ch:
            mut = mut or f"the original image changed ({ch})"
        if mut:
            fail = fail or mut
        line = "seq " + t_image(spec) + f" {len(toks)} " + " ".join(toks)
        return {"lines": [line] if toks else [], "impl": [obs] if toks else [], "oracle": fail,
                "nontrivial": ok_ops >= 1 and data0.size > 1, "tags": sorted(set(tags)) + [f"nd={data0.ndim}"],
                "mutated": mut}

    def _slice(self, c):
        n, a, b, s = c["n"], c["a"], c["b"], c["c"]
        try:
            got = " ".join(str(int(v)) for v in np.arange(n)[a:b:s].tolist())
        except Exception as e:   # noqa: BLE001
            got = "E " + errname(e)
        line = f"slice {n} {t_opt(a)} {t_opt(b)} {t_opt(s)}"
        return {"lines": [line], "impl": [[got]], "oracle": None, "nontrivial": got not in ("", ) ,
                "tags": ["slice-atom"], "mutated": None}

    # ------------------------------------------------------------------
    @staticmethod
    def _same(x, y):
        """exact text, or (should a float ever round) equal up to 1e-9 in the affine section"""
        if x == y:
            return True
        xs, ys = x.split(" | "), y.split(" | ")
        if len(xs) != 5 or len(ys) != 5 or xs[:3] != ys[:3] or xs[4] != ys[4]:
            return False
        return cmp_rats([float(frac(t)) for t in xs[3].split()], ys[3]) is None

    def compare(self, case, impl_obs, model_out):
        if model_out == "bad-op":
            return "model could not parse the line"
        m = model_out.split(" ;; ")
        for i, (x, y) in enumerate(zip(impl_obs, m)):
            if not self._same(x, y):
                return f"step {i}: impl={x[:250]!r} model={y[:250]!r}"
        if len(m) != len(impl_obs):
            return (f"impl has {len(impl_obs)} observations, model {len(m)}: impl={impl_obs[-1][:200]!r} "
                    f"model={m[-1][:200]!r}")
        return None

    def shrink(self, case):
        if case.get("kind") != "seq":
            return
        import harness.overlay  # noqa: F401
        c = self.materialise(case)
        if "gen" in case:
            yield c
        ops = c["ops"]
        for i in range(len(ops)):
            if len(ops) > 1:
                yield {"kind": "seq", "img": c["img"], "ops": ops[:i] + ops[i + 1:]}
        if len(ops) > 1:
            yield {"kind": "seq", "img": c["img"], "ops": ops[:-1]}
        for i, op in enumerate(ops):
            if op[0] == "G":
                for j, at in enumerate(op[1]):
                    if at != ["S", None, None, None] and at[0] != "E":
                        atoms = list(op[1]); atoms[j] = ["S", None, None, None]
                        yield {"kind": "seq", "img": c["img"], "ops": ops[:i] + [["G", atoms, False]] + ops[i + 1:]}
        spec = c["img"]
        aff = np.array(spec["aff"])
        if np.any(aff[:-1, -1] != 0):
            a2 = aff.copy(); a2[:-1, -1] = 0
            yield {"kind": "seq", "img": dict(spec, aff=a2.tolist()), "ops": ops}
        if spec.get("base", 0) != 0:
            yield {"kind": "seq", "img": dict(spec, base=0), "ops": ops}

    def classify(self, case, failure):
        return None


CHECK = C02()
