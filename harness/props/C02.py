"""C02 — image manipulations keep every value at its world position.

Correspondence: histories (1..6 operations: slicing, reorder / rename axes and
reference, rollimg, rollaxis, synchronized_order, iter_axis, as_xyz_image) on
1..5-D images with `arange` data and integer / dyadic affines, run on the real
nipy code, versus the Lean model `NipyVerif.C02` (state after every operation:
shape, names, exact affine, flattened data, or the refusal class).
Oracle: after every operation, directly on the real code, every value of the
result sits at the named world coordinates it had in the *original* image, no
value is duplicated or invented, shape matches the coordmap's input dimension,
inputs are left unchanged; a valid operation must not raise.

Further line kinds (see `run` in lean/NipyVerif/Model/C02Run.lean): `iterall` (every element of
iter_axis, asarray False / True), `ilist` (ImageList.from_image + list indexing, get_list_data,
iteration), `fromarray`, `pslice` (xslice / yslice / zslice + bounding_box), `bbox`, `prog`
(operations applied to any earlier object of a store, interleaved), `ornt` / `orntm`
(the loop of nibabel's io_orientation on the polar factor; monomial affines in full).
Third part (harness/props/c02_ext.py, lean/NipyVerif/Model/C02C.lean): `progx` (programs over the
whole operation language: every index kind, rollimg fix0, ImageList items, re-observation, data access),
`acm` / `grid` / `fromshape` (ArrayCoordMap, Grid), `xyzaff` (xyz_affine), `ornto` (io_orientation of
affines with orthogonal columns, no SVD), `rt` (round trips).
Tie (a) (harness/props/c02_translate.py -> lean/NipyVerif/Gen/C02Source.lean, theorems in
lean/NipyVerif/Props/C02Source.lean): the expressions the property hinges on are regenerated from the text of
image.py / image_list.py / image_spaces.py / array_coords.py as Lean terms and proved to be the model's.
"""
from __future__ import annotations

import inspect
import itertools
import random
import warnings

import numpy as np

from harness.core import PropertyCheck
from harness.util import Snapshot, cmp_rats, errname, fr, frac

N2X = {"x": "x", "y": "y", "z": "z", "mx": "x", "my": "y", "mz": "z"}
XYZI = {"x": 0, "y": 1, "z": 2}
IN_POOLS = [list("ijklm"), ["slice", "phase", "freq", "t", "u"], list("abcde"),
            ["x", "j", "z", "l", "m"], ["y", "x", "k", "t", "q"]]
OUT_POOLS = [list("xyztuv"), ["mx", "my", "mz", "t", "u", "v"], ["z", "x", "y", "t", "w", "v"],
             ["t", "x", "y", "z", "u", "v"], ["x", "y", "q", "t", "u", "v"]]
LEGAL_REFUSALS = ("ValueError", "AxisError", "AxesError", "AffineError", "IndexError")
FULL = ["S", None, None, None]


# ----------------------------------------------------------------------
# generation (pure functions of the rng and of names / shape of the current image)
# ----------------------------------------------------------------------
def gen_image(rng, small=False, nd=None):
    nd = nd or rng.choice([1, 1, 2, 2, 3, 3, 3, 4, 4, 5])
    skind = rng.random()
    while True:
        shape = [rng.choice([1, 2, 2, 3, 3, 4, 5] if nd <= 3 else [1, 2, 2, 3]) for _ in range(nd)]
        if skind < 0.08:                      # all axes singleton
            shape = [1] * nd
        elif skind < 0.2:                     # one proper axis among singletons
            k = rng.randrange(nd)
            shape = [shape[i] if i == k else 1 for i in range(nd)]
        if int(np.prod(shape)) <= (60 if small else 200):
            break
    nout = nd + (1 if rng.random() < 0.1 else 0)
    inn = rng.choice(IN_POOLS)[:nd]
    outn = rng.choice(OUT_POOLS)[:nout]
    kind = rng.choice(["diag", "flip", "perm", "oblique", "oblique", "zerotr", "dyadic", "shear", "rot", "mag"])
    A = np.zeros((nout, nd))
    vals = [1, 2, 3, 4, 5, 0.5, 1.5, 0.25]
    if kind in ("diag", "flip", "zerotr", "dyadic"):
        for k in range(nd):
            A[k, k] = rng.choice(vals if kind == "dyadic" else [1, 2, 3, 4, 5])
            if kind == "flip" and rng.random() < 0.6:
                A[k, k] = -A[k, k]
        if kind == "zerotr":
            A[nd - 1, nd - 1] = 0
    elif kind == "shear":
        # diagonal plus one or two off-diagonal entries: one axis leaks into another world coordinate
        # (gantry tilt; ImageList.from_image with and without dropout must keep the leak)
        for k in range(nd):
            A[k, k] = rng.choice([1, 2, 3, -2, 0.5])
        for _ in range(rng.choice([1, 1, 2])):
            r_, k_ = rng.randrange(nout), rng.randrange(nd)
            if r_ != k_:
                A[r_, k_] = rng.choice([1, -1, 0.5, 2, -0.25])
    elif kind == "rot":
        # an in-plane rotation with integer entries (3-4-5 ...) times zooms: orthogonal columns
        for k in range(nd):
            A[k, k] = rng.choice([1, 2, 3, -2, 0.5])
        if nd >= 2:
            i_, j_ = rng.sample(range(nd), 2)
            a_, b_ = rng.choice([(3, 4), (4, 3), (1, 2), (5, 12), (2, 1)])
            z1, z2 = rng.choice([1, 0.5, 2]), rng.choice([1, 0.25, 3])
            A[i_, i_], A[j_, i_], A[i_, j_], A[j_, j_] = a_ * z1, b_ * z1, -b_ * z2, a_ * z2
    elif kind == "mag":
        # magnitudes far from 1 (exact in binary64): a scaled signed permutation, sometimes with one leak
        p = list(range(nd)); rng.shuffle(p)
        for k in range(nd):
            A[p[k], k] = rng.choice([4096, -1024, 768, 1 / 4096, -1 / 1024, 5 / 512])
        if nd >= 2 and rng.random() < 0.4:
            r_, k_ = rng.randrange(nd), rng.randrange(nd)
            if A[r_, k_] == 0:
                A[r_, k_] = rng.choice([2048, -1 / 2048])
    elif kind == "perm":
        p = list(range(nd)); rng.shuffle(p)
        for k in range(nd):
            A[p[k], k] = rng.choice([1, 2, 3, -1, -2, 0.5])
    else:
        for r in range(nout):
            for k in range(nd):
                A[r, k] = rng.choice([0, 0, 1, -1, 2, -2, 3, 0.5, -0.25])
    b = [rng.choice([0, 1, -2, 3.5, 10, -7.25] if kind != "mag" else [0, 65536, -1 / 2048, 12345.5])
         for _ in range(nout)]
    aff = np.zeros((nout + 1, nd + 1))
    aff[:nout, :nd] = A
    aff[:nout, nd] = b
    aff[nout, nd] = 1
    n = int(np.prod(shape))
    base = rng.choice([0, 0, 7, -5])
    # the same numbers in other dtypes (when they fit) and memory layouts
    dt = rng.choice(["f8", "f8", "i8", "f4", "i4", "i2", "i1", "u1", "u2", "u4"])
    lo, hi = {"f8": (-2**52, 2**52), "f4": (-2**23, 2**23), "i8": (-2**62, 2**62)}.get(
        dt, (np.iinfo(dt).min, np.iinfo(dt).max) if dt[0] in "iu" else (0, 0))
    if not (lo <= base and base + n - 1 <= hi):
        dt = "i8"
    return {"shape": shape, "in": inn, "out": outn, "aff": aff.tolist(),
            "base": base, "dtype": dt,
            "layout": rng.choice(["C", "C", "F", "strided", "neg", "readonly", "offset"])}


def gen_atom(rng, n, bad=False):
    if bad:
        k = rng.choice(["oob", "step0", "empty"])
        if k == "oob":
            return ["I", rng.choice([n, n + 1, -n - 1])]
        if k == "step0":
            return ["S", None, None, 0]
        return ["S", rng.choice([n, n + 2]), None, None] if rng.random() < 0.5 else ["S", 1, 1, None]
    r = rng.random()
    if n == 0:                                # an empty axis: nothing is in range
        return rng.choice([["S", None, None, None], ["I", 0], ["I", -1], ["S", None, None, -1], ["S", 0, 1, None]])
    if r < 0.22:
        return ["I", rng.randrange(-n, n)]
    if r < 0.40:
        return ["S", None, None, None]
    for _ in range(8):
        a = rng.choice([None, None] + list(range(-n - 2, n + 3)))
        b = rng.choice([None, None] + list(range(-n - 2, n + 3)))
        c = rng.choice([None, 1, 2, 3, -1, -1, -2, -3])
        if len(range(*slice(a, b, c).indices(n))) > 0:
            return ["S", a, b, c]
    return ["S", None, None, rng.choice([None, -1, 2])]


def gen_getitem(rng, shape):
    nd = len(shape)
    bad = rng.random() < 0.12
    atoms = [gen_atom(rng, n) for n in shape]
    if bad:
        k = rng.choice(["atom", "atom", "many", "ell2"])
        if k == "atom":
            j = rng.randrange(nd)
            atoms[j] = gen_atom(rng, shape[j], bad=True)
        elif k == "many":
            atoms.append(rng.choice([["I", 0], ["S", None, None, None]]))
        else:
            atoms = [["E"]] + atoms[: max(0, nd - 2)] + [["E"]]
        return ["G", atoms, False]
    r = rng.random()
    if r < 0.25:      # trailing axes left implicit
        atoms = atoms[: rng.randrange(1, nd + 1)]
    elif r < 0.5:     # an ellipsis stands for a run of axes
        i = rng.randrange(0, nd + 1); j = rng.randrange(i, nd + 1)
        atoms = atoms[:i] + [["E"]] + atoms[j:]
    bare = len(atoms) == 1 and rng.random() < 0.5
    if not bare and rng.random() < 0.15:
        return ["G", atoms, "sub"]           # through the deprecated subsample()
    return ["G", atoms, bare]


def gen_order(rng, n, names):
    r = rng.random()
    p = list(range(n)); rng.shuffle(p)
    if r < 0.08:
        return None
    if r < 0.16:     # malformed
        k = rng.choice(["dup", "short", "big", "neg", "name"])
        if k == "dup" and n > 1:
            p[0] = p[1]; return p
        if k == "short" and n > 1:
            return p[:-1]
        if k == "big":
            p[rng.randrange(n)] = n; return p
        if k == "neg":
            p[rng.randrange(n)] = -n - 1 - rng.randrange(2); return p
        return [names[i] for i in p[:-1]] + ["nosuch"]
    if r < 0.50:
        return [names[i] for i in p]
    if r < 0.68:     # python-style negative positions
        return [i - n if rng.random() < 0.5 else i for i in p]
    return p


def gen_axis(rng, n, inn, outn, allow_bad=True):
    r = rng.random()
    if allow_bad and r < 0.08:
        return rng.choice([n, -n - 1, "nosuch"])
    if r < 0.30:
        return rng.randrange(n)
    if r < 0.45:
        return rng.randrange(-n, 0)
    if r < 0.75:
        return rng.choice(inn)
    return rng.choice(outn)


def gen_rename(rng, names, other):
    k = rng.randrange(0, min(3, len(names)) + 1)
    keys = rng.sample(names, k)
    fresh = ["n%d" % rng.randrange(4), "w", "tt", "newx", "r-s"]
    pairs = []
    for key in keys:
        r = rng.random()
        if r < 0.6:
            pairs.append([key, rng.choice(fresh)])
        elif r < 0.85:
            pairs.append([key, rng.choice(names + other)])   # swap / collision / cross name
        else:
            pairs.append([key, key])
    if rng.random() < 0.08:
        pairs.append(["nosuch", "w2"])
    return pairs


def gen_op(rng, shape, inn, outn):
    n = len(shape)
    r = rng.random()
    if r < 0.34:
        return gen_getitem(rng, shape)
    if r < 0.46:
        return ["RA", gen_order(rng, n, inn)]
    if r < 0.54:
        return ["RR", gen_order(rng, len(outn), outn)]
    if r < 0.59:
        return ["NA", gen_rename(rng, inn, outn)]
    if r < 0.64:
        return ["NR", gen_rename(rng, outn, inn)]
    if r < 0.76:
        return ["RI", gen_axis(rng, n, inn, outn), gen_axis(rng, n, inn, outn) if rng.random() < 0.6 else
                rng.choice([0, n, n - 1])]
    if r < 0.82:
        inv = rng.random() < 0.3
        ax = rng.randrange(-n, n + 1) if inv and rng.random() < 0.9 else gen_axis(rng, n, inn, outn)
        return ["RX", ax, inv]
    if r < 0.88:
        ti = list(inn); rng.shuffle(ti)
        to = list(outn); rng.shuffle(to)
        if rng.random() < 0.1:
            ti = ti[:-1] + ["nosuch"]
        return ["SY", ti, to, rng.random() < 0.8, rng.random() < 0.8]
    if r < 0.95 or len(outn) < 3 and rng.random() < 0.8:
        return ["IT", gen_axis(rng, n, inn, outn, allow_bad=rng.random() < 0.3), rng.randrange(0, 1 << 16),
                rng.random() < 0.5]
    return ["XY"]


def gen_lops(rng, nitems, nd_item):
    """operations on an ImageList with `nitems` items of `nd_item` axes"""
    ops = []
    n = nitems
    for _ in range(rng.choice([1, 2, 2, 3, 4])):
        r = rng.random()
        if r < 0.25:
            ops.append(["LI", rng.randrange(-n - 1, n + 1) if n else 0])
        elif r < 0.5:
            a = rng.choice([None, None] + list(range(-n - 2, n + 3)))
            b = rng.choice([None, None] + list(range(-n - 2, n + 3)))
            c = rng.choice([None, None, 1, 2, -1, -2, 3, 0])
            ops.append(["LS", a, b, c])
            if c != 0:
                n = len(range(*slice(a, b, c).indices(n)))
        elif r < 0.58:
            ops.append(["LO", rng.choice(["list", "array", "tuple", "npint", "bool"])])
        elif r < 0.9:
            od = nd_item + 1
            ops.append(["LD", rng.choice([None] + list(range(-od - 1, od + 1)))])
        elif r < 0.94:
            ops.append(["LA"])                          # np.asarray(list): get_list_data(axis=0)
        elif r < 0.97:
            ops.append(["LW", rng.randrange(-n - 1, n + 1) if n else 0, rng.randrange(0, 1 << 10)])
        else:
            ops.append(["LN"])
    return ops


# ----------------------------------------------------------------------
# the real code
# ----------------------------------------------------------------------
def build_image(spec):
    from nipy.core.api import AffineTransform, CoordinateSystem, Image
    n = int(np.prod(spec["shape"]))
    data = (np.arange(n, dtype="i8") + spec.get("base", 0)).astype(spec.get("dtype", "f8")).reshape(spec["shape"])
    data = with_layout(data, spec.get("layout", "C"))
    cmap = AffineTransform(CoordinateSystem(spec["in"], "voxels"), CoordinateSystem(spec["out"], "world"),
                           np.array(spec["aff"], dtype=float))
    return Image(data, cmap, {"header": {"descrip": "c02"}, "note": [1, 2]}), data


def meta_probe(res, src):
    """edit the metadata of every image in `res` the way a caller would (a new key, a new header through the
    deprecated `header` property): the snapshots of `src` and of every earlier object must not notice"""
    items = res if isinstance(res, (list, tuple)) else [res]
    for it in items:
        md = getattr(it, "metadata", None)
        if md is None or it is src or not hasattr(it, "coordmap"):
            continue
        md["probe"] = md.get("probe", 0) + 1
        try:
            it.header = dict(it.header, touched=md["probe"])
        except AttributeError:
            pass


def with_layout(data, layout):
    """the same array values in another memory layout (what `Image` is handed is a view)"""
    if layout == "F":
        return np.asfortranarray(data)
    if layout == "strided":          # every second element of a larger buffer along every axis
        big = np.zeros(tuple(2 * s for s in data.shape), dtype=data.dtype)
        view = big[tuple(slice(None, None, 2) for _ in data.shape)]
        view[...] = data
        return view
    if layout == "neg":              # negative strides along every axis
        rev = tuple(slice(None, None, -1) for _ in data.shape)
        return np.ascontiguousarray(data[rev])[rev]
    if layout == "offset":           # a window of a larger buffer
        big = np.zeros(tuple(s + 2 for s in data.shape), dtype=data.dtype)
        view = big[tuple(slice(1, s + 1) for s in data.shape)]
        view[...] = data
        return view
    if layout == "readonly":
        d = np.array(data, copy=True)
        d.setflags(write=False)
        return d
    return data


def fresh_copy(img):
    """an independent image object with the same content (own array, own coordinate map)"""
    from nipy.core.api import AffineTransform, CoordinateSystem, Image
    cmap = AffineTransform(CoordinateSystem(list(img.axes.coord_names), img.axes.name),
                           CoordinateSystem(list(img.reference.coord_names), img.reference.name),
                           np.array(img.affine, dtype=float, copy=True))
    return Image(np.array(img.get_fdata(), copy=True), cmap)


def py_slicer(atoms, bare):
    out = []
    for a in atoms:
        if a[0] == "I":
            out.append(int(a[1]))
        elif a[0] == "S":
            out.append(slice(a[1], a[2], a[3]))
        else:
            out.append(Ellipsis)
    return out[0] if (bare is True and len(out) == 1) else tuple(out)


def _ornt_list(o):
    return [None if np.isnan(v) else int(v) for v in o]


def ornt_of(aff, fix0):
    """first column of io_orientation as list of int / None ([] when it cannot be computed)"""
    from nibabel.orientations import io_orientation
    from nipy.core.reference.coordinate_map import _fix0
    try:
        a = _fix0(aff) if fix0 else aff
        return _ornt_list(io_orientation(a)[:, 0])
    except Exception:
        return []


def is_monomial(aff, fix0):
    """linear part (after _fix0 when asked) has at most one non-zero entry per row and column"""
    from nipy.core.reference.coordinate_map import _fix0
    a = np.asarray(_fix0(aff) if fix0 else aff, dtype=float)[:-1, :-1]
    nz = a != 0
    return bool(np.all(nz.sum(axis=0) <= 1) and np.all(nz.sum(axis=1) <= 1))


_IO_SRC = None


def polar_and_keys(aff):
    """the polar factor `R` io_orientation computes and the keys that order its loop
    (nibabel's own lines up to the loop)"""
    global _IO_SRC
    import numpy.linalg as npl
    from nibabel.orientations import io_orientation
    if _IO_SRC is None:
        _IO_SRC = inspect.getsource(io_orientation)
    affine = np.asarray(aff)
    q, p = affine.shape[0] - 1, affine.shape[1] - 1
    RZS = affine[:q, :p]
    zooms = np.sqrt(np.sum(RZS * RZS, axis=0))
    zooms[zooms == 0] = 1
    RS = RZS / zooms
    P, S, Qs = npl.svd(RS, full_matrices=False)
    tol = S.max() * max(RS.shape) * np.finfo(S.dtype).eps
    keep = S > tol
    R = np.dot(P[:, keep], Qs[keep])
    if "argsort" in _IO_SRC:
        keys = np.min(-(R ** 2), axis=0)
    else:                                  # older nibabel: input axes in their own order
        keys = np.zeros(p)
    return R, keys


def xyz_params(img):
    """the three io_orientation results as_xyz_image looks at (replaying its steps)"""
    from nipy.core.reference import spaces as rsp
    o0 = ornt_of(img.affine, False)
    o1, o2 = [], []
    try:
        order = rsp.xyz_order(img.coordmap.function_range, N2X)
        reo = img.reordered_reference(order)
        o1 = ornt_of(reo.affine, False)
        cur = np.array([np.inf if v is None else v for v in o1], dtype=float)
        if {0, 1, 2}.issubset(cur):
            reo2 = reo.reordered_axes(list(np.argsort(cur)))
            o2 = ornt_of(reo2.affine, False)
    except Exception:
        pass
    return o0, o1, o2


ARG_MUT = []


def apply_op(img, op):
    """run one operation of the real code; returns the result (Image or array scalar; for
    iter_axis the list of what the generator yields with asarray=False).  Arguments the caller
    hands over (order lists, slice tuples) are compared with a copy afterwards: a change is noted in
    `ARG_MUT` (read and cleared by `one_op`)."""
    import copy as _copy
    held = []

    def keep(x):
        held.append((x, _copy.deepcopy(x)))
        return x
    res = None
    try:
        res = _apply_op(img, op, keep)
        return res
    finally:
        for now, before in held:
            if repr(now) != repr(before):
                ARG_MUT.append(f"{op[0]} changed the argument it was given: {before!r} -> {now!r}")
        # "the result is a value": editing the list the caller handed over afterwards, or the affine
        # array of the result in place, moves neither the result nor the source
        if hasattr(res, "coordmap") and res is not img:
            st, st_src = t_state(res), t_state(img)
            for now, _ in held:
                if isinstance(now, list) and len(now) > 1:
                    now.reverse()
            if t_state(res) != st:
                ARG_MUT.append(f"{op[0]}: the result changed when the caller edited the order list afterwards")
            A = res.coordmap.affine
            if isinstance(A, np.ndarray) and A.flags.writeable:
                old = A.copy()
                A[:-1, -1] += 1
                moved = t_state(img) != st_src
                A[...] = old
                if moved:
                    ARG_MUT.append(f"{op[0]}: the result shares its affine array with its source (an in-place "
                                   f"edit of the result's affine moved the source)")


def _apply_op(img, op, keep):
    from nipy.core.image import image as im
    from nipy.core.image.image_spaces import as_xyz_image
    k = op[0]
    if k == "G":
        if op[2] == "sub":
            return im.subsample(img, im.slice_maker[py_slicer(op[1], False)])
        return img[keep(py_slicer(op[1], op[2]))]
    if k == "RA":
        return img.reordered_axes(None if op[1] is None else keep(list(op[1])))
    if k == "RR":
        return img.reordered_reference(None if op[1] is None else keep(list(op[1])))
    if k == "NA":
        return img.renamed_axes(**{a: b for a, b in op[1]})
    if k == "NR":
        return img.renamed_reference(**{a: b for a, b in op[1]})
    if k == "RI":
        return im.rollimg(img, op[1], op[2])
    if k == "RX":
        return im.rollaxis(img, op[1], op[2])
    if k == "SY":
        from types import SimpleNamespace
        from nipy.core.api import CoordinateSystem
        tgt = SimpleNamespace(axes=CoordinateSystem(op[1], "voxels"),
                              coordmap=SimpleNamespace(function_range=CoordinateSystem(op[2], "world")))
        return im.synchronized_order(img, tgt, axes=op[3], reference=op[4])
    if k == "IT":
        return list(im.iter_axis(img, op[1]))
    if k == "XY":
        return as_xyz_image(img, N2X)
    raise ValueError("unknown op " + str(k))


def _isperm(o, n):
    return sorted(o) == list(range(n))


def axis_status(a, inn, outn, is_start=False):
    n = len(inn)
    if isinstance(a, int):
        if -n <= a < n or (is_start and a == n):
            return "ok"
        return "either" if is_start else "refuse"
    if a in inn:
        return "either" if a in outn else "ok"
    return "either" if a in outn else "refuse"


def expect(op, shape, inn, outn):
    """'ok' (must succeed), 'refuse' (not a valid request), 'either' (a documented refusal is legal)"""
    n, m = len(inn), len(outn)
    k = op[0]
    if k == "G":
        atoms = op[1]
        ne = [a for a in atoms if a[0] != "E"]
        if len(atoms) - len(ne) > 1 or len(ne) > n:
            return "refuse"
        if len(atoms) != len(ne):
            i = [a[0] for a in atoms].index("E")
            atoms = atoms[:i] + [FULL] * (n - len(ne)) + atoms[i + 1:]
        atoms = atoms + [FULL] * (n - len(atoms))
        names = []
        for a, s, nm in zip(atoms, shape, inn):
            if a[0] == "I":
                if not -s <= a[1] < s:
                    return "refuse"
                names.append(nm)
            else:
                if a[3] == 0:
                    return "refuse"
                r = range(*slice(a[1], a[2], a[3]).indices(s))
                if len(r) == 0:
                    return "refuse"
                names.append(nm + "-slice" if (len(r) > 1 and r.step > 1) else nm)
        return "ok" if len(set(names)) == len(names) else "either"
    if k in ("RA", "RR"):
        names, d = (inn, n) if k == "RA" else (outn, m)
        o = op[1]
        if o is None:
            return "ok" if (k == "RA" or n == m) else "refuse"
        if len(o) and isinstance(o[0], str):
            return "ok" if sorted(o) == sorted(names) else "refuse"
        if not all(isinstance(i, int) for i in o):
            return "refuse"
        return "ok" if _isperm([i + d if i < 0 else i for i in o], d) else "refuse"
    if k in ("NA", "NR"):
        names = inn if k == "NA" else outn
        mp = dict((a, b) for a, b in op[1])
        if not set(mp) <= set(names):
            return "refuse"
        new = [mp.get(x, x) for x in names]
        return "ok" if len(set(new)) == len(new) else "refuse"
    if k == "RI":
        s = [axis_status(op[1], inn, outn), axis_status(op[2], inn, outn, True)]
        return "refuse" if "refuse" in s else ("either" if "either" in s else "ok")
    if k == "IT":
        return axis_status(op[1], inn, outn)
    if k == "RX":
        a, inv = op[1], op[2]
        if inv:
            if not isinstance(a, int):
                return "refuse"
            return "ok" if (n == m and -n <= a <= n) else "either"
        if isinstance(a, int):
            if not -n <= a < n:
                return "refuse"
            return "ok" if n == m else "either"
        if a not in inn and a not in outn:
            return "refuse"
        return "ok" if (n == m and not (a in inn and a in outn)) else "either"
    if k == "SY":
        ok = (not op[3] or sorted(op[1]) == sorted(inn)) and (not op[4] or sorted(op[2]) == sorted(outn))
        return "ok" if ok else "refuse"
    return "either"


# ----------------------------------------------------------------------
# text for the model
# ----------------------------------------------------------------------
def t_opt(v):
    return "_" if v is None else str(int(v))


def t_axis(a):
    return f"I {a}" if isinstance(a, int) else f"S {a}"


def t_optaxis(a):
    return "N" if a is None else t_axis(a)


def t_ornt(o):
    return f"{len(o)} " + " ".join(t_opt(v) for v in o) if o else "0"


def is_orth(aff, fix0):
    """columns of the linear part (after _fix0 when asked) are mutually orthogonal and every
    comparison io_orientation makes on them is decided with a margin (see c02_ext.orth_status)"""
    from nipy.core.reference.coordinate_map import _fix0
    from harness.props import c02_ext
    a = np.asarray(_fix0(aff) if fix0 else aff, dtype=float)[:-1, :-1]
    return a.size > 0 and c02_ext.orth_status(a) == "orth"


def t_orntsrc(aff, fix0=True):
    """`M` (the model computes the orientation itself) for affines with a monomial linear part, `Q`
    (the same, without SVD) for affines with mutually orthogonal columns, otherwise the orientation
    nibabel computed"""
    if is_monomial(aff, fix0):
        return "M"
    if is_orth(aff, fix0):
        return "Q"
    return t_ornt(ornt_of(aff, fix0))


def t_order(o):
    if o is None:
        return "N"
    if len(o) and isinstance(o[0], str):
        return f"S {len(o)} " + " ".join(o)
    return f"I {len(o)} " + " ".join(str(i) for i in o)


def t_op(op, img):
    k = op[0]
    if k == "G":
        at = []
        for a in op[1]:
            at.append("I %d" % a[1] if a[0] == "I" else ("E" if a[0] == "E" else
                      "S %s %s %s" % (t_opt(a[1]), t_opt(a[2]), t_opt(a[3]))))
        return f"G {len(at)} " + " ".join(at)
    if k in ("RA", "RR"):
        return f"{k} " + t_order(op[1])
    if k in ("NA", "NR"):
        return f"{k} {len(op[1])} " + " ".join(f"{a} {b}" for a, b in op[1])
    if k == "RI":
        return f"RI {t_axis(op[1])} {t_axis(op[2])} {t_orntsrc(img.affine)}"
    if k == "RX":
        return f"RX {t_axis(op[1])} {1 if op[2] else 0}"
    if k == "SY":
        return (f"SY {len(op[1])} " + " ".join(op[1]) + f" {len(op[2])} " + " ".join(op[2])
                + f" {1 if op[3] else 0} {1 if op[4] else 0}")
    if k == "IT":
        return f"IT {t_axis(op[1])} {op[2]} {t_orntsrc(img.affine)} {1 if (len(op) > 3 and op[3]) else 0}"
    if k == "XY":
        pairs = sorted((a, XYZI[b]) for a, b in N2X.items())
        head = f"XY {len(pairs)} " + " ".join(f"{a} {b}" for a, b in pairs)
        if is_monomial(img.affine, False):
            return head + " M"
        if is_orth(img.affine, False):
            return head + " Q"
        o0, o1, o2 = xyz_params(img)
        return head + f" O {t_ornt(o0)} {t_ornt(o1)} {t_ornt(o2)}"
    raise ValueError(k)


def t_arr(a):
    a = np.asarray(a)
    return "A " + " ".join(str(s) for s in a.shape) + " | " + " ".join(fr(v) for v in a.ravel().tolist())


def t_state(res):
    if hasattr(res, "coordmap"):
        aff = np.asarray(res.affine)
        d = np.asarray(res.get_fdata()).ravel()
        return ("S " + " ".join(str(s) for s in res.shape) + " | " + " ".join(res.axes.coord_names) + " | "
                + " ".join(res.reference.coord_names) + " | "
                + " ".join(fr(v) for v in aff[:-1].ravel().tolist()) + " | "
                + " ".join(fr(v) for v in d.tolist()))
    return "V " + fr(np.asarray(res).item())


def t_list(il):
    return "L %d" % len(il.list) + "".join(" || " + t_state(x) for x in il.list)


def t_image(spec):
    aff = np.array(spec["aff"], dtype=float)
    n = int(np.prod(spec["shape"]))
    nout, nin = aff.shape[0] - 1, aff.shape[1] - 1
    return (f"{len(spec['shape'])} " + " ".join(str(s) for s in spec["shape"]) + f" {nin} " + " ".join(spec["in"])
            + f" {nout} " + " ".join(spec["out"]) + f" {nout} {nin + 1} "
            + " ".join(fr(v) for v in aff[:-1].ravel().tolist())
            + f" {n} " + " ".join(str(spec.get("base", 0) + i) for i in range(n)))


def t_mat(m):
    m = np.asarray(m, dtype=float)
    return f"{m.shape[0]} {m.shape[1]} " + " ".join(fr(v) for v in m.ravel().tolist())


# ----------------------------------------------------------------------
# property oracle on the real code
# ----------------------------------------------------------------------
def check_against_original(res, img0, data0, base, refmap, what, may_drop=False):
    """every value of `res` at the named world coordinates it has in the original image
    (`may_drop`: reference coordinates may have been dropped, the others must agree)"""
    if not hasattr(res, "coordmap"):
        v = np.asarray(res).item()
        if not (base <= v < base + data0.size and float(v).is_integer()):
            return f"{what}: value {v} is not a value of the original image"
        return None
    d = np.asarray(res.get_fdata())
    if tuple(d.shape) != tuple(res.shape) or len(res.shape) != res.coordmap.ndims[0]:
        return (f"{what}: array shape {d.shape} does not match the coordmap input dimension "
                f"{res.coordmap.ndims[0]}")
    vals = d.ravel()
    k = vals - base
    if np.any(k != np.round(k)) or np.any(k < 0) or np.any(k >= data0.size):
        return f"{what}: result holds a value that is not in the original image ({vals[:8].tolist()}…)"
    k = k.astype(int)
    if len(set(k.tolist())) != k.size:
        return f"{what}: a value of the original image appears more than once in the result"
    idx = np.indices(d.shape).reshape(d.ndim, -1).T
    w = np.asarray(res.coordmap(idx.astype(float))).reshape(idx.shape[0], -1)
    idx0 = np.array(np.unravel_index(k, data0.shape)).T
    w0 = np.asarray(img0.coordmap(idx0.astype(float))).reshape(idx0.shape[0], -1)
    names, names0 = list(res.reference.coord_names), list(img0.reference.coord_names)
    back = [refmap.get(nm) for nm in names]
    got = sorted(x for x in back if x is not None)
    if None in back or len(set(got)) != len(got) or not set(got) <= set(names0) or \
            (not may_drop and got != sorted(names0)):
        return f"{what}: reference coordinates {names} do not correspond to the original {names0}"
    cols = [names0.index(b) for b in back]
    ref = w0[:, cols]
    tol = 1e-9 * (1.0 + float(np.abs(ref).max()) if ref.size else 1.0)
    bad = np.nonzero(np.abs(w - ref).max(axis=1) > tol)[0] if w.size else []
    if len(bad):
        j = int(bad[0])
        return (f"{what}: value {vals[j]} is at {dict(zip(back, w[j].tolist()))} in the result but at "
                f"{dict(zip(back, ref[j].tolist()))} in the original image")
    return None


def check_iteration(els, arrs, img0, data0, base, refmap, shape, what):
    """all elements of an iteration (asarray False: `els`; True: `arrs` or None)"""
    seen = set()
    fail = None
    for i, el in enumerate(els):
        f = check_against_original(el, img0, data0, base, refmap, f"{what} element {i}")
        vals = set(np.asarray(el.get_fdata() if hasattr(el, "coordmap") else el).ravel().tolist())
        if f is None and seen & vals:
            f = f"{what}: elements of the iteration share the value {sorted(seen & vals)[0]}"
        seen |= vals
        fail = fail or f
    if len(seen) != int(np.prod(shape)):
        fail = fail or f"{what}: iteration visits {len(seen)} of {int(np.prod(shape))} values"
    if arrs is not None:
        if len(arrs) != len(els):
            fail = fail or f"{what}: asarray=True yields {len(arrs)} elements, asarray=False {len(els)}"
        for i, (a, el) in enumerate(zip(arrs, els)):
            d = np.asarray(el.get_fdata() if hasattr(el, "coordmap") else el)
            if np.asarray(a).shape != d.shape or not np.array_equal(np.asarray(a), d):
                fail = fail or f"{what}: asarray=True element {i} differs from the data of the image element"
    return fail


def img_snapshot(img):
    return Snapshot(data=np.asarray(img.get_fdata()), aff=img.affine, inn=list(img.axes.coord_names),
                    out=list(img.reference.coord_names), meta=img.metadata)


def _tok_same(x, y):
    """token-wise equal; numbers may differ by rounding (1e-9)"""
    if x == y:
        return True
    xs, ys = x.split(), y.split()
    if len(xs) != len(ys):
        return False
    for a, b in zip(xs, ys):
        if a == b:
            continue
        try:
            fa, fb = float(frac(a)), float(frac(b))
        except Exception:
            return False
        if abs(fa - fb) > 1e-9 * (1 + max(abs(fa), abs(fb))):
            return False
    return True


class C02(PropertyCheck):
    id = "C02"
    title = "Image manipulations keep every value at its world position"
    lean_modules = ["NipyVerif.Props.C02", "NipyVerif.Props.C02B", "NipyVerif.Props.C02C",
                    "NipyVerif.Props.C02Source", "NipyVerif.Props.C02Polar"]
    driver = "Drivers/C02.lean"
    rule = ("a case is an image (1..5-D incl. all-singleton and one-proper-axis shapes, arange data, integer/"
            "dyadic affine: diagonal, flipped, signed permutation, oblique, zero-TR; optional extra output "
            "axis; axis names shared with reference names on purpose) and (seq) a history of 1..6 operations "
            "drawn from a seeded PRNG against the names/shape of the current image (~12 % malformed requests), "
            "(prog) a program applying operations to ANY earlier object of a store, interleaved, (iter) a "
            "complete iter_axis with asarray False/True for an axis identifier, (ilist) ImageList.from_image + "
            "list operations, (fromarray / pslice / bbox / ornt / orntm) the helpers; every ndim 1..5 x every "
            "axis identifier (int incl. negative and out of range, input name, output name, unknown) x asarray "
            "x dropout is enumerated on fixed images in both tiers; thorough adds every slice atom of one axis "
            "for shapes (3), (2,3), (3,3,2). Wave 3: arange data presented in f8 / f4 / i8 / i4 / i2 / i1 / u1 / u2 / "
            "u4 (when the values fit) and as C / Fortran / strided / negative-stride / offset-window / read-only "
            "arrays; sheared (one axis leaking into another world coordinate) and rotated (3-4-5 x zooms) "
            "affines; (progx) programs of 2..10 instructions on ANY object made so far over the whole operation "
            "language - every history operation, index tuples holding None / lists / arrays / floats / strings / "
            "NumPy integer scalars, rollimg(..., fix0), ImageList.from_image(axis, dropout)[a:b:c]...[i], "
            "re-observation of earlier objects, get_fdata / np.asarray / __array__, iter_axis(asarray=True) "
            "elements, from_image(...).get_list_data(axis); (acm) ArrayCoordMap(cmap, shape)[index] alone incl. "
            "refusals on several axes at once, empty source axes, all-integer indices, with values / "
            "transposed_values; (grid / fromshape) Grid[np.ogrid notation: real, negative, complex steps, missing "
            "stop, zero step, wrong number of slices, integer and float bounds] and ArrayCoordMap.from_shape; "
            "(xyzaff) xyz_affine on 2..5-D images; (ornto) io_orientation on integer / dyadic matrices with "
            "mutually orthogonal columns; (rt) round trips rollimg(a, s) / back, rollaxis / inverse, reorder / "
            "inverse order, rename / back, shuffle / synchronized_order. Wave 4: affines with magnitudes far from 1 "
            "(2^12 ... 2^-12 scaled signed permutations with a leak, offsets up to 65536); every generated image "
            "carries metadata (a header dictionary and a list) and after every successful operation the "
            "result's metadata are edited the way a caller would (new key, `img.header = ...`): the byte "
            "digests of the source and of every earlier object now include their metadata; (xbool, oracle only) "
            "index tuples holding a boolean selector. Non-trivial = at least one operation "
            "succeeded and the image has more than one voxel; distinct by JSON of the case")
    assumptions = [
        "nibabel.io_orientation: the SVD (polar factor R of the column-normalised linear part) is a parameter; "
        "the loop after it (processing order, allclose test, argmax with ties, row zeroing) is modelled and "
        "compared with nibabel on every generated affine; for affines whose linear part is monomial (scaled "
        "signed partial permutation, incl. zero-TR through _fix0) the model computes the whole orientation "
        "itself (R = sign pattern) and no parameter is passed; for affines whose columns are mutually "
        "orthogonal (rotations x zooms; `Q` in the protocol) the model computes the orientation itself too, "
        "in rational arithmetic on squared entries (orthOrnt; proved equal to the loop run on the "
        "column-normalised matrix, which is a partial isometry and hence its own polar factor - that last "
        "step is now a theorem, Props/C02Polar.polar_factor_of_partial_isometry: for EVERY decomposition "
        "RS = P diag(S) Qs with orthonormal columns of P, orthonormal rows of Qs, S >= 0, the singular values "
        "are 0 or 1 and P[:, S > tol] @ Qs[S > tol] = RS for every 0 < tol < 1; what remains a parameter is "
        "that LAPACK's output satisfies the SVD equations up to rounding, compared numerically on every "
        "case); the harness uses `Q` only when every comparison of the loop is decided with a margin (unique "
        "largest entry per column, different columns prefer different rows): on exact ties floating-point "
        "rounding inside the SVD decides and the orientation is passed as a parameter; for all other affines "
        "the harness passes the orientations computed for the very affines the implementation sees, and the "
        "theorems hold for every value of that parameter",
        "np.dot with the selection / permutation / scaling matrices built by _slice, reordered_domain/range "
        "is modelled by its column/row action (exact on the integer and dyadic affines generated)",
        "NumPy basic indexing / transpose / rollaxis are compared through the data they return (arange data, "
        "all values distinct), not modelled below the level of `a[start + k*step]` and axis permutation",
        "'the original image is left unchanged' on the real code is an oracle (byte digests of data, affine, "
        "names of every object before/after every operation, results equal to those on a fresh copy); on the "
        "model side the store theorems (exec_keeps_objects, exec_outcome_fresh) and naturality in the voxel "
        "values (step_natural: no operation looks at or depends on values) state it",
        "as_xyz_image's np.allclose(extra columns, 0) and orth_axes' |x| > 1e-5 are modelled as exact tests "
        "against 0",
        "the model follows the code with proposed_fixes/C02-*.patch applied (negative axis numbers)",
        "get_list_data is modelled for lists whose items have one shape (what from_image and list slicing "
        "produce); NumPy broadcasting of unequal items is outside the model",
        "index kinds: a list / integer array entry is modelled as an in-range fancy index (NumPy accepts it, "
        "ArrayCoordMap refuses it); boolean selectors (Python / NumPy booleans, boolean masks as arrays and "
        "lists, 0-1 integer lists, thresholded scores) are outside the model: they are generated as the "
        "oracle-only kind `xbool` (any documented refusal is legal - nipy refuses all of them today -, an "
        "accepted one must satisfy the property); NumPy integer scalars are plain integers to the model",
        "np.ogrid (inside Grid.__getitem__) is modelled by its documented arithmetic: ceil((stop-start)/step) "
        "points for a real step, n points for a step nj, missing stop -> AttributeError (NumPy's fallback on "
        "the tuple), zero step -> ZeroDivisionError; only tuple indices (what from_shape passes) are modelled, "
        "a bare slice (np.ogrid then returns one array that nipy iterates element-wise) is not",
        "memory layout and dtype of the data array are invisible to the model (values only): the harness "
        "presents the same numbers in nine dtypes and six layouts and compares values",
        "tie (a): Gen/C02Source.lean is regenerated from the source text before every build; Python list "
        "primitives are read as their documented meaning (`list.remove(x)` = erase the first x, "
        "`list.insert(p, x)` = the model's pyInsert, `l[::-1]` = reverse, `n * (slice(None),)` = replicate with "
        "negative n giving the empty tuple, `a[i:]` / `a[:i]` = drop / take for 0 <= i); a source shape the "
        "translator does not recognise is a broken tie (TieBroken), never a silent default",
        "the frame theorem (manipulations_write_through_no_parameter) is syntactic: it scans 46 functions (the "
        "manipulation functions of image.py / image_list.py / image_spaces.py / array_coords.py and the "
        "coordinate_map.py functions they call) for writes through a parameter or through a name that may share "
        "memory with one (attributes, subscripts, method calls other than copy / astype / ..., NumPy's "
        "view-making functions); control flow is not followed (only an unconditional top-level rebinding to a "
        "fresh value ends an alias); writes inside NumPy / nibabel / unscanned functions and aliasing through "
        "results of other free functions are not seen by it - the oracle's byte digests cover those on the "
        "generated cases",
    ]
    level_note = ("proved (Lean, all inputs): slice arithmetic and the index map of every slice tuple; reorder / "
                  "rename / rollimg / rollaxis / synchronized_order / iter_axis (partition) / ImageList "
                  "(from_image partition with and without dropout, list slicing / indexing / setitem, "
                  "get_list_data bijection) / subsample / fromarray / make_xyz_image / plane slices / "
                  "bounding_box; `history_sound` (linear histories) and `prog_sound` (programs over the whole "
                  "operation language on a store of objects, incl. every index kind, rollimg fix0, ImageList "
                  "items, data access: every object and every outcome is derived from the original image - "
                  "values at their named world coordinates, nothing duplicated or invented - and objects "
                  "never change); ArrayCoordMap.__getitem__ (= the coordinate map of the image slice, own "
                  "error order), values / transposed_values, Grid / from_shape world positions; xyz_affine "
                  "gives the x, y, z of every voxel; as_xyz_image's result is xyz-affable; rollimg(a) / "
                  "rollimg(0, a+1) and reorder / inverse-order round trips give the image back; naturality in "
                  "the voxel values. parameters: the io_orientation result for affines that are neither "
                  "monomial nor (decisively) orthogonal-columned - as_xyz_image and output-name axis resolution "
                  "are proved for every value of it (they can only reorder or refuse). For orthogonal columns "
                  "the orientation is computed by the model (orth_ornt_is_io_orientation_loop, "
                  "orth_columns_partial_isometry); the identification of nibabel's SVD-based polar factor with "
                  "the normalised matrix is proved for every exact singular value decomposition "
                  "(Props/C02Polar: singular_values_of_partial_isometry, polar_factor_of_partial_isometry, over "
                  "Mathlib matrices on the reals); only LAPACK's rounding is numerical. Tie (a), Props/C02Source (50 theorems over "
                  "terms regenerated from the source text): np.transpose and reordered_domain get the same "
                  "permutation (reordered_axes_synchronised / _as_modelled, skip-when-identity is the identity), "
                  "data and ArrayCoordMap get the same index (getitem_index_synchronised / getitem_as_modelled), "
                  "the order lists of rollimg / rollaxis (both directions) are the model's for every ndim / axis / "
                  "start, Ellipsis expansion + padding = acmExpand for every index tuple, the three branches of "
                  "_slice give (effStep, start, len, kept) for every non-empty selection, the -slice rule, "
                  "get_list_data's refusal test / axis correction / shape, Grid.__getitem__'s (step, start), the "
                  "origin / column vectors / ticks of xslice, yslice, zslice = planeSlice, integer axis "
                  "identifiers of input_axis_index / io_axis_indices, from_image's dropout flag; the order lists "
                  "as regenerated are permutations for every ndim / axis / start (rollimg_order_is_permutation, "
                  "rollaxis_*_is_permutation) and the coordmap's Ellipsis expansion is NumPy's on every index "
                  "NumPy accepts (coordmap_expansion_is_numpy_expansion); iter_axis, synchronized_order, "
                  "ImageList.from_image, as_xyz_image, input_axis_index / io_axis_indices / axmap / drop_io_dim, "
                  "the name resolution of rollaxis, signatures and defaults statement by statement. 'The original is left unchanged' / 'caller-supplied order lists and "
                  "index tuples are not modified' are now also a syntactic frame theorem on the text "
                  "(manipulations_write_through_no_parameter: no statement of the 46 scanned functions - the "
                  "manipulations and their coordinate_map.py callees - writes through a parameter or a possible "
                  "alias of one; the 4 exceptions - two integer `axis +=`, ImageList's iterator "
                  "state, a reshape of a fresh array - are listed and touch no image). Still oracle-only, with "
                  "the reason: the same facts on the real objects below the text of these files (writes inside "
                  "NumPy / coordinate_map.py callees, views sharing memory: byte digests incl. metadata, "
                  "fresh-copy comparison, re-observation); refusal *classes* of requests outside the quantifier "
                  "(the model computes them and the correspondence compares them line by line, the property "
                  "says nothing about them, so there is nothing to prove beyond 'refused'); dtype / memory "
                  "layout independence (NumPy's strided indexing is below the model: step_natural proves the "
                  "model never looks at values, the nine dtypes x six layouts are compared); Image.__eq__ of a "
                  "result with the result on a fresh copy (Image.__eq__ ignores the reference names, so it is "
                  "weaker than the model's state comparison and only a sanity clause)")

    # ------------------------------------------------------------------ tie (a): source text -> Lean
    def translators(self):
        from harness.core import REPO, TieBroken
        from harness.props import c02_translate
        return c02_translate.translate(REPO, TieBroken)

    # ------------------------------------------------------------------
    def fixed_images(self):
        """one image per ndim 1..5 and naming style, for the enumerations"""
        out = []
        shapes = {1: [3], 2: [2, 3], 3: [2, 1, 3], 4: [2, 3, 1, 2], 5: [2, 1, 3, 1, 2]}
        for nd in range(1, 6):
            for style in range(3):
                inn = [list("ijklm"), ["x", "j", "z", "l", "m"], list("abcde")][style][:nd]
                outn = [list("xyztu"), list("xyztu"), ["mx", "my", "mz", "t", "u"]][style][:nd]
                aff = np.eye(nd + 1)
                if style == 0:       # diagonal, flipped, offsets
                    for k in range(nd):
                        aff[k, k] = [2, -3, 0.5, 4, 1][k]
                        aff[k, nd] = [1, -2, 3, 0, 5][k]
                elif style == 1:     # signed permutation (cyclic shift)
                    aff[:nd, :nd] = 0
                    for k in range(nd):
                        aff[(k + 1) % nd, k] = [1, -2, 3, 0.5, -1][k]
                else:                # oblique
                    for k in range(nd):
                        aff[k, k] = [2, 3, 1, 2, 1][k]
                    if nd >= 2:
                        aff[0, 1] = 1
                    if nd >= 3:
                        aff[2, 0] = -0.5
                out.append({"shape": shapes[nd], "in": inn, "out": outn, "aff": aff.tolist(),
                            "base": 0, "dtype": "f8"})
        return out

    def axis_ids(self, spec):
        n = len(spec["shape"])
        return list(range(-n - 1, n + 1)) + list(spec["in"]) + [x for x in spec["out"] if x not in spec["in"]] \
            + ["nosuch"]

    def generate(self, rng, tier):
        q = tier == "quick"
        nseq, nslice = (3200, 300) if q else (40000, 4000)
        nprog, nilist, niter = (700, 500, 300) if q else (6000, 6000, 3000)
        nhelp = 120 if q else 1500
        cases = []
        for _ in range(nseq):
            cases.append({"kind": "seq", "gen": rng.randrange(1 << 40),
                          "nops": rng.choice([1, 1, 2, 3, 4, 5, 6])})
        for _ in range(nprog):
            cases.append({"kind": "prog", "gen": rng.randrange(1 << 40), "n": rng.choice([2, 3, 4, 5, 6, 8])})
        for _ in range(nslice):
            n = rng.choice([1, 2, 3, 4, 5, 7])
            cases.append({"kind": "slice", "n": n,
                          "a": rng.choice([None] + list(range(-n - 3, n + 4))),
                          "b": rng.choice([None] + list(range(-n - 3, n + 4))),
                          "c": rng.choice([None, 1, 2, 3, 4, -1, -2, -3, -4, 0])})
        # enumerations: every ndim x axis identifier x asarray / dropout
        for spec in self.fixed_images():
            nd = len(spec["shape"])
            for ax in self.axis_ids(spec):
                for flag in (False, True):
                    cases.append({"kind": "iter", "img": spec, "axis": ax, "asarray": flag})
                    nit = spec["shape"][ax] if isinstance(ax, int) and -nd <= ax < nd else 2
                    cases.append({"kind": "ilist", "img": spec, "axis": ax, "dropout": flag,
                                  "lops": gen_lops(rng, nit, nd - 1)})
                for inv in (False, True):
                    cases.append({"kind": "seq", "img": spec, "ops": [["RX", ax, inv]]})
                for st in ([0, nd, -1] if q else list(range(-nd, nd + 1)) + spec["in"][:1] + spec["out"][-1:]):
                    cases.append({"kind": "seq", "img": spec, "ops": [["RI", ax, st]]})
            cases.append({"kind": "ilist", "img": spec, "axis": None, "dropout": True, "lops": []})
        # random images
        for _ in range(niter):
            spec = gen_image(rng, small=True)
            n = len(spec["shape"])
            cases.append({"kind": "iter", "img": spec, "axis": gen_axis(rng, n, spec["in"], spec["out"]),
                          "asarray": rng.random() < 0.6})
        for _ in range(nilist):
            spec = gen_image(rng, small=True)
            n = len(spec["shape"])
            ax = gen_axis(rng, n, spec["in"], spec["out"]) if rng.random() < 0.97 else None
            nit = spec["shape"][ax] if isinstance(ax, int) and -n <= ax < n else rng.choice([1, 2, 3])
            cases.append({"kind": "ilist", "img": spec, "axis": ax, "dropout": rng.random() < 0.6,
                          "lops": gen_lops(rng, nit, n - 1)})
        for _ in range(nhelp):
            # fromarray
            nd = rng.choice([1, 2, 3, 4])
            shape = [rng.choice([1, 2, 3]) for _ in range(nd)]
            inn = rng.choice(IN_POOLS)[:nd]; outn = rng.choice(OUT_POOLS)[:nd]
            r = rng.random()
            if r < 0.1:
                inn = inn[:-1]
            elif r < 0.2:
                outn = outn + ["extra"]
            elif r < 0.3 and nd > 1:
                inn = [inn[0]] + inn[:-1]
            elif r < 0.35:
                inn, outn = inn + ["p"], outn + ["q"]
            cases.append({"kind": "fromarray", "shape": shape, "in": inn, "out": outn,
                          "base": rng.choice([0, 3, -4])})
            # make_xyz_image
            nd = rng.choice([2, 3, 3, 4, 4, 5])
            shape = [rng.choice([1, 2, 3]) for _ in range(nd)]
            xyz = np.eye(4)
            xyz[:3, :3] = [[rng.choice([0, 0, 1, -1, 2, 0.5, -3]) for _ in range(3)] for _ in range(3)]
            xyz[:3, 3] = [rng.choice([0, 1, -2.5, 10]) for _ in range(3)]
            r = rng.random()
            zooms = None if r < 0.4 else [rng.choice([1, 2, 0.5, 0, -1]) for _ in range(max(0, nd - 3))]
            if zooms is not None and rng.random() < 0.15:
                zooms = zooms + [3]
            cases.append({"kind": "mkxyz", "shape": shape, "xyz": xyz.tolist(), "zooms": zooms,
                          "world": rng.choice(["scanner", "mni", "talairach", "aligned"]), "base": rng.choice([0, 5])})
            # plane slices + their bounding box
            def spec1():
                no = rng.choice([1, 2, 2, 3, 3, 5, 9])
                lo = rng.choice([-8, -2.5, 0, 1, 4])
                step = rng.choice([0, 0.5, 1, 2, -1, -0.25])
                return [lo, lo + step * (no - 1), no]
            cases.append({"kind": "pslice", "which": rng.randrange(3), "fixed": rng.choice([0, 30, -7.5, 2]),
                          "a": spec1(), "b": spec1(), "world": rng.choice(["scanner", "mni", "xyz"])})
            # bounding box of an image and of a slice of it
            spec = gen_image(rng, small=True)
            cases.append({"kind": "bbox", "img": spec, "sl": gen_getitem(rng, spec["shape"])[1],
                          "shape": None if rng.random() < 0.85 else
                          rng.choice([spec["shape"][:-1], spec["shape"] + [2], [0] + spec["shape"][1:]])})
            # io_orientation
            spec = gen_image(rng, small=True)
            cases.append({"kind": "ornt", "aff": spec["aff"], "fix": rng.random() < 0.5})
        from harness.props import c02_ext
        cases.extend(c02_ext.generate(rng, tier))
        if tier == "thorough":
            for shape in ([3], [2, 3], [3, 3, 2]):
                spec0 = {"shape": shape, "in": list("ijk")[: len(shape)], "out": list("xyz")[: len(shape)],
                         "base": 0, "dtype": "f8"}
                nd = len(shape)
                aff = np.eye(nd + 1)
                for k in range(nd):
                    aff[k, k] = [2, -3, 0.5][k]
                    aff[k, nd] = [1, -2, 3][k]
                if nd == 3:
                    aff[0, 1] = 1; aff[2, 0] = -1
                spec0["aff"] = aff.tolist()
                for ax in range(nd):
                    n = shape[ax]
                    atoms = [["I", i] for i in range(-n - 1, n + 1)]
                    rng_ = [None] + list(range(-n - 1, n + 2))
                    atoms += [["S", a, b, c] for a in rng_ for b in rng_
                              for c in (None, 1, 2, 3, -1, -2, -3)]
                    for at in atoms:
                        full = [FULL] * nd
                        full[ax] = at
                        cases.append({"kind": "seq", "img": spec0, "ops": [["G", full, False]]})
        return cases

    # ------------------------------------------------------------------
    def materialise(self, case):
        """explicit image + operations of a seeded case (the operations are drawn against the names
        and shape the real code produced so far)"""
        if "gen" not in case:
            return case
        warnings.filterwarnings("ignore")
        rng = random.Random(case["gen"])
        spec = gen_image(rng)
        img, _ = build_image(spec)
        if case["kind"] == "prog":
            objs, instrs = [img], []
            for _ in range(case["n"]):
                src = 0 if rng.random() < 0.45 else rng.randrange(len(objs))
                g = objs[src]
                op = gen_op(rng, list(g.shape), list(g.axes.coord_names), list(g.reference.coord_names))
                try:
                    res = apply_op(g, op)
                except Exception:
                    instrs.append([src, op])
                    continue
                if op[0] == "IT":
                    op = ["IT", op[1], (op[2] % len(res)) if len(res) else 0, op[3]]
                    res = res[op[2]] if res else None
                instrs.append([src, op])
                if hasattr(res, "coordmap"):
                    objs.append(res)
            return {"kind": "prog", "img": spec, "instrs": instrs}
        ops = []
        for _ in range(case["nops"]):
            op = gen_op(rng, list(img.shape), list(img.axes.coord_names), list(img.reference.coord_names))
            try:
                res = apply_op(img, op)
            except Exception:
                ops.append(op)
                break
            if op[0] == "IT":
                op = ["IT", op[1], (op[2] % len(res)) if len(res) else 0, op[3]]
                res = res[op[2]] if res else None
            ops.append(op)
            if not hasattr(res, "coordmap"):
                break
            img = res
        return {"kind": "seq", "img": spec, "ops": ops}

    # ------------------------------------------------------------------
    def one_op(self, img, op, what, img0, data0, base, refmap):
        """run `op` on `img`: (result or None, observation, tag, failure, mutation, new refmap)"""
        from nipy.core.image import image as im
        shape, inn, outn = list(img.shape), list(img.axes.coord_names), list(img.reference.coord_names)
        exp = expect(op, shape, inn, outn)
        snap = img_snapshot(img)
        fail = mut = None
        asarr = op[0] == "IT" and len(op) > 3 and op[3]
        arrs, arr_obs = None, ""
        if asarr:
            try:
                arrs = list(im.iter_axis(img, op[1], asarray=True))
                k = op[2]
                arr_obs = " ## " + (t_arr(arrs[k]) if k < len(arrs) else "E error:indexError")
            except Exception as e:   # noqa: BLE001
                arr_obs = " ## E " + errname(e)
                if exp == "ok":
                    fail = (f"{what}: iter_axis(..., asarray=True) raised {type(e).__name__}: {e} for the valid "
                            f"axis {op[1]!r} of an image with shape {shape}, axes {inn}, reference {outn}")
                elif type(e).__name__ not in LEGAL_REFUSALS:
                    fail = f"{what}: unexpected {type(e).__name__}: {e} for iter_axis(..., asarray=True), {op}"
        affable = None
        if op[0] == "XY":
            from nipy.core.image.image_spaces import is_xyz_affable
            affable = bool(is_xyz_affable(img, N2X))
            arr_obs = " ## X " + ("1" if affable else "0")
        try:
            res = apply_op(img, op)
        except Exception as e:   # noqa: BLE001 - every refusal is an observation
            cls = type(e).__name__
            if affable:
                fail = fail or f"{what}: as_xyz_image raised {cls}: {e} although is_xyz_affable(img) is True"
            if exp == "ok":
                fail = fail or (f"{what}: {cls}: {e} raised for a valid request {op} on an image with shape "
                                f"{shape}, axes {inn}, reference {outn}")
            elif cls not in LEGAL_REFUSALS:
                fail = fail or f"{what}: unexpected {cls}: {e} for {op}"
            return None, "E " + errname(e) + arr_obs, f"{op[0]}:refused", fail, None, refmap
        meta_probe(res, img)
        ch = snap.changed()
        if ch:
            mut = f"{what} changed its input image ({ch})"
        if ARG_MUT:
            mut = mut or f"{what}: " + ARG_MUT[0]
            del ARG_MUT[:]
        tag = f"{op[0]}:ok" + ("" if exp == "ok" else f"({exp})") + (":asarray" if asarr else "")
        if op[0] == "XY":
            from nipy.core.image.image_spaces import is_xyz_affable
            if affable and res is not img:
                fail = fail or f"{what}: the image is xyz-affable but as_xyz_image did not return it unchanged"
            if not is_xyz_affable(res, N2X):
                fail = fail or f"{what}: the image as_xyz_image returned is not xyz-affable"
        if op[0] == "NR":
            mp = dict((a, b) for a, b in op[1])
            refmap = {mp.get(nm, nm): refmap[nm] for nm in outn}
        if op[0] == "IT":
            fail = fail or check_iteration(res, arrs, img0, data0, base, refmap, shape, what)
            res = res[op[2]]
        else:
            fail = fail or check_against_original(res, img0, data0, base, refmap, what)
        return res, t_state(res) + arr_obs, tag, fail, mut, refmap

    def run_case(self, case):
        warnings.filterwarnings("ignore")
        kind = case["kind"]
        if kind == "slice":
            return self._slice(case)
        if kind in ("iter", "ilist", "fromarray", "pslice", "bbox", "ornt", "mkxyz"):
            return getattr(self, "_" + kind)(case)
        if kind in ("progx", "acm", "grid", "fromshape", "xyzaff", "ornto", "rt", "xbool"):
            from harness.props import c02_ext
            if kind == "progx" and "gen" in case:
                case = c02_ext.materialise_progx(case)
            return c02_ext.RUNNERS[kind](self, case)
        c = self.materialise(case)
        if kind == "prog":
            return self._prog(c)
        spec, ops = c["img"], c["ops"]
        img0, data0 = build_image(spec)
        base = spec.get("base", 0)
        snap0 = img_snapshot(img0)
        refmap = {nm: nm for nm in img0.reference.coord_names}
        img = img0
        toks, obs, tags = [], [], []
        fail, mut = None, None
        ok_ops = 0
        for step_no, op in enumerate(ops):
            toks.append(t_op(op, img))
            res, ob, tag, f, m, refmap = self.one_op(img, op, f"step {step_no} {op[0]}", img0, data0, base, refmap)
            obs.append(ob); tags.append(tag)
            fail = fail or f
            mut = mut or m
            if res is None:
                break
            ok_ops += 1
            if not hasattr(res, "coordmap"):
                tags.append("scalar")
                break
            img = res
        ch = snap0.changed()
        if ch:
            mut = mut or f"the original image changed ({ch})"
        if mut:
            fail = fail or mut
        line = "seq " + t_image(spec) + f" {len(toks)} " + " ".join(toks)
        return {"lines": [line] if toks else [], "impl": [obs] if toks else [], "oracle": fail,
                "nontrivial": ok_ops >= 1 and data0.size > 1, "tags": sorted(set(tags)) + [f"nd={data0.ndim}"],
                "mutated": mut}

    # ------------------------------------------------------------------
    def _prog(self, c):
        """operations applied to any earlier object, interleaved: every result must be what the
        operation gives on a fresh copy of its source, and no object may ever change"""
        spec, instrs = c["img"], c["instrs"]
        img0, data0 = build_image(spec)
        base = spec.get("base", 0)
        objs = [img0]
        snaps = [img_snapshot(img0)]
        refmaps = [{nm: nm for nm in img0.reference.coord_names}]
        toks, obs, tags = [], [], ["prog"]
        fail = mut = None
        ok_ops = 0
        for no, (src, op) in enumerate(instrs):
            if src >= len(objs):
                toks.append(f"{src} " + t_op(op, objs[0])); obs.append("E error:indexError")
                continue
            g = objs[src]
            toks.append(f"{src} " + t_op(op, g))
            what = f"instruction {no} ({op[0]} on object {src})"
            fresh = fresh_copy(g)
            res, ob, tag, f, m, rm = self.one_op(g, op, what, img0, data0, base, refmaps[src])
            obs.append(ob); tags.append(tag)
            fail = fail or f
            mut = mut or m
            # the same request on a fresh copy of the source
            res2, ob2, _, _, _, _ = self.one_op(fresh, op, what + " [fresh copy]", img0, data0, base, refmaps[src])
            if hasattr(res, "coordmap") and hasattr(res2, "coordmap") and (not (res == res2) or (res != res2)):
                fail = fail or f"{what}: Image.__eq__ says the result differs from the result on a fresh copy"
            if hasattr(res, "coordmap") and hasattr(res2, "coordmap") and \
                    (not (res.coordmap == res2.coordmap) or (res.coordmap != res2.coordmap)):
                fail = fail or f"{what}: the coordinate map differs from the one obtained on a fresh copy"
            if ob2 != ob:
                fail = fail or (f"{what}: result on the object that was used before differs from the result "
                                f"on a fresh copy: {ob[:160]!r} vs {ob2[:160]!r}")
            if res is not None:
                ok_ops += 1
                if hasattr(res, "coordmap"):
                    objs.append(res); snaps.append(img_snapshot(res)); refmaps.append(rm)
        for i, s in enumerate(snaps):
            ch = s.changed()
            if ch:
                mut = mut or f"object {i} of the store changed after it was made ({ch})"
        if mut:
            fail = fail or mut
        line = "prog " + t_image(spec) + f" {len(toks)} " + " ".join(toks)
        return {"lines": [line] if toks else [], "impl": [obs] if toks else [], "oracle": fail,
                "nontrivial": ok_ops >= 1 and data0.size > 1,
                "tags": sorted(set(tags)) + [f"nd={data0.ndim}", f"objs={min(len(objs), 5)}"], "mutated": mut}

    def _iter(self, c):
        from nipy.core.image import image as im
        spec, ax, flag = c["img"], c["axis"], c["asarray"]
        img0, data0 = build_image(spec)
        base = spec.get("base", 0)
        shape, inn, outn = list(img0.shape), list(img0.axes.coord_names), list(img0.reference.coord_names)
        exp = axis_status(ax, inn, outn)
        refmap = {nm: nm for nm in outn}
        snap = img_snapshot(img0)
        fail = None
        what = f"iter_axis(axis={ax!r}, asarray={flag})"
        els = arrs = None
        try:
            els = list(im.iter_axis(img0, ax))
        except Exception as e:   # noqa: BLE001
            ob = "E " + errname(e)
            if exp == "ok":
                fail = f"{what}: {type(e).__name__}: {e} for a valid axis of an image with shape {shape}"
            elif type(e).__name__ not in LEGAL_REFUSALS:
                fail = f"{what}: unexpected {type(e).__name__}: {e}"
        if flag:
            try:
                arrs = list(im.iter_axis(img0, ax, asarray=True))
                ob = " ;; ".join(t_arr(a) for a in arrs)
            except Exception as e:   # noqa: BLE001
                ob = "E " + errname(e)
                if exp == "ok" or els is not None:
                    fail = fail or (f"{what}: {type(e).__name__}: {e} although the axis is valid for an image "
                                    f"with shape {shape}, axes {inn}, reference {outn}")
                elif type(e).__name__ not in LEGAL_REFUSALS:
                    fail = fail or f"{what}: unexpected {type(e).__name__}: {e}"
        elif els is not None:
            ob = " ;; ".join(t_state(e) for e in els)
        if els is not None:
            fail = fail or check_iteration(els, arrs, img0, data0, base, refmap, shape, what)
        mut = None
        if snap.changed():
            mut = f"{what} changed the image ({snap.changed()})"
            fail = fail or mut
        line = f"iterall {t_image(spec)} {t_axis(ax)} {t_orntsrc(img0.affine)} {1 if flag else 0}"
        return {"lines": [line], "impl": [[ob]], "oracle": fail, "nontrivial": els is not None and data0.size > 1,
                "tags": [f"iter:{'ok' if els is not None else 'refused'}" + (":asarray" if flag else ""),
                         f"nd={data0.ndim}"], "mutated": mut}

    def _ilist(self, c):
        from nipy.core.api import ImageList
        spec, ax, drop, lops = c["img"], c["axis"], c["dropout"], c["lops"]
        img0, data0 = build_image(spec)
        base = spec.get("base", 0)
        shape, inn, outn = list(img0.shape), list(img0.axes.coord_names), list(img0.reference.coord_names)
        n = len(shape)
        refmap = {nm: nm for nm in outn}
        snap = img_snapshot(img0)
        fail = None
        tags = []
        what = f"ImageList.from_image(axis={ax!r}, dropout={drop})"
        # text for the model: orientation of the image and of its slices
        o_txt = t_orntsrc(img0.affine)
        os_txt = "0"
        try:
            from nipy.core.reference.coordinate_map import io_axis_indices
            in_ax, _ = io_axis_indices(img0.coordmap, ax) if ax is not None else (None, None)
        except Exception:
            in_ax = None
        contradictory = False
        if in_ax is not None and n >= 2 and -n <= in_ax < n:
            from nipy.core.image.image import rollimg
            sl_aff = np.asarray(rollimg(img0, in_ax)[0].affine)     # _slice zeroes length-1 axes
            os_txt = t_orntsrc(sl_aff, False)
            # the output axis to drop is still the closest output of a remaining input axis
            # (rank-deficient / strongly oblique affine): dropping it is contradictory, any refusal is legal
            o_full = ornt_of(img0.affine, True)
            out_ax = o_full[in_ax] if in_ax < len(o_full) else None
            contradictory = out_ax is not None and out_ax in ornt_of(sl_aff, False)
        if ax is None:
            exp = "refuse"
        else:
            exp = axis_status(ax, inn, outn)
            if n == 1 and exp != "refuse":
                exp = "refuse1d"          # the slices of a 1-D image are not images
            elif exp == "ok" and drop:
                exp = "either"            # drop_io_dim refuses non-orthogonal axes
        obs = []
        il = None
        try:
            il = ImageList.from_image(img0, ax, dropout=drop)
            obs.append(t_list(il))
            tags.append("from_image:ok" + ("" if exp == "ok" else f"({exp})"))
        except Exception as e:   # noqa: BLE001
            cls = type(e).__name__
            obs.append("E " + errname(e))
            tags.append("from_image:refused")
            if exp == "ok":
                fail = f"{what}: {cls}: {e} for a valid axis of an image with shape {shape}, axes {inn}, reference {outn}"
            elif exp == "refuse1d":
                if cls not in ("AttributeError", "ValueError", "AxisError"):
                    fail = f"{what}: unexpected {cls}: {e} for a 1-D image"
            elif exp == "either" and axis_status(ax, inn, outn) == "ok" and cls != "AxisError" \
                    and not (contradictory and cls == "ValueError"):
                # a valid axis: the only documented refusal is drop_io_dim's AxisError (axis not orthogonal)
                fail = (f"{what}: {cls}: {e} for a valid axis of an image with shape {shape}, axes {inn}, "
                        f"reference {outn}, affine {np.asarray(img0.affine).tolist()}")
            elif cls not in LEGAL_REFUSALS + ("KeyError",):
                fail = f"{what}: unexpected {cls}: {e}"
        if il is not None:
            if exp in ("refuse", "refuse1d"):
                fail = fail or f"{what}: accepted although the request is not valid"
            # every item against the original, the items together cover the image exactly once
            seen = set()
            for i, it in enumerate(il.list):
                f = check_against_original(it, img0, data0, base, refmap, f"{what} item {i}", may_drop=drop)
                vals = set(np.asarray(it.get_fdata()).ravel().tolist())
                if f is None and seen & vals:
                    f = f"{what}: items share the value {sorted(seen & vals)[0]}"
                seen |= vals
                if f is None and not drop and list(it.reference.coord_names) != outn:
                    f = f"{what}: dropout=False changed the reference {outn} -> {list(it.reference.coord_names)}"
                fail = fail or f
            if len(seen) != data0.size:
                fail = fail or f"{what}: the items hold {len(seen)} of {data0.size} values"
            cur = il
            for no, lop in enumerate(lops):
                lw = f"{what} then list op {no} {lop}"
                try:
                    if lop[0] == "LI":
                        r = cur[int(lop[1])]
                        if r is not cur.list[int(lop[1])]:
                            fail = fail or f"{lw}: not the item stored at that position"
                        obs.append(t_state(r))
                    elif lop[0] == "LS":
                        r = cur[slice(lop[1], lop[2], lop[3])]
                        want = cur.list[slice(lop[1], lop[2], lop[3])]
                        if len(r.list) != len(want) or any(a is not b for a, b in zip(r.list, want)):
                            fail = fail or f"{lw}: the new list does not hold the selected items"
                        obs.append(t_list(r))
                        cur = r
                    elif lop[0] == "LO":
                        kind_ = lop[1] if cur.list else "list"     # an empty list fails earlier
                        idx = {"list": [0], "array": np.array([0, 0]), "tuple": (0,), "npint": np.int64(0),
                               "bool": False}[kind_]
                        r = cur[idx]
                        obs.append(t_list(r) if hasattr(r, "list") else t_state(r))
                    elif lop[0] == "LW":
                        if len(cur) == 0:                                    # ImageList.__len__
                            raise IndexError("empty list")
                        cur[int(lop[1])] = cur.list[lop[2] % len(cur)]      # ImageList.__setitem__
                        obs.append(t_list(cur))
                    elif lop[0] in ("LD", "LA"):
                        a = lop[1] if lop[0] == "LD" else 0
                        r = cur.get_list_data(axis=a) if lop[0] == "LD" else cur.__array__()
                        obs.append(t_arr(r))
                        ish = tuple(cur.list[0].shape)
                        ap = a + len(ish) + 1 if a < 0 else a
                        if r.shape != ish[:ap] + (len(cur.list),) + ish[ap:]:
                            fail = fail or f"{lw}: shape {r.shape}"
                        else:
                            for i, it in enumerate(cur.list):
                                if not np.array_equal(np.take(r, i, axis=ap), np.asarray(it.get_fdata())):
                                    fail = fail or f"{lw}: position {i} along axis {ap} is not the data of item {i}"
                                    break
                    else:
                        r = [x for x in cur]
                        if len(r) != len(cur.list) or any(a is not b for a, b in zip(r, cur.list)):
                            fail = fail or f"{lw}: iteration does not yield the items in order"
                        obs.append("L %d" % len(r) + "".join(" || " + t_state(x) for x in r))
                    tags.append(lop[0] + ":ok")
                except Exception as e:   # noqa: BLE001
                    obs.append("E " + errname(e))
                    tags.append(lop[0] + ":refused")
                    cls = type(e).__name__
                    nl = len(cur.list)
                    valid = (lop[0] in ("LI", "LW") and -nl <= lop[1] < nl) or (lop[0] == "LS" and lop[3] != 0) or \
                        lop[0] == "LN" or (lop[0] == "LA" and nl > 0) or \
                        (lop[0] == "LD" and nl > 0 and lop[1] is not None and
                         -len(cur.list[0].shape) - 1 <= lop[1] <= len(cur.list[0].shape))
                    if valid:
                        fail = fail or f"{lw}: {cls}: {e} for a valid request on a list of {nl} items"
                    elif cls not in ("IndexError", "ValueError", "TypeError"):
                        fail = fail or f"{lw}: unexpected {cls}: {e}"
        mut = None
        if snap.changed():
            mut = f"{what} changed the image ({snap.changed()})"
            fail = fail or mut
        lt = []
        nl_t = len(il.list) if il is not None else 0      # length of the current list, replayed
        for lop in (lops if il is not None else []):
            if lop[0] == "LW":
                # an empty list cannot be written to: the real code raised before reading an item
                lt.append(f"LW {lop[1]} {lop[2] % nl_t}" if nl_t else "LI 0")
            elif lop[0] == "LA":
                lt.append("LD 0")
            elif lop[0] == "LI":
                lt.append(f"LI {lop[1]}")
            elif lop[0] == "LS":
                lt.append(f"LS {t_opt(lop[1])} {t_opt(lop[2])} {t_opt(lop[3])}")
                if lop[3] != 0:
                    nl_t = len(range(*slice(lop[1], lop[2], lop[3]).indices(nl_t)))
            elif lop[0] == "LO":
                lt.append("LO")
            elif lop[0] == "LD":
                lt.append(f"LD {t_opt(lop[1])}")
            else:
                lt.append("LN")
        line = (f"ilist {t_image(spec)} {t_optaxis(ax)} {1 if drop else 0} {o_txt} {os_txt} {len(lt)} "
                + " ".join(lt)).rstrip()
        return {"lines": [line], "impl": [obs], "oracle": fail,
                "nontrivial": il is not None and data0.size > 1,
                "tags": sorted(set(tags)) + [f"nd={data0.ndim}"], "mutated": mut}

    def _fromarray(self, c):
        from nipy.core.image import image as im
        shape, inn, outn, base = c["shape"], c["in"], c["out"], c["base"]
        n = int(np.prod(shape))
        data = (np.arange(n, dtype=float) + base).reshape(shape)
        snap = Snapshot(data=data)
        valid = len(inn) == len(outn) == len(shape) and len(set(inn)) == len(inn) and len(set(outn)) == len(outn)
        fail = None
        try:
            img = im.fromarray(data, inn, outn)
            ob = t_state(img)
            if not valid:
                fail = f"fromarray accepted names {inn} / {outn} for an array of shape {shape}"
            else:
                idx = np.indices(data.shape).reshape(data.ndim, -1).T.astype(float)
                if not np.array_equal(np.asarray(img.coordmap(idx)).reshape(idx.shape), idx) or \
                        not np.array_equal(np.asarray(img.get_fdata()), data) or \
                        not np.array_equal(img.__array__(), data):
                    fail = "fromarray: a voxel is not at the world position given by its own index"
        except Exception as e:   # noqa: BLE001
            ob = "E " + errname(e)
            if valid:
                fail = f"fromarray: {type(e).__name__}: {e} for valid names {inn} / {outn}, shape {shape}"
            elif type(e).__name__ != "ValueError":
                fail = f"fromarray: unexpected {type(e).__name__}: {e}"
        mut = "fromarray changed its array" if snap.changed() else None
        line = (f"fromarray {len(shape)} " + " ".join(map(str, shape)) + f" {n} "
                + " ".join(str(base + i) for i in range(n)) + f" {len(inn)} " + " ".join(inn)
                + f" {len(outn)} " + " ".join(outn))
        return {"lines": [line], "impl": [[ob]], "oracle": fail or mut, "nontrivial": valid,
                "tags": ["fromarray:" + ("ok" if ob[0] == "S" else "refused")], "mutated": mut}

    def _mkxyz(self, c):
        from nipy.core.image.image_spaces import make_xyz_image
        from nipy.core.reference.spaces import get_world_cs
        shape, xyz, zooms, world, base = c["shape"], np.array(c["xyz"], dtype=float), c["zooms"], c["world"], c["base"]
        n = int(np.prod(shape))
        N = len(shape)
        data = (np.arange(n, dtype=float) + base).reshape(shape)
        snap = Snapshot(data=data, xyz=xyz)
        valid = N >= 3 and (zooms is None or len(zooms) == N - 3)
        fail = None
        try:
            arg = xyz if zooms is None else (xyz, tuple(float(z) for z in zooms))
            img = make_xyz_image(data, arg, world)
            ob = t_state(img)
            if not valid:
                fail = f"make_xyz_image accepted shape {shape} with zooms {zooms}"
            else:
                idx = np.indices(data.shape).reshape(N, -1).T.astype(float)
                w = np.asarray(img.coordmap(idx)).reshape(idx.shape[0], -1)
                want = np.zeros_like(w)
                want[:, :3] = idx[:, :3] @ xyz[:3, :3].T + xyz[:3, 3]
                for k in range(3, N):
                    want[:, k] = idx[:, k] * (1.0 if zooms is None else zooms[k - 3])
                if not np.allclose(w, want) or not np.array_equal(np.asarray(img.get_fdata()), data):
                    fail = "make_xyz_image: a voxel is not where the xyz affine / the zooms put it"
                # round trip: when xyz_affine accepts the image, it gives the matrix back
                from nipy.core.image.image_spaces import xyz_affine
                try:
                    back = np.asarray(xyz_affine(img))
                except Exception:
                    back = None
                if back is not None and not np.array_equal(back, xyz):
                    fail = fail or f"xyz_affine(make_xyz_image(data, A, world)) = {back.tolist()} differs from A"
        except Exception as e:   # noqa: BLE001
            ob = "E " + errname(e)
            if valid:
                fail = f"make_xyz_image: {type(e).__name__}: {e} for shape {shape}, zooms {zooms}"
            elif type(e).__name__ != "ValueError":
                fail = f"make_xyz_image: unexpected {type(e).__name__}: {e}"
        try:
            names = list(get_world_cs(world, N).coord_names)
        except Exception:
            names = ["w%d" % k for k in range(N)]
        mut = "make_xyz_image changed its arguments" if snap.changed() else None
        line = (f"mkxyz {N} " + " ".join(map(str, shape)) + f" {n} " + " ".join(str(base + i) for i in range(n))
                + " " + t_mat(xyz[:3]) + (" N" if zooms is None else f" Z {len(zooms)} " + " ".join(fr(z) for z in zooms))
                + f" {len(names)} " + " ".join(names)).replace("  ", " ")
        return {"lines": [line], "impl": [[ob]], "oracle": fail or mut, "nontrivial": valid,
                "tags": ["mkxyz:" + ("ok" if ob[0] == "S" else "refused")], "mutated": mut}

    def _pslice(self, c):
        from nipy.core.reference import slices as sl
        w, fixed, a, b, world = c["which"], c["fixed"], c["a"], c["b"], c["world"]
        fn = [sl.xslice, sl.yslice, sl.zslice][w]
        wid = world
        if world == "xyz":
            from nipy.core.api import CoordinateSystem
            wid = CoordinateSystem("xyz", "w")
        fail = None
        valid = a[2] != 1 and b[2] != 1
        names = ["w1", "w2", "w3"]
        try:
            cm = fn(float(fixed), ([float(a[0]), float(a[1])], int(a[2])), ([float(b[0]), float(b[1])], int(b[2])), wid)
            names = list(cm.function_range.coord_names)
            box = sl.bounding_box(cm, (a[2], b[2]))
            ob = ("C " + " ".join(cm.function_domain.coord_names) + " | " + " ".join(names) + " | "
                  + " ".join(fr(v) for v in np.asarray(cm.affine)[:-1].ravel().tolist())
                  + " ## B " + " ".join(fr(v) for lim in box for v in lim))
            # the documented meaning: corner voxels at the (min, min) and (max, max) of the two ranges
            lo = np.asarray(cm([0, 0])); hi = np.asarray(cm([a[2] - 1, b[2] - 1]))
            order = [[0, 1, 2], [1, 0, 2], [2, 0, 1]][w]     # fixed, first range, second range
            want_lo = np.zeros(3); want_hi = np.zeros(3)
            want_lo[order] = [fixed, a[0], b[0]]; want_hi[order] = [fixed, a[1], b[1]]
            if not (np.allclose(lo, want_lo) and np.allclose(hi, want_hi)):
                fail = f"{fn.__name__}: corners at {lo.tolist()} / {hi.tolist()}, expected {want_lo.tolist()} / {want_hi.tolist()}"
            wb = [(min(x, y), max(x, y)) for x, y in zip(want_lo, want_hi)]
            if not np.allclose(np.array(box), np.array(wb)):
                fail = fail or f"bounding_box of {fn.__name__}: {box}, expected {wb}"
        except Exception as e:   # noqa: BLE001
            ob = "E " + errname(e)
            if valid:
                fail = f"{fn.__name__}: {type(e).__name__}: {e} for ranges {a}, {b}"
            elif type(e).__name__ != "ZeroDivisionError":
                fail = f"{fn.__name__}: unexpected {type(e).__name__}: {e}"
        if ob[0] == "E":
            from nipy.core.reference.spaces import get_world_cs
            names = list(get_world_cs(wid).coord_names)
        line = (f"pslice {w} {fr(fixed)} {fr(a[0])} {fr(a[1])} {a[2]} {fr(b[0])} {fr(b[1])} {b[2]} "
                + " ".join(names))
        return {"lines": [line], "impl": [[ob]], "oracle": fail, "nontrivial": valid,
                "tags": [f"pslice{w}:" + ("ok" if ob[0] == "C" else "refused")], "mutated": None}

    def _bbox(self, c):
        from nipy.core.reference import slices as sl
        spec = c["img"]
        img0, data0 = build_image(spec)
        shape = c["shape"] if c["shape"] is not None else list(img0.shape)
        valid = len(shape) == img0.ndim and 0 not in shape
        fail = None
        lines, impl, tags = [], [], []

        def brute(img, shp):
            from nipy.core.reference.array_coords import ArrayCoordMap
            w = np.asarray(ArrayCoordMap(img.coordmap, tuple(shp)).values).reshape(int(np.prod(shp)), -1)
            return [(float(w[:, r].min()), float(w[:, r].max())) for r in range(w.shape[1])]

        try:
            box = sl.bounding_box(img0.coordmap, tuple(shape))
            ob = "B " + " ".join(fr(v) for lim in box for v in lim)
            if not valid:
                fail = f"bounding_box accepted shape {shape} for a {img0.ndim}-D coordinate map"
            elif not np.allclose(np.array(box), np.array(brute(img0, shape))):
                fail = f"bounding_box {box} is not the range of the voxel positions {brute(img0, shape)}"
        except Exception as e:   # noqa: BLE001
            ob = "E " + errname(e)
            box = None
            if valid:
                fail = f"bounding_box: {type(e).__name__}: {e} for shape {shape}"
            elif type(e).__name__ not in ("ValueError", "IndexError"):
                fail = f"bounding_box: unexpected {type(e).__name__}: {e}"
        lines.append("bbox " + t_mat(np.asarray(img0.affine)[:-1]) + f" {len(shape)} " + " ".join(map(str, shape)))
        impl.append([ob]); tags.append("bbox:" + ("ok" if ob[0] == "B" else "refused"))
        # a slice of the image lies inside the box of the image (same reference coordinates)
        if box is not None and valid and c["shape"] is None:
            try:
                sub = img0[py_slicer(c["sl"], False)]
            except Exception:
                sub = None
            if sub is not None and hasattr(sub, "coordmap"):
                b2 = sl.bounding_box(sub.coordmap, sub.shape)
                lines.append("bbox " + t_mat(np.asarray(sub.affine)[:-1]) + f" {len(sub.shape)} "
                             + " ".join(map(str, sub.shape)))
                impl.append(["B " + " ".join(fr(v) for lim in b2 for v in lim)])
                tags.append("bbox:slice")
                for (l0, h0), (l1, h1) in zip(box, b2):
                    if l1 < l0 - 1e-9 or h1 > h0 + 1e-9:
                        fail = fail or f"bounding box {b2} of the slice {c['sl']} is not inside {box} of the image"
        return {"lines": lines, "impl": impl, "oracle": fail, "nontrivial": valid and data0.size > 1,
                "tags": tags, "mutated": None}

    def _ornt(self, c):
        from nipy.core.reference.coordinate_map import _fix0
        aff = np.array(c["aff"], dtype=float)
        a = np.asarray(_fix0(aff) if c["fix"] else aff, dtype=float)
        got = "O " + " ".join(t_opt(v) for v in ornt_of(aff, c["fix"]))
        R, keys = polar_and_keys(a)
        lines = ["ornt " + t_mat(R) + f" {len(keys)} " + " ".join(fr(v) for v in keys.tolist())]
        impl = [[got]]
        tags = ["ornt:polar"]
        if is_monomial(aff, c["fix"]):
            lines.append("orntm " + t_mat(aff[:-1, :-1]) + f" {1 if c['fix'] else 0}")
            impl.append([got])
            tags.append("ornt:monomial")
        o = [v for v in ornt_of(aff, c["fix"]) if v is not None]
        fail = None
        if len(set(o)) != len(o):
            fail = f"io_orientation pairs one output axis with two input axes: {o}"
        return {"lines": lines, "impl": impl, "oracle": fail, "nontrivial": True, "tags": tags, "mutated": None}

    def _slice(self, c):
        n, a, b, s = c["n"], c["a"], c["b"], c["c"]
        try:
            got = " ".join(str(int(v)) for v in np.arange(n)[a:b:s].tolist())
        except Exception as e:   # noqa: BLE001
            got = "E " + errname(e)
        line = f"slice {n} {t_opt(a)} {t_opt(b)} {t_opt(s)}"
        return {"lines": [line], "impl": [[got]], "oracle": None, "nontrivial": got not in ("", ) ,
                "tags": ["slice-atom"], "mutated": None}

    # ------------------------------------------------------------------
    def compare(self, case, impl_obs, model_out):
        if model_out == "bad-op":
            return "model could not parse the line"
        m = model_out.split(" ;; ")
        obs = []
        for x in impl_obs:
            obs.extend(x.split(" ;; "))
        for i, (x, y) in enumerate(zip(obs, m)):
            if not _tok_same(x, y):
                return f"step {i}: impl={x[:250]!r} model={y[:250]!r}"
        if len(m) != len(obs):
            return (f"impl has {len(obs)} observations, model {len(m)}: impl={obs[-1][:200]!r} "
                    f"model={m[-1][:200]!r}")
        return None

    def shrink(self, case):
        kind = case.get("kind")
        if kind == "rt":
            yield {"kind": "seq", "img": case["img"], "ops": case["ops"]}
            yield {"kind": "seq", "img": case["img"], "ops": case["ops"][:1]}
        if kind not in ("seq", "prog", "iter", "ilist", "progx", "rt"):
            return
        import harness.overlay  # noqa: F401
        if kind == "progx":
            from harness.props import c02_ext
            c = c02_ext.materialise_progx(case) if "gen" in case else case
        else:
            c = self.materialise(case)
        if "gen" in case:
            yield c
        spec = c["img"]

        def with_img(**kw):
            d = dict(c); d["img"] = dict(spec, **kw); return d
        if kind == "seq":
            ops = c["ops"]
            for i in range(len(ops)):
                if len(ops) > 1:
                    yield {"kind": "seq", "img": spec, "ops": ops[:i] + ops[i + 1:]}
            if len(ops) > 1:
                yield {"kind": "seq", "img": spec, "ops": ops[:-1]}
            for i, op in enumerate(ops):
                if op[0] == "G":
                    for j, at in enumerate(op[1]):
                        if at != FULL and at[0] != "E":
                            atoms = list(op[1]); atoms[j] = FULL
                            yield {"kind": "seq", "img": spec, "ops": ops[:i] + [["G", atoms, False]] + ops[i + 1:]}
        elif kind == "prog":
            ins = c["instrs"]
            if len(ins) > 1:
                yield {"kind": "prog", "img": spec, "instrs": ins[:-1]}
                for s, op in ins:
                    if s == 0:
                        yield {"kind": "seq", "img": spec, "ops": [op]}
                yield {"kind": "prog", "img": spec, "instrs": [i for i in ins if i[0] == 0]}
        elif kind == "progx":
            ins = c["instrs"]
            if len(ins) > 1:
                yield {"kind": "progx", "img": spec, "instrs": ins[:-1]}
                # one instruction dropped (later sources renumbered when it made an object)
                for i in range(len(ins) - 1):
                    if not any(s_ > 0 for s_, _ in ins[i + 1:]):
                        yield {"kind": "progx", "img": spec, "instrs": ins[:i] + ins[i + 1:]}
                yield {"kind": "progx", "img": spec, "instrs": [i for i in ins if i[0] == 0]}
                for s_, pop in ins:
                    if s_ == 0:
                        yield {"kind": "progx", "img": spec, "instrs": [[0, pop]]}
                        if pop[0] == "B":
                            yield {"kind": "seq", "img": spec, "ops": [pop[1]]}
        elif kind == "ilist":
            if c["lops"]:
                yield dict(c, lops=c["lops"][:-1])
                yield dict(c, lops=c["lops"][1:])
        aff = np.array(spec["aff"])
        if np.any(aff[:-1, -1] != 0):
            a2 = aff.copy(); a2[:-1, -1] = 0
            yield with_img(aff=a2.tolist())
        if spec.get("base", 0) != 0:
            yield with_img(base=0)
        if spec.get("dtype", "f8") != "f8":
            yield with_img(dtype="f8")
        if spec.get("layout", "C") != "C":
            yield with_img(layout="C")

    finding_keys = {
        "from-image-singleton-axis":
            "ImageList.from_image(img, axis) with dropout=True raises ValueError ('the number of axes implied by "
            "the coordmap do not match the number of axes of the data') when the slices' affine has exactly one "
            "all-zero column (a length-1 axis, whose step _slice writes as 0, or a zero TR) and the output row "
            "to drop is its only all-zero row: drop_io_dim's _fix0 pairs the two and drops that input axis as "
            "well (fix: proposed_fixes/C02-from-image-singleton-axis.patch)",
    }

    def classify(self, case, failure):
        """the one known defect: from_image + dropout on slices whose affine `_fix0` rewrites"""
        if case.get("kind") != "ilist" or not case.get("dropout") or case.get("axis") is None:
            return None
        if "number of axes implied" not in failure and "error:valueError" not in failure:
            return None
        try:
            import harness.overlay  # noqa: F401
            from nipy.core.image.image import rollimg
            from nipy.core.reference.coordinate_map import _fix0, io_axis_indices
            img0, _ = build_image(case["img"])
            in_ax, _ = io_axis_indices(img0.coordmap, case["axis"])
            if in_ax is None or img0.ndim < 2:
                return None
            sl_aff = np.asarray(rollimg(img0, in_ax)[0].affine)
            if not np.array_equal(np.asarray(_fix0(sl_aff)), sl_aff):
                return "from-image-singleton-axis"
        except Exception:
            return None
        return None


CHECK = C02()
