"""C08 wave 4: `apply` on every representation of a point set, and transforms as values.

Case kind `shape`: one transform object (affine family / ChainTransform / PolyAffine with the global
affine given as a transform or as a float64 / float32 / integer / Fortran-ordered array) applied to
the *same numbers* presented as int8 … int64, uint8 … uint32, float32, float64 arrays, C / Fortran /
strided / negative-stride / last-axis-strided / read-only layouts, nested lists and tuples, and batch
shapes (N, 3) with N = 0, 1, … , (3,), (A, B, 3), (A, 0, 3).  Optionally the object first goes
through `pickle`, `copy.copy`, `copy.deepcopy` or its own `copy()`, and the copy is edited afterwards.

Tie: the model's `apply` / `chain` lines on the rows as exact rationals (batch = row-wise evaluation).
Oracle (on (N, 3) point sets, the property's quantifier): `apply` does not raise, returns the shape it
was given, maps the rows like the same object maps the float64 C-contiguous copy; a pickled / copied
transform maps points like the original and editing it leaves the original's mapping unchanged.
"""
from __future__ import annotations

import copy
import pickle

import numpy as np

from harness.props import c08_ext
from harness.util import Snapshot, errname, frs

INT_DT = ["int8", "int16", "int32", "int64", "uint8", "uint16", "uint32"]
DTYPES = ["float64", "float64", "float32"] + INT_DT
LAYOUTS = ["C", "C", "F", "strided", "neg", "laststrided", "readonly", "list", "tuple"]
SHAPES2 = [[1, 3], [2, 3], [3, 3], [5, 3], [0, 3], [4, 3]]
SHAPES_N = [[3], [2, 2, 3], [1, 1, 3], [2, 0, 3], [3, 1, 2, 3]]
GLOB_KINDS = ["none", "transform", "f64", "f64", "int", "int", "f32", "f32", "fortran", "list"]
# integer-valued 3x4 blocks (so that an integer array holds the matrix exactly), either determinant sign
INT34 = [
    [[1, 0, 0, 0], [0, 1, 0, 0], [0, 0, 1, 0]],
    [[0, -1, 0, 2], [1, 0, 0, -3], [0, 0, 1, 5]],
    [[2, 0, 0, 1], [0, 1, 1, 0], [0, 0, 1, -4]],
    [[0, 1, 0, 7], [1, 0, 0, 0], [0, 0, 1, 1]],
    [[-1, 0, 0, 0], [0, -1, 0, 10], [0, 0, -1, -2]],
    [[1, 2, 0, 3], [0, 1, 0, 0], [-1, 0, 3, 6]],
]


def _vals(rng, dtype, n):
    if dtype.startswith("uint"):
        pool = [0, 1, 2, 3, 7, 16, 100, 200, 255]
    elif dtype == "int8":
        pool = [0, 1, -1, 2, -3, 7, 16, -40, 100, 127, -128]
    else:
        pool = [0, 1, -1, 2, -3, 7, 16, -40, 100, 25, -128, 1000 if dtype not in ("int8",) else 5]
    return [float(rng.choice(pool)) for _ in range(n)]


def gen_shape(rng, n, spec_fn, gen_spec_fn):
    out = []
    for i in range(n):
        r = rng.random()
        target = "affine" if r < 0.45 else ("chain" if r < 0.65 else "poly")
        dtype = rng.choice(DTYPES)
        layout = rng.choice(LAYOUTS)
        shape = rng.choice(SHAPES2) if (target != "affine" or rng.random() < 0.7) else rng.choice(SHAPES_N)
        size = int(np.prod(shape))
        c = {"kind": "shape", "target": target, "dtype": dtype, "layout": layout, "shape": shape,
             "vals": _vals(rng, dtype, size), "via": rng.choice(["apply"] * 5 + ["pickle", "copy", "deepcopy", "own-copy"]),
             "spec": spec_fn(rng, None)}
        if target == "chain":
            def side():
                q = rng.random()
                if q < 0.25:
                    return None
                if q < 0.4:
                    return gen_spec_fn(rng)
                s = spec_fn(rng, None)
                if rng.random() < 0.3:
                    s["as_array"] = True
                return s
            c["pre"], c["post"] = side(), side()
        if target == "poly":
            k = rng.choice([1, 1, 2, 3])
            c["centers"] = [[float(rng.choice([0, 1, -2, 4, 8, -5])) for _ in range(3)] for _ in range(k)]
            c["affs"] = [spec_fn(rng, None) for _ in range(k)]
            c["sigma"] = rng.choice([1.0, 2.0, 4.0, [1.0, 2.0, 4.0], [8.0, 0.5, 2.0]])
            c["glob"] = rng.choice(GLOB_KINDS)
            c["globspec"] = spec_fn(rng, None)
            c["globint"] = rng.choice(INT34)
            c["centers_as"] = rng.choice(["float", "float", "int", "list"])
            # the polyaffine itself, or what compose / left_compose / Affine.compose(polyaffine) return
            c["pcomp"] = rng.choice(["none", "none", "compose", "left", "onto"])
        out.append(c)
    return out


def present(vals, shape, dtype, layout):
    """the numbers `vals` as an array-like of the given dtype / shape / layout"""
    base = np.array(vals, dtype=float).astype(dtype).reshape(shape)
    if base.size == 0 and layout in ("list", "tuple"):
        layout = "C"        # a nested list cannot say "no points of three coordinates each"
    if layout == "C":
        return np.ascontiguousarray(base)
    if layout == "F":
        return np.asfortranarray(base)
    if layout == "strided":
        Z = np.zeros((2 * base.shape[0],) + base.shape[1:], dtype=dtype)
        Z[::2] = base
        return Z[::2]
    if layout == "neg":
        Z = np.ascontiguousarray(base[::-1])
        return Z[::-1]
    if layout == "laststrided":
        Z = np.zeros(base.shape[:-1] + (2 * base.shape[-1],), dtype=dtype)
        Z[..., ::2] = base
        return Z[..., ::2]
    if layout == "readonly":
        X = np.ascontiguousarray(base)
        X.flags.writeable = False
        return X
    if layout == "list":
        return base.tolist()
    if layout == "tuple":
        def tup(x):
            return tuple(tup(y) for y in x) if isinstance(x, list) else x
        return tup(base.tolist())
    raise ValueError(layout)


def install_kernel():
    """/repo's polyaffine.c (rebuilt) behind the argument checks of `_registration.pyx`'s
    `_apply_polyaffine` / `check_array`, re-stated here because the .pyx cannot be rebuilt"""
    import ctypes
    from harness import cshim
    from nipy.algorithms.registration import polyaffine as PA
    lib = cshim.load("registration")
    lib.apply_polyaffine.restype = None

    def check_array(x, dim, exp_dim, xname):
        if not x.flags["C_CONTIGUOUS"] or not x.dtype == "double":
            raise ValueError("%s array should be double C-contiguous" % xname)
        if not dim == exp_dim:
            raise ValueError("%s has size %d in last dimension, %d expected" % (xname, dim, exp_dim))

    def c_apply(xyz, centers, affines, sigma):
        for a in (xyz, centers, affines, sigma):
            if not isinstance(a, np.ndarray):
                raise TypeError("Argument has incorrect type (expected numpy.ndarray)")
        check_array(xyz, xyz.shape[1], 3, "xyz")
        check_array(centers, centers.shape[1], 3, "centers")
        check_array(affines, affines.shape[1], 12, "affines")
        check_array(sigma, sigma.size, 3, "sigma")
        if not centers.shape[0] == affines.shape[0]:
            raise ValueError("centers and affines arrays should have same shape[0]")
        lib.apply_polyaffine(ctypes.py_object(xyz), ctypes.py_object(centers), ctypes.py_object(affines),
                             ctypes.py_object(sigma))
    PA._apply_polyaffine = c_apply
    return PA


class W4Mixin:

    def _shape(self, c):
        from nipy.algorithms.registration.chain_transform import ChainTransform
        build = self._build_spec
        tags = ["shape", "target=" + c["target"], "dtype=" + c["dtype"], "layout=" + c["layout"],
                "ndim=%d" % len(c["shape"]), "via=" + c["via"]]
        rows = np.array(c["vals"], dtype=float).reshape(-1, 3)
        judged = len(c["shape"]) == 2          # (N, 3): the point sets the API documents
        lines, impl = [], []
        fail = None
        what = c["target"]
        try:
            if c["target"] == "affine":
                t = build(c["spec"])
                what = c["spec"]["cls"]
            elif c["target"] == "chain":
                pre, opt, post = build(c["pre"]), build(c["spec"]), build(c["post"])

                def arg(spec, x):
                    return x.as_affine() if (spec and spec.get("as_array")) else x
                t = ChainTransform(opt, pre=arg(c["pre"], pre), post=arg(c["post"], post))
                what = "ChainTransform"
            else:
                PA = install_kernel()
                affs = [build(s) for s in c["affs"]]
                g = c["glob"]
                G = None
                if g == "transform":
                    G = build(c["globspec"])
                elif g in ("f64", "f32", "fortran", "list"):
                    if g == "f32":      # integer-valued, so that float32 holds it exactly
                        M = np.eye(4)
                        M[:3, :] = np.array(c["globint"], dtype=float)
                    else:
                        M = np.asarray(build(c["globspec"]).as_affine(), dtype=float)
                    G = {"f64": M, "f32": M.astype(np.float32), "fortran": np.asfortranarray(M),
                         "list": M.tolist()}[g]
                elif g == "int":
                    G = np.eye(4, dtype=int)
                    G[:3, :] = np.array(c["globint"], dtype=int)
                cen = np.array(c["centers"], dtype=float)
                cen = {"float": cen, "int": cen.astype(int), "list": cen.tolist()}[c["centers_as"]]
                t = PA.PolyAffine(cen, affs, c["sigma"], glob_affine=G)
                what = f"PolyAffine(glob_affine={g})"
                pc = c.get("pcomp", "none")
                if pc == "compose":
                    t = t.compose(build(c["spec"]))
                elif pc == "left":
                    t = t.left_compose(build(c["spec"]))
                elif pc == "onto":
                    t = build(c["spec"]).compose(t)
                if pc != "none":
                    what += f" after {pc}"
                    if type(t) is not PA.PolyAffine:
                        return {"lines": [], "impl": [], "nontrivial": True, "tags": tags + ["pcomp=" + pc],
                                "oracle": f"{what}: the result is a {type(t).__name__}, not a PolyAffine"}
                tags.append("pcomp=" + pc)
        except Exception as e:
            return {"lines": [], "impl": [], "nontrivial": True, "tags": tags + ["build-raised"],
                    "oracle": f"constructing the {what} raised {type(e).__name__}: {e}"}
        t0 = t
        picklable = not any(isinstance(c.get(k), dict) and "gen" in c[k] for k in ("pre", "post"))
        try:
            if c["via"] == "pickle" and picklable:
                t = pickle.loads(pickle.dumps(t0))
            elif c["via"] == "copy":
                t = copy.copy(t0)
            elif c["via"] == "deepcopy" and picklable:
                t = copy.deepcopy(t0)
            elif c["via"] == "own-copy" and hasattr(t0, "copy"):
                t = t0.copy()
        except Exception as e:
            fail = f"{c['via']} of a {what} raised {type(e).__name__}: {e}"
        X = present(c["vals"], c["shape"], c["dtype"], c["layout"])
        ref_in = np.array(rows)           # float64, C-contiguous, (N, 3)
        snap = Snapshot(X=X) if isinstance(X, np.ndarray) else None
        S = 1 + c08_ext.mag(rows)
        y = None
        try:
            y = t.apply(X)
        except Exception as e:
            obs_err = errname(e)
            if judged and fail is None:
                fail = (f"{what}.apply raised {type(e).__name__}: {e} on a {c['dtype']} point set of shape "
                        f"{tuple(c['shape'])} ({c['layout']})")
            tags.append("apply-raised")
        yref = None
        try:
            yref = np.asarray(t0.apply(ref_in), dtype=float)
        except Exception as e:
            if judged and fail is None:
                fail = f"{what}.apply raised {type(e).__name__}: {e} on a float64 (N, 3) array"
        if yref is not None and not (np.all(np.isfinite(yref)) and c08_ext.mag(yref) < 1e12):
            yref = None          # Gaussian weights underflowed (far points): nothing to compare
            tags.append("underflow")
        if yref is not None:
            S = (1 + c08_ext.mag(rows, yref)) * 4
        # model tie (rows as exact rationals)
        if y is not None and c["target"] == "affine":
            M = np.asarray(t0.as_affine(), dtype=float)
            lines.append(f"apply {frs(M[:3, :].ravel().tolist())} {c08_ext.ptok(rows)}")
            impl.append(("vals", np.asarray(y, dtype=float).ravel().tolist(), 1e-10 * S * (1 + c08_ext.mag(M[:3, :]))))
        elif y is not None and c["target"] == "chain":
            lt = self._leaf_tok
            lines.append(f"chain {lt(c['pre'], pre)} {lt(c['spec'], opt)} {lt(c['post'], post)} {c08_ext.ptok(rows)}")
            scale = 1.0
            for x in (pre, opt, post):
                if x is not None and hasattr(x, "as_affine"):
                    scale *= 1 + c08_ext.mag(np.asarray(x.as_affine())[:3, :])
            inter = [rows]
            for x in (pre, opt, post):
                if x is not None:
                    inter.append(np.asarray(x.apply(inter[-1]), dtype=float))
            Sg = (1 + c08_ext.mag(*inter)) ** 2 * scale
            impl.append(("vals", np.asarray(y, dtype=float).ravel().tolist(), 5e-7 * Sg))
            S = max(S, Sg)
        # oracle
        if fail is None and y is not None and yref is not None:
            ya = np.asarray(y)
            if ya.shape != tuple(c["shape"]):
                if judged:
                    fail = f"{what}.apply returned shape {ya.shape} for a point set of shape {tuple(c['shape'])}"
            else:
                d = c08_ext.far(ya.astype(float).reshape(-1, 3), yref.reshape(-1, 3), 1e-9 * S * S)
                if d and (judged or c["target"] == "affine"):
                    fail = (f"{what}.apply maps the {c['dtype']} / {c['layout']} presentation of a point set "
                            f"differently from its float64 copy: {d}")
        if fail is None and t is not t0 and yref is not None:
            try:
                d = c08_ext.far(np.asarray(t.apply(ref_in), dtype=float), yref, 1e-12 * S)
                if d:
                    fail = f"the {c['via']} of a {what} maps points differently from the original: {d}"
                elif type(t) is not type(t0):
                    fail = f"the {c['via']} of a {what} is a {type(t).__name__}"
                elif c["via"] != "copy":        # a shallow copy shares its arrays by definition
                    # editing the copy must leave the original as it was (transforms are values)
                    if hasattr(t, "_vec12"):
                        t.param = np.asarray(t.param) + 1.0
                    elif hasattr(t, "optimizable"):
                        t.param = np.asarray(t.param) + 1.0
                    elif hasattr(t, "_affines"):
                        t._affines += 1.0
                    d = c08_ext.far(np.asarray(t0.apply(ref_in), dtype=float), yref, 1e-12 * S)
                    if d:
                        fail = f"editing the {c['via']} of a {what} changed the original's mapping: {d}"
            except Exception as e:
                fail = f"using the {c['via']} of a {what} raised {type(e).__name__}: {e}"
        if not judged:
            tags.append("batch-shape")
        return {"lines": lines, "impl": impl, "oracle": fail, "nontrivial": rows.size > 0, "tags": tags,
                "mutated": snap.changed() if snap is not None else None}
