"""C07 translator, part 2: the *arithmetic expressions and tests* of the sampling grids, kernels, drifts
and of `_full_rank`, regenerated from the text of /repo as Lean **terms** over `Rat` / `Nat` / `String`
(`lean/NipyVerif/Gen/C07Expr.lean`).  `Props/C07Expr.lean` proves that each term is what the model
computes (`*_as_modelled`): an edit of a source expression changes the generated term, and the
theorem about it stops building.

A source shape the translator does not recognise raises `TieBroken` (never a silent default)."""
from __future__ import annotations

import ast
import os
from fractions import Fraction


class _Tr:
    """Python expression -> Lean term.  `env` maps the source text of a sub-expression to a Lean
    variable (name, type) with type 'Rat' | 'Nat'; every free name must be in `env`."""

    def __init__(self, where, env, TieBroken):
        self.where, self.env, self.T = where, env, TieBroken
        self.used = set()

    def bad(self, node, why="unexpected shape"):
        raise self.T(f"{self.where}: {why}: {ast.unparse(node)}")

    def var(self, node):
        txt = ast.unparse(node)
        if txt in self.env:
            nm, ty = self.env[txt]
            self.used.add(nm)
            return nm, ty
        return None

    def rat(self, node):
        """a Lean term of type Rat"""
        v = self.var(node)
        if v is not None:
            nm, ty = v
            return nm if ty == "Rat" else f"({nm} : Rat)"
        if isinstance(node, ast.Constant) and isinstance(node.value, (int, float)) and not isinstance(node.value, bool):
            q = Fraction(node.value)
            return f"({q.numerator} : Rat)" if q.denominator == 1 else f"(({q.numerator} : Rat) / {q.denominator})"
        if isinstance(node, ast.UnaryOp) and isinstance(node.op, ast.USub):
            return f"(-{self.rat(node.operand)})"
        if isinstance(node, ast.BinOp):
            if isinstance(node.op, ast.Pow):
                e = self.var(node.right)
                if e is None or e[1] != "Nat":
                    self.bad(node, "exponent is not a declared natural number")
                return f"({self.rat(node.left)} ^ {e[0]})"
            op = {ast.Add: "+", ast.Sub: "-", ast.Mult: "*", ast.Div: "/"}.get(type(node.op))
            if op is None:
                self.bad(node, "operator not translated")
            return f"({self.rat(node.left)} {op} {self.rat(node.right)})"
        if isinstance(node, ast.Call) and not node.keywords:
            f = ast.unparse(node.func)
            a = node.args
            if f == "float" and len(a) == 1:
                return self.rat(a[0])
            if f == "int" and len(a) == 1:
                if isinstance(a[0], ast.Call) and len(a[0].args) == 1 and not a[0].keywords:
                    g = ast.unparse(a[0].func)
                    if g == "np.ceil":
                        return f"((Rat.ceil {self.rat(a[0].args[0])} : Int) : Rat)"
                    if g == "np.floor":
                        return f"((Rat.floor {self.rat(a[0].args[0])} : Int) : Rat)"
                return f"((truncInt {self.rat(a[0])} : Int) : Rat)"
            if f == "max" and len(a) == 2:
                return f"(max {self.rat(a[0])} {self.rat(a[1])})"
            if f in ("min", "np.minimum") and len(a) == 2:
                return f"(min {self.rat(a[0])} {self.rat(a[1])})"
        self.bad(node)

    def boolean(self, node):
        if isinstance(node, ast.BoolOp):
            op = " && " if isinstance(node.op, ast.And) else " || "
            return "(" + op.join(self.boolean(v) for v in node.values) + ")"
        if isinstance(node, ast.Compare) and len(node.ops) == 1:
            op = {ast.Lt: "<", ast.LtE: "≤", ast.Gt: ">", ast.GtE: "≥", ast.Eq: "=", ast.NotEq: "≠"}.get(type(node.ops[0]))
            if op is None:
                self.bad(node, "comparison not translated")
            return f"decide ({self.rat(node.left)} {op} {self.rat(node.comparators[0])})"
        self.bad(node, "not a test")


def _sig(args):
    return " ".join(f"({nm} : {ty})" for nm, ty in args)


def translate_exprs(repo, TieBroken):
    def parse(rel):
        try:
            return ast.parse(open(os.path.join(repo, rel)).read())
        except Exception as e:  # pragma: no cover
            raise TieBroken(f"{rel} does not parse: {e}")

    hm = parse("nipy/modalities/fmri/hemodynamic_models.py")
    dm = parse("nipy/modalities/fmri/design_matrix.py")

    def func(tree, name):
        for n in ast.walk(tree):
            if isinstance(n, ast.FunctionDef) and n.name == name:
                return n
        raise TieBroken(f"function {name} not found")

    def assign(fn, target, which=0):
        """the value node of the `which`-th assignment to `target` in `fn`"""
        vals = [n.value for n in ast.walk(fn) if isinstance(n, ast.Assign)
                and any(ast.unparse(t) == target for t in n.targets)]
        if len(vals) <= which:
            raise TieBroken(f"{fn.name}: assignment to {target} not found")
        return vals[which]

    def only_assign(fn, target):
        vals = [n.value for n in ast.walk(fn) if isinstance(n, ast.Assign)
                and any(ast.unparse(t) == target for t in n.targets)]
        if len(vals) != 1:
            raise TieBroken(f"{fn.name}: expected exactly one assignment to {target}, found {len(vals)}")
        return vals[0]

    def augassign(fn, target, op):
        vals = [n.value for n in ast.walk(fn) if isinstance(n, ast.AugAssign)
                and ast.unparse(n.target) == target and isinstance(n.op, op)]
        if len(vals) != 1:
            raise TieBroken(f"{fn.name}: expected exactly one `{target} {op.__name__}=` statement, found {len(vals)}")
        return vals[0]

    out = []

    def emit(name, where, node, args, env, ret="Rat", doc=None, boolean=False):
        """def `name` (args) : ret := <node>; `args` is the declared parameter list (Lean name, type);
        every parameter must occur and nothing else may"""
        tr = _Tr(where, env, TieBroken)
        body = tr.boolean(node) if boolean else tr.rat(node)
        declared = {nm for nm, _ in args}
        if tr.used != declared:
            raise TieBroken(f"{where}: expression {ast.unparse(node)!r} uses {sorted(tr.used)}, "
                            f"the model's definition depends on {sorted(declared)}")
        out.append(f"/-- `{where}`: `{ast.unparse(node)}`{(' — ' + doc) if doc else ''} -/")
        out.append(f"def {name} {_sig(args)} : {'Bool' if boolean else ret} := {body}")

    def call_args(node, fname, nargs, where):
        if not (isinstance(node, ast.Call) and ast.unparse(node.func) == fname and len(node.args) == nargs
                and not node.keywords):
            raise TieBroken(f"{where}: expected {fname}(…{nargs} positional arguments…), found {ast.unparse(node)}")
        return node.args

    R, N = "Rat", "Nat"

    # ---------------------------------------------------------------- _sample_condition
    fn = func(hm, "_sample_condition")
    w = "_sample_condition"
    tmm = [n.value for n in ast.walk(fn) if isinstance(n, ast.Assign) and ast.unparse(n.targets[0]) == "(t_min, t_max)"]
    if len(tmm) != 1 or ast.unparse(tmm[0]) != "(float(frametimes.min()), float(frametimes.max()))":
        raise TieBroken(f"{w}: t_min, t_max are not float(frametimes.min()), float(frametimes.max())")
    if ast.unparse(only_assign(fn, "n")) != "frametimes.size":
        raise TieBroken(f"{w}: n is not frametimes.size")
    if ast.unparse(only_assign(fn, "tmax")) != "len(hr_frametimes)":
        raise TieBroken(f"{w}: tmax is not len(hr_frametimes)")
    e0 = {"t_min": ("t_min", R), "t_max": ("t_max", R), "n": ("n", N), "tr": ("tr", R), "dt": ("dt", R),
          "oversampling": ("oversampling", N), "min_onset": ("min_onset", R), "n_pre": ("n_pre", R),
          "tmax": ("tmax", N), "onsets": ("onset", R), "durations": ("duration", R),
          "to": ("t_off", R), "t_onset[i]": ("t_on", R)}
    emit("sampleTr", w + ": tr", only_assign(fn, "tr"), [("t_min", R), ("t_max", R), ("n", N)], e0)
    emit("sampleDt", w + ": dt", only_assign(fn, "dt"), [("tr", R), ("oversampling", N)], e0)
    emit("sampleNPre", w + ": n_pre", only_assign(fn, "n_pre"), [("min_onset", R), ("dt", R)], e0,
         doc="an integer, given as a rational")
    a = call_args(only_assign(fn, "hr_frametimes"), "np.linspace", 3, w + ": hr_frametimes")
    emit("hrStart", w + ": linspace start", a[0], [("t_min", R), ("n_pre", R), ("dt", R)], e0)
    emit("hrStop", w + ": linspace stop", a[1], [("t_max", R), ("tr", R)], e0)
    emit("hrNum", w + ": linspace num", a[2], [("n_pre", R), ("n", N), ("oversampling", N)], e0)
    for tgt, nm, args in (("t_onset", "onset", [("onset", R)]), ("t_offset", "offset", [("onset", R), ("duration", R)])):
        a = call_args(only_assign(fn, tgt), "np.minimum", 2, f"{w}: {tgt}")
        s = call_args(a[0], "np.searchsorted", 2, f"{w}: {tgt}")
        if ast.unparse(s[0]) != "hr_frametimes":
            raise TieBroken(f"{w}: {tgt} does not search hr_frametimes")
        emit(nm + "Time", f"{w}: {tgt} searches for", s[1], args, e0)
        emit(nm + "Clip", f"{w}: {tgt} is clipped at", a[1], [("tmax", N)], e0)
    # `for i, to in enumerate(t_offset): if <test>: t_offset[i] += 1`
    loops = [n for n in ast.walk(fn) if isinstance(n, ast.For) and ast.unparse(n.iter) == "enumerate(t_offset)"]
    if len(loops) != 1 or ast.unparse(loops[0].target) != "(i, to)" or len(loops[0].body) != 1 \
            or not isinstance(loops[0].body[0], ast.If) or loops[0].body[0].orelse:
        raise TieBroken(f"{w}: zero-duration loop not found")
    iff = loops[0].body[0]
    emit("zeroDurTest", w + ": zero-duration test", iff.test, [("t_off", R), ("tmax", N), ("t_on", R)], e0, boolean=True)
    if len(iff.body) != 1 or ast.unparse(iff.body[0]) != "t_offset[i] += 1":
        raise TieBroken(f"{w}: zero-duration body is not `t_offset[i] += 1`")
    # impulses: np.add.at(regressor, t_onset, values); np.subtract.at(regressor, t_offset, values); cumsum
    calls = [ast.unparse(n.value) for n in fn.body if isinstance(n, ast.Expr) and isinstance(n.value, ast.Call)]
    want = ["np.add.at(regressor, t_onset, values)", "np.subtract.at(regressor, t_offset, values)"]
    if [c for c in calls if c.startswith(("np.add", "np.subtract"))] != want:
        raise TieBroken(f"{w}: impulses are not {want}: {calls}")
    if ast.unparse(assign(fn, "regressor", 1)) != "np.cumsum(regressor)":
        raise TieBroken(f"{w}: regressor is not np.cumsum(regressor)")

    # ---------------------------------------------------------------- compute_regressor
    fn = func(hm, "compute_regressor")
    e1 = {"frametimes.max()": ("t_max", R), "frametimes.min()": ("t_min", R), "np.size(frametimes)": ("n", N)}
    emit("computeTr", "compute_regressor: tr", only_assign(fn, "tr"), [("t_min", R), ("t_max", R), ("n", N)], e1)

    # ---------------------------------------------------------------- _hrf_kernel (fir)
    fn = func(hm, "_hrf_kernel")
    fir = None
    for n in ast.walk(fn):
        if isinstance(n, ast.If) and ast.unparse(n.test) == "hrf_model == 'fir'":
            fir = only_assign(n, "hkernel") if False else [m.value for m in n.body if isinstance(m, ast.Assign)]
    if not fir or not isinstance(fir[0], ast.ListComp) or ast.unparse(fir[0].generators[0].iter) != "fir_delays" \
            or ast.unparse(fir[0].generators[0].target) != "f" or fir[0].generators[0].ifs:
        raise TieBroken("_hrf_kernel: fir branch is not a comprehension over fir_delays")
    hs = call_args(fir[0].elt, "np.hstack", 1, "_hrf_kernel: fir kernel")
    if not isinstance(hs[0], ast.Tuple) or len(hs[0].elts) != 2:
        raise TieBroken("_hrf_kernel: fir kernel is not hstack of two blocks")
    z = call_args(hs[0].elts[0], "np.zeros", 1, "_hrf_kernel: fir kernel")
    o = call_args(hs[0].elts[1], "np.ones", 1, "_hrf_kernel: fir kernel")
    e2 = {"f": ("f", N), "oversampling": ("oversampling", N)}
    emit("firZeros", "_hrf_kernel: fir, zeros", z[0], [("f", N), ("oversampling", N)], e2)
    emit("firOnes", "_hrf_kernel: fir, ones", o[0], [("oversampling", N)], e2)

    # ---------------------------------------------------------------- _gamma_difference_hrf and derivatives
    fn = func(hm, "_gamma_difference_hrf")
    w = "_gamma_difference_hrf"
    e3 = {"tr": ("tr", R), "oversampling": ("oversampling", N), "time_length": ("time_length", R), "dt": ("dt", R),
          "onset": ("onset", R), "ratio": ("ratio", R), "hrf.sum()": ("total", R), "hrf": ("h", R),
          "gamma.pdf(time_stamps, delay / dispersion, dt / dispersion)": ("g1", R),
          "gamma.pdf(time_stamps, undershoot / u_dispersion, dt / u_dispersion)": ("g2", R)}
    emit("hrfDt", w + ": dt", only_assign(fn, "dt"), [("tr", R), ("oversampling", N)], e3)
    a = call_args(only_assign(fn, "time_stamps"), "np.linspace", 3, w + ": time_stamps")
    if ast.unparse(a[0]) != "0" or ast.unparse(a[1]) != "time_length":
        raise TieBroken(f"{w}: time stamps do not run from 0 to time_length")
    emit("hrfNum", w + ": number of time stamps", a[2], [("time_length", R), ("dt", R)], e3)
    emit("hrfShift", w + ": time_stamps -=", augassign(fn, "time_stamps", ast.Sub), [("onset", R), ("dt", R)], e3)
    emit("gammaDiff", w + ": hrf", only_assign(fn, "hrf"), [("g1", R), ("g2", R), ("ratio", R)], e3)
    norm = augassign(fn, "hrf", ast.Div)
    emit("hrfTotal", w + ": hrf /=", norm, [("total", R)], e3)
    rets = [n for n in fn.body if isinstance(n, ast.Return)]
    if len(rets) != 1 or ast.unparse(rets[0].value) != "hrf":
        raise TieBroken(f"{w}: does not return hrf")
    for fname, base, step, shifted in (
            ("spm_time_derivative", "spm_hrf", "do", "spm_hrf(tr, oversampling, time_length, onset + do)"),
            ("glover_time_derivative", "glover_hrf", "do", "glover_hrf(tr, oversampling, time_length, onset + do)"),
            ("spm_dispersion_derivative", "spm_hrf", "dd",
             "_gamma_difference_hrf(tr, oversampling, time_length, onset, dispersion=1.0 + dd)")):
        fn = func(hm, fname)
        e4 = {step: ("step", R), shifted: ("h1", R), f"{base}(tr, oversampling, time_length, onset)": ("h0", R)}
        emit({"spm_time_derivative": "spmTimeDeriv", "glover_time_derivative": "gloverTimeDeriv",
              "spm_dispersion_derivative": "spmDispDeriv"}[fname], fname + ": dhrf",
             only_assign(fn, "dhrf"), [("step", R), ("h1", R), ("h0", R)], e4)
        emit({"spm_time_derivative": "spmTimeStep", "glover_time_derivative": "gloverTimeStep",
              "spm_dispersion_derivative": "spmDispStep"}[fname], fname + ": " + step, only_assign(fn, step), [], {})

    # ---------------------------------------------------------------- drifts
    fn = func(dm, "_poly_drift")
    w = "_poly_drift"
    z = call_args(assign(fn, "pol", 0), "np.zeros", 1, w + ": pol")
    if not isinstance(z[0], ast.Tuple) or len(z[0].elts) != 2 or ast.unparse(z[0].elts[0]) != "np.size(frametimes)":
        raise TieBroken(f"{w}: pol is not zeros((np.size(frametimes), …))")
    e5 = {"order": ("order", N), "frametimes": ("t", R), "tmax": ("tmax", R), "k": ("k", N)}
    emit("polyCols", w + ": number of columns", z[0].elts[1], [("order", N)], e5)
    loops = [n for n in ast.walk(fn) if isinstance(n, ast.For)]
    if len(loops) != 1 or ast.unparse(loops[0].target) != "k" or len(loops[0].body) != 1:
        raise TieBroken(f"{w}: one loop over k expected")
    rg = call_args(loops[0].iter, "range", 1, w + ": loop")
    emit("polyLoopEnd", w + ": k runs below", rg[0], [("order", N)], e5)
    st = loops[0].body[0]
    if not (isinstance(st, ast.Assign) and ast.unparse(st.targets[0]) == "pol[:, k]"):
        raise TieBroken(f"{w}: loop body does not assign pol[:, k]")
    emit("polyEntry", w + ": pol[:, k]", st.value, [("t", R), ("tmax", R), ("k", N)], e5)
    if ast.unparse(assign(fn, "pol", 1)) != "_orthogonalize(pol)":
        raise TieBroken(f"{w}: second assignment to pol is not _orthogonalize(pol)")
    hs = call_args(assign(fn, "pol", 2), "np.hstack", 1, w + ": reorder")
    parts = []
    if not isinstance(hs[0], ast.Tuple):
        raise TieBroken(f"{w}: hstack argument is not a tuple")
    for el in hs[0].elts:
        ok = (isinstance(el, ast.Subscript) and ast.unparse(el.value) == "pol" and isinstance(el.slice, ast.Tuple)
              and len(el.slice.elts) == 2 and ast.unparse(el.slice.elts[0]) == ":" and isinstance(el.slice.elts[1], ast.Slice)
              and el.slice.elts[1].step is None)
        if not ok:
            raise TieBroken(f"{w}: unexpected block {ast.unparse(el)}")
        sl = el.slice.elts[1]
        lo = 0 if sl.lower is None else sl.lower.value if isinstance(sl.lower, ast.Constant) else None
        hi = None if sl.upper is None else sl.upper.value if isinstance(sl.upper, ast.Constant) else "?"
        if not isinstance(lo, int) or lo < 0 or hi == "?" or (hi is not None and (not isinstance(hi, int) or hi < lo)):
            raise TieBroken(f"{w}: unexpected slice {ast.unparse(el)}")
        parts.append(f"cols.drop {lo}" if hi is None else f"(cols.drop {lo}).take {hi - lo}")
    out.append(f"/-- `{w}`: `{ast.unparse(assign(fn, 'pol', 2))}` on the list of columns -/")
    out.append("def polyReorder {α : Type} (cols : List α) : List α := " + " ++ ".join(parts))
    e5b = {"frametimes": ("t", R)}
    tm = only_assign(fn, "tmax")
    if ast.unparse(tm) != "float(np.abs(frametimes).max())":
        raise TieBroken(f"{w}: tmax is not float(np.abs(frametimes).max())")

    fn = func(dm, "_cosine_drift")
    w = "_cosine_drift"
    e6 = {"period_cut": ("period_cut", R), "len_tim": ("len_tim", N), "hfcut": ("hfcut", R), "dt": ("dt", R),
          "frametimes[1]": ("t1", R), "frametimes[0]": ("t0", R)}
    emit("cosineHfcut", w + ": hfcut", only_assign(fn, "hfcut"), [("period_cut", R)], e6)
    emit("cosineDt", w + ": dt", only_assign(fn, "dt"), [("t1", R), ("t0", R)], e6)
    emit("cosineOrder", w + ": order", only_assign(fn, "order"), [("len_tim", N), ("hfcut", R), ("dt", R)], e6,
         doc="an integer, given as a rational")
    z = call_args(only_assign(fn, "cdrift"), "np.zeros", 1, w + ": cdrift")
    if ast.unparse(z[0]) != "(len_tim, order)":
        raise TieBroken(f"{w}: cdrift is not zeros((len_tim, order))")

    fn = func(dm, "_make_drift")
    w = "_make_drift"
    # dispatch: if/elif chain over drift_model
    node = next((n for n in fn.body if isinstance(n, ast.If)), None)
    table = []
    while node is not None:
        t = node.test
        if not (isinstance(t, ast.Compare) and ast.unparse(t.left) == "drift_model" and isinstance(t.ops[0], ast.Eq)
                and isinstance(t.comparators[0], ast.Constant) and len(node.body) == 1
                and isinstance(node.body[0], ast.Assign) and ast.unparse(node.body[0].targets[0]) == "drift"
                and isinstance(node.body[0].value, ast.Call)):
            raise TieBroken(f"{w}: unexpected branch {ast.unparse(t)}")
        table.append((t.comparators[0].value, ast.unparse(node.body[0].value)))
        nxt = node.orelse
        if len(nxt) == 1 and isinstance(nxt[0], ast.If):
            node = nxt[0]
        else:
            if not (len(nxt) == 1 and isinstance(nxt[0], ast.Raise) and "NotImplementedError" in ast.unparse(nxt[0])):
                raise TieBroken(f"{w}: the chain does not end by raising NotImplementedError")
            node = None
    out.append(f"/-- `{w}`: drift model ↦ the call that builds the block; anything else raises NotImplementedError -/")
    out.append("def driftDispatch : List (String × String) := [" +
               ", ".join(f'("{m}", "{c}")' for m, c in table) + "]")
    if ast.unparse(assign(fn, "drift_model", 0)) != "drift_model.lower()":
        raise TieBroken(f"{w}: drift_model is not lower-cased")
    nm = only_assign(fn, "names")
    ok = (isinstance(nm, ast.ListComp) and len(nm.generators) == 1 and not nm.generators[0].ifs
          and ast.unparse(nm.generators[0].target) == "k" and isinstance(nm.elt, ast.JoinedStr)
          and len(nm.elt.values) == 2 and isinstance(nm.elt.values[0], ast.Constant)
          and isinstance(nm.elt.values[1], ast.FormattedValue) and ast.unparse(nm.elt.values[1].value) == "k"
          and nm.elt.values[1].format_spec is None and nm.elt.values[1].conversion == -1)
    if not ok:
        raise TieBroken(f"{w}: names is not [f'<prefix>{{k}}' for k in range(…)]")
    rg = call_args(nm.generators[0].iter, "range", 2, w + ": names")
    if not isinstance(rg[0], ast.Constant) or not isinstance(rg[0].value, int) or ast.unparse(rg[1]) != "drift.shape[1]":
        raise TieBroken(f"{w}: names do not range over range(<int>, drift.shape[1])")
    out.append(f"/-- `{w}`: `{ast.unparse(nm)}` -/")
    out.append(f"def driftNameList (ncols : Nat) : List String := (List.range' {rg[0].value} (ncols - {rg[0].value})).map "
               f"(fun k => \"{nm.elt.values[0].value}\" ++ toString k)")
    app = [n.value for n in fn.body if isinstance(n, ast.Expr) and isinstance(n.value, ast.Call)
           and ast.unparse(n.value.func) == "names.append"]
    if len(app) != 1 or not isinstance(app[0].args[0], ast.Constant):
        raise TieBroken(f"{w}: exactly one names.append(<constant>) expected")
    out.append(f"/-- `{w}`: `{ast.unparse(app[0])}` -/")
    out.append(f"def driftAppended : String := \"{app[0].args[0].value}\"")

    # ---------------------------------------------------------------- _convolve_regressors
    fn = func(dm, "_convolve_regressors")
    w = "_convolve_regressors"
    iff = next((n for n in fn.body if isinstance(n, ast.If) and ast.unparse(n.test).startswith("hrf_model ==")), None)
    ok = (iff is not None and isinstance(iff.test.comparators[0], ast.Constant) and len(iff.body) == 1 and len(iff.orelse) == 1
          and all(isinstance(s, ast.Assign) and ast.unparse(s.targets[0]) == "oversampling"
                  and isinstance(s.value, ast.Constant) and isinstance(s.value.value, int) and s.value.value >= 0
                  for s in (iff.body[0], iff.orelse[0])))
    if not ok:
        raise TieBroken(f"{w}: oversampling is not chosen by `if hrf_model == …: oversampling = a else: oversampling = b`")
    out.append(f"/-- `{w}`: the oversampling handed to `compute_regressor` -/")
    out.append(f"def convolveOversampling (hrf_model : String) : Nat := if hrf_model = \"{iff.test.comparators[0].value}\" "
               f"then {iff.body[0].value.value} else {iff.orelse[0].value.value}")
    loops = [n for n in fn.body if isinstance(n, ast.For)]
    if len(loops) != 1 or ast.unparse(loops[0].iter) != "np.unique(paradigm.con_id)":
        raise TieBroken(f"{w}: the conditions are not np.unique(paradigm.con_id)")
    body_txt = [ast.unparse(s) for s in loops[0].body]
    if "hnames += names" not in body_txt:
        raise TieBroken(f"{w}: names are not accumulated by `hnames += names`")
    if not any(s.startswith("if rmatrix is None:") and "np.hstack((rmatrix, reg))" in s for s in body_txt):
        raise TieBroken(f"{w}: columns are not accumulated by hstack((rmatrix, reg))")

    # ---------------------------------------------------------------- _full_rank
    fn = func(dm, "_full_rank")
    w = "_full_rank"
    e7 = {"smax": ("smax", R), "smin": ("smin", R), "cmax": ("cmax", R), "c": ("c", R), "s": ("s", R), "lda": ("lda", R)}
    sm = [n.value for n in ast.walk(fn) if isinstance(n, ast.Assign) and ast.unparse(n.targets[0]) == "(smax, smin)"]
    if len(sm) != 1 or ast.unparse(sm[0]) != "(s.max(), s.min())":
        raise TieBroken(f"{w}: smax, smin are not s.max(), s.min()")
    emit("fullRankCond", w + ": c", only_assign(fn, "c"), [("smax", R), ("smin", R)], e7)
    iff = next((n for n in fn.body if isinstance(n, ast.If)), None)
    if iff is None or iff.orelse or len(iff.body) != 1 or ast.unparse(iff.body[0]) != "return (X, c)":
        raise TieBroken(f"{w}: expected `if <test>: return X, c`")
    emit("fullRankKeep", w + ": X is returned unchanged when", iff.test, [("c", R), ("cmax", R)], e7, boolean=True)
    emit("fullRankLda", w + ": lda", only_assign(fn, "lda"), [("smax", R), ("cmax", R), ("smin", R)], e7)
    emit("fullRankShift", w + ": s", assign(fn, "s", 0), [("s", R), ("lda", R)], e7)
    if ast.unparse(assign(fn, "X", 0)) != "np.dot(U, np.dot(np.diag(s), V))":
        raise TieBroken(f"{w}: X is not rebuilt as U diag(s) V")

    # ---------------------------------------------------------------- make_dmtx: user regressors
    fn = func(dm, "make_dmtx")
    w = "make_dmtx"
    nm = only_assign(fn, "add_reg_names")
    ok = (isinstance(nm, ast.ListComp) and len(nm.generators) == 1 and not nm.generators[0].ifs
          and ast.unparse(nm.generators[0].target) == "k" and ast.unparse(nm.generators[0].iter) == "range(n_add_regs)"
          and isinstance(nm.elt, ast.BinOp) and isinstance(nm.elt.op, ast.Mod) and isinstance(nm.elt.left, ast.Constant)
          and isinstance(nm.elt.left.value, str) and nm.elt.left.value.count("%") == 1
          and nm.elt.left.value.endswith("%d") and ast.unparse(nm.elt.right) == "k")
    if not ok:
        raise TieBroken(f"{w}: default names are not ['<prefix>%d' % k for k in range(n_add_regs)]")
    out.append(f"/-- `{w}`: `{ast.unparse(nm)}` -/")
    out.append(f"def defaultNameList (n_add_regs : Nat) : List String := (List.range n_add_regs).map "
               f"(fun k => \"{nm.elt.left.value[:-2]}\" ++ toString k)")
    steps = [ast.unparse(s) for s in sorted((s for s in ast.walk(fn) if isinstance(s, (ast.Assign, ast.AugAssign))),
                                            key=lambda s: s.lineno)]
    order = ["names += add_reg_names", "names += dnames"]
    pos = [steps.index(s) if s in steps else -1 for s in order]
    conv = [i for i, s in enumerate(steps) if s.lstrip("(").startswith(("matrix, names) = _convolve_regressors(", "matrix, names = _convolve_regressors("))]
    if -1 in pos or len(conv) != 1 or not (conv[0] < pos[0] < pos[1]):
        raise TieBroken(f"{w}: names are not assembled as conditions, user regressors, drifts")

    # ---------------------------------------------------------------- the pipeline of compute_regressor (text)
    pipe = []
    fn = func(hm, "compute_regressor")
    for tgt in ("conv_reg", "hkernel", "reg_names"):
        pipe.append(("compute_regressor: " + tgt, ast.unparse(only_assign(fn, tgt))))
    pipe.append(("compute_regressor: creg", ast.unparse(assign(fn, "creg", 0))))
    iffs = [n for n in fn.body if isinstance(n, ast.If)]
    if len(iffs) != 1 or iffs[0].orelse or len(iffs[0].body) != 1:
        raise TieBroken("compute_regressor: expected one `if …: creg = _orthogonalize(creg)`")
    pipe.append(("compute_regressor: if " + ast.unparse(iffs[0].test), ast.unparse(iffs[0].body[0])))
    fn = func(hm, "_resample_regressor")
    pipe.append(("_resample_regressor: f", ast.unparse(only_assign(fn, "f"))))
    rets = [n for n in fn.body if isinstance(n, ast.Return)]
    pipe.append(("_resample_regressor: return", ast.unparse(rets[0].value) if len(rets) == 1 else "<absent>"))
    fn = func(hm, "_orthogonalize")
    iffs = [n for n in fn.body if isinstance(n, ast.If)]
    if len(iffs) != 1:
        raise TieBroken("_orthogonalize: expected one early return")
    pipe.append(("_orthogonalize: if " + ast.unparse(iffs[0].test), "; ".join(ast.unparse(x) for x in iffs[0].body)))
    loops = [n for n in fn.body if isinstance(n, ast.For)]
    if len(loops) != 1:
        raise TieBroken("_orthogonalize: expected one loop")
    pipe.append(("_orthogonalize: for " + ast.unparse(loops[0].target) + " in " + ast.unparse(loops[0].iter),
                 "; ".join(ast.unparse(x) for x in loops[0].body)))
    fn = func(dm, "_blank_drift")
    rets = [n for n in fn.body if isinstance(n, ast.Return)]
    pipe.append(("_blank_drift: return", ast.unparse(rets[0].value) if len(rets) == 1 else "<absent>"))

    def lstr(x):
        return '"' + x.replace("\\", "\\\\").replace('"', '\\"') + '"'
    out.append("/-- steps of `compute_regressor`, `_resample_regressor`, `_orthogonalize`, `_blank_drift` (source text) -/")
    out.append("def pipelineExprs : List (String × String) :=\n  [" +
               ",\n   ".join(f"({lstr(a)}, {lstr(b)})" for a, b in pipe) + "]")

    # ---------------------------------------------------------------- _hrf_kernel: kernels per model
    fn = func(hm, "_hrf_kernel")
    node = next((n for n in fn.body if isinstance(n, ast.If)), None)
    ktable = []
    while node is not None:
        t = node.test
        if not (isinstance(t, ast.Compare) and ast.unparse(t.left) == "hrf_model" and isinstance(t.ops[0], ast.Eq)
                and isinstance(t.comparators[0], ast.Constant) and len(node.body) == 1
                and isinstance(node.body[0], ast.Assign) and ast.unparse(node.body[0].targets[0]) == "hkernel"):
            raise TieBroken(f"_hrf_kernel: unexpected branch {ast.unparse(t)}")
        v = node.body[0].value
        if isinstance(v, ast.List):
            ks = []
            for e in v.elts:
                if not (isinstance(e, ast.Call) and ast.unparse(e).endswith("(tr, oversampling)")):
                    raise TieBroken(f"_hrf_kernel: unexpected kernel {ast.unparse(e)}")
                ks.append(ast.unparse(e.func))
            ktable.append((t.comparators[0].value, ks))
        elif not (isinstance(v, ast.ListComp) and t.comparators[0].value == "fir"):
            raise TieBroken(f"_hrf_kernel: unexpected value {ast.unparse(v)}")
        nxt = node.orelse
        if len(nxt) == 1 and isinstance(nxt[0], ast.If):
            node = nxt[0]
        else:
            if not (len(nxt) == 1 and isinstance(nxt[0], ast.Raise) and "ValueError" in ast.unparse(nxt[0])):
                raise TieBroken("_hrf_kernel: the chain does not end by raising ValueError")
            node = None
    out.append("/-- `_hrf_kernel`: haemodynamic model ↦ the kernel functions called with `(tr, oversampling)`, in order "
               "(fir: one kernel per delay, see `firZeros` / `firOnes`); anything else raises ValueError -/")
    out.append("def hrfKernelTable : List (String × List String) :=\n  [" + ",\n   ".join(
        f'("{m}", [{", ".join(chr(34) + k + chr(34) for k in ks)}])' for m, ks in ktable) + "]")

    # ---------------------------------------------------------------- load_paradigm_from_csv_file
    ep = parse("nipy/modalities/fmri/experimental_paradigm.py")
    fn = func(ep, "load_paradigm_from_csv_file")
    w = "load_paradigm_from_csv_file"
    loops = [n for n in ast.walk(fn) if isinstance(n, ast.For) and ast.unparse(n.target) == "row"]
    if len(loops) != 1 or ast.unparse(loops[0].iter) != "reader":
        raise TieBroken(f"{w}: the row loop is not `for row in reader`")
    cols = []

    def col_of(stmt, guard):
        ok = (isinstance(stmt, ast.Expr) and isinstance(stmt.value, ast.Call) and isinstance(stmt.value.func, ast.Attribute)
              and stmt.value.func.attr == "append" and len(stmt.value.args) == 1)
        if not ok:
            raise TieBroken(f"{w}: unexpected statement {ast.unparse(stmt)}")
        a = stmt.value.args[0]
        isfloat = isinstance(a, ast.Call) and ast.unparse(a.func) == "float" and len(a.args) == 1
        sub = a.args[0] if isfloat else a
        if not (isinstance(sub, ast.Subscript) and ast.unparse(sub.value) == "row" and isinstance(sub.slice, ast.Constant)
                and isinstance(sub.slice.value, int) and sub.slice.value >= 0):
            raise TieBroken(f"{w}: unexpected cell {ast.unparse(a)}")
        cols.append((ast.unparse(stmt.value.func.value), sub.slice.value, isfloat, guard))

    for st in loops[0].body:
        if isinstance(st, ast.If):
            t = st.test
            if not (isinstance(t, ast.Compare) and ast.unparse(t.left) == "len(row)" and isinstance(t.ops[0], ast.Gt)
                    and isinstance(t.comparators[0], ast.Constant) and len(st.body) == 1 and not st.orelse):
                raise TieBroken(f"{w}: unexpected guard {ast.unparse(t)}")
            col_of(st.body[0], t.comparators[0].value)
        else:
            col_of(st, None)
    out.append(f"/-- `{w}`: (list, index in the row, parsed with float(), present when `len(row) >` …) -/")
    out.append("def loaderColumns : List (String × Nat × Bool × Option Nat) :=\n  [" + ",\n   ".join(
        f'("{nm}", {k}, {"true" if fl else "false"}, {"none" if g is None else "some " + str(g)})'
        for nm, k, fl, g in cols) + "]")
    info = assign(fn, "paradigm_info", 0)
    if not isinstance(info, ast.List) or not all(isinstance(e, ast.Call) and ast.unparse(e.func) == "np.array"
                                                  and len(e.args) == 1 for e in info.elts):
        raise TieBroken(f"{w}: paradigm_info is not a list of np.array(<list>)")
    out.append(f"/-- `{w}`: order of the column arrays; `paradigm_info[:len(row)]` keeps the first `len(last row)` -/")
    out.append("def loaderArrays : List String := [" + ", ".join(f'"{ast.unparse(e.args[0])}"' for e in info.elts) + "]")
    if ast.unparse(assign(fn, "paradigm_info", 1)) != "paradigm_info[:len(row)]":
        raise TieBroken(f"{w}: paradigm_info is not cut to len(row)")
    rs = func(fn, "read_session")
    tests = []
    node = next((n for n in rs.body if isinstance(n, ast.If) and ast.unparse(n.test).startswith("len(paradigm_info)")), None)
    while node is not None:
        t = node.test
        if not (isinstance(t, ast.Compare) and isinstance(t.ops[0], ast.Gt) and isinstance(t.comparators[0], ast.Constant)):
            raise TieBroken(f"{w}: unexpected test {ast.unparse(t)}")
        made = sorted({ast.unparse(n.func) for n in ast.walk(ast.Module(body=node.body, type_ignores=[]))
                       if isinstance(n, ast.Call) and ast.unparse(n.func).endswith("Paradigm")})
        inner = [ast.unparse(n.test) for n in node.body if isinstance(n, ast.If)]
        tests.append((t.comparators[0].value, made, inner))
        nxt = node.orelse
        if len(nxt) == 1 and isinstance(nxt[0], ast.If):
            node = nxt[0]
        else:
            made = sorted({ast.unparse(n.func) for n in ast.walk(ast.Module(body=nxt, type_ignores=[]))
                           if isinstance(n, ast.Call) and ast.unparse(n.func).endswith("Paradigm")})
            tests.append((0, made, []))
            node = None
    out.append(f"/-- `{w}.read_session`: (`len(paradigm_info) >` …, classes built, inner test) per branch; last = else -/")
    out.append("def readSessionBranches : List (Nat × List String × List String) :=\n  [" + ",\n   ".join(
        "({}, [{}], [{}])".format(k, ", ".join(f'"{m}"' for m in made), ", ".join(f'"{x}"' for x in inner))
        for k, made, inner in tests) + "]")

    head = ["/- GENERATED by harness/props/c07_expr.py from the text of",
            "   nipy/modalities/fmri/hemodynamic_models.py and design_matrix.py.  Do not edit.",
            "   Every definition is the source expression named in its docstring, as a Lean term. -/",
            "namespace NipyVerif.C07.Gen", "",
            "/-- Python's `int(x)` on a float: truncation towards zero -/",
            "def truncInt (x : Rat) : Int := if 0 ≤ x then Rat.floor x else Rat.ceil x", ""]
    return ("NipyVerif/Gen/C07Expr.lean", "\n".join(head + out + ["", "end NipyVerif.C07.Gen", ""]))
