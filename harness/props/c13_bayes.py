"""C13, Bayesian mixtures (bgmm.py, imm.py): conjugate updates, VB steps, cache histories.

Case kinds (mixed into the C13 check):
  bconj : Gibbs update of a BGMM for a hard labelling (empty classes included).  The arguments of the
          random draws (Dirichlet parameter, Wishart dof / inverse scale, normal mean) are captured and
          compared with the exact model (`B conj hard`); oracle: affine / label equivariance, agreement
          with VBGMM._Mstep at 0/1 memberships and with conditional_posterior_proba, seeded real draws.
  bvb   : VBGMM._Mstep on soft memberships (`B conj soft`), `_Estep` exponents (`B vbll`), memberships
          unchanged under translation / rescaling, pop / map_label / estimate / evidence.
  bhist : an operation history on ONE object (BGMM / VBGMM / IMM): after every call the caches must be
          those of the current parameters (`B hist`), and `probability_under_prior` / `likelihood` must
          equal the density of the current parameters (scipy).
  imm   : IMM.reduce / update_weights (`B immw`) / likelihood / sample.
"""
from __future__ import annotations

import contextlib
import math

import numpy as np

from harness.util import Snapshot, fr

TINY = 1.e-15


def _dy(rng, lo, hi, den=4):
    return rng.randint(int(lo * den), int(hi * den)) / den


def _spd(rng, d, scale=None):
    L = np.zeros((d, d))
    for i in range(d):
        for j in range(i):
            L[i, j] = _dy(rng, -1, 1, 4)
        L[i, i] = rng.choice([0.5, 1.0, 1.5, 2.0])
    return (L @ L.T) * (scale if scale is not None else rng.choice([0.25, 1.0, 1.0, 4.0]))


def _mat(a):
    return " ".join(fr(v) for v in np.asarray(a, dtype=float).ravel().tolist())


def _err(a, b, floor=0.0):
    a = np.asarray(a, dtype=float); b = np.asarray(b, dtype=float)
    if a.shape != b.shape or not (np.all(np.isfinite(a)) and np.all(np.isfinite(b))):
        return np.inf
    if a.size == 0:
        return 0.0
    return float(np.max(np.abs(a - b)) / max(1e-300, floor, float(np.max(np.abs(a))), float(np.max(np.abs(b)))))


@contextlib.contextmanager
def capture_draws():
    """Replace the three random draws of bgmm.py by their means and record their arguments, and record
    every matrix handed to `inv` (the Wishart inverse scale before inversion)."""
    from nipy.algorithms.clustering import bgmm
    rec = {"W": [], "N": [], "D": [], "inv": []}
    old = (bgmm.generate_Wishart, bgmm.generate_normals, bgmm.inv, np.random.dirichlet)

    def gw(n, V):
        rec["W"].append((float(n), np.array(V, dtype=float)))
        return float(n) * np.array(V, dtype=float)

    def gn(m, P):
        rec["N"].append((np.array(m, dtype=float), np.array(P, dtype=float)))
        return np.array(m, dtype=float)

    def iv(a, *k, **kw):
        rec["inv"].append(np.array(a, dtype=float))
        return old[2](a, *k, **kw)

    def dr(alpha, *k, **kw):
        rec["D"].append(np.array(alpha, dtype=float))
        a = np.array(alpha, dtype=float)
        return a / a.sum()
    bgmm.generate_Wishart, bgmm.generate_normals, bgmm.inv, np.random.dirichlet = gw, gn, iv, dr
    try:
        yield rec
    finally:
        bgmm.generate_Wishart, bgmm.generate_normals, bgmm.inv, np.random.dirichlet = old


@contextlib.contextmanager
def capture_np_inv():
    rec = []
    old = np.linalg.inv

    def iv(a):
        rec.append(np.array(a, dtype=float))
        return old(a)
    np.linalg.inv = iv
    try:
        yield rec
    finally:
        np.linalg.inv = old


def prior_density(g):
    """normal–Wishart–Dirichlet prior density of the *current* parameters of a BGMM, from scipy"""
    from scipy import stats
    p = float(stats.dirichlet(np.asarray(g.prior_weights, dtype=float)).pdf(np.asarray(g.weights, dtype=float)))
    for k in range(g.k):
        lam = np.asarray(g.precisions[k], dtype=float)
        p *= float(stats.multivariate_normal(g.prior_means[k], np.linalg.inv(lam * g.prior_shrinkage[k])).pdf(g.means[k]))
        p *= float(stats.wishart(df=float(g.prior_dof[k]), scale=np.asarray(g.prior_scale[k], dtype=float)).pdf(lam))
    return p


def gauss_density(means, precisions, weights, x):
    from scipy import stats
    k = means.shape[0]
    return np.array([stats.multivariate_normal(means[j], np.linalg.inv(precisions[j])).pdf(x).reshape(x.shape[0])
                     for j in range(k)]).T * np.asarray(weights, dtype=float)


class BayesMixin:
    # ------------------------------------------------------------------ generation
    def _gen_priors(self, rng, d, k):
        if rng.random() < 0.4:
            return {"mode": "guess"}
        return {"mode": "set",
                "pm": [[_dy(rng, -4, 4, 2) for _ in range(d)] for _ in range(k)],
                "pw": [rng.choice([0.5, 1.0, 1.0, 2.0, 3.5]) for _ in range(k)],
                "pscale": [_spd(rng, d).tolist() for _ in range(k)],
                "pdof": [d + rng.choice([0, 1, 2, 4.5]) for _ in range(k)],
                "ps": [rng.choice([0.01, 0.25, 1.0, 2.0, 8.0]) for _ in range(k)]}

    def _gen_labels(self, rng, n, k):
        mode = rng.choice(["random", "random", "empty", "one", "ordered"])
        if mode == "random":
            z = [rng.randrange(k) for _ in range(n)]
        elif mode == "empty" and k > 1:
            miss = rng.sample(range(k), rng.randint(1, k - 1))
            keep = [c for c in range(k) if c not in miss]
            z = [rng.choice(keep) for _ in range(n)]
        elif mode == "one":
            z = [rng.randrange(k)] * n
        else:
            z = sorted(rng.randrange(k) for _ in range(n))
        return z

    def _gen_data(self, rng, n, d):
        xs = [[_dy(rng, -6, 6, 4) for _ in range(d)] for _ in range(n)]
        for j in range(d):
            if len({r[j] for r in xs}) == 1:
                xs[0][j] += 1.0
        if n > 2 and rng.random() < 0.2:
            xs[rng.randrange(n)] = [rng.choice([-1, 1]) * rng.choice([64.0, 512.0]) for _ in range(d)]
        return xs

    def _gen_bconj(self, rng, d=None, k=None):
        d = d or rng.choice([1, 2, 2, 3, 4]); k = k or rng.choice([1, 2, 3, 3, 4, 6])
        n = rng.choice([max(2, d), 4, 7, 11])
        return {"kind": "bconj", "d": d, "k": k, "x": self._gen_data(rng, n, d), "z": self._gen_labels(rng, n, k),
                "priors": self._gen_priors(rng, d, k), "perm": rng.sample(range(k), k),
                "t": [_dy(rng, -8, 8, 2) for _ in range(d)],
                "a": [rng.choice([0.25, 0.5, 2.0, 4.0, 3.0, -1.0, 1.0, 10.0]) for _ in range(d)],
                "seed": rng.randrange(10 ** 6)}

    def _gen_bvb(self, rng):
        d = rng.choice([1, 2, 2, 3, 4]); k = rng.choice([1, 2, 3, 4, 6])
        n = rng.choice([max(3, d + 1), 6, 9])
        like = [[rng.choice([0, 1, 1, 2, 3, 5, 8]) / 8 for _ in range(k)] for _ in range(n)]
        mode = rng.choice(["random", "hard", "zero-row", "empty-comp"])
        if mode == "hard":
            like = [[0.0] * k for _ in range(n)]
            for r in like:
                r[rng.randrange(k)] = 1.0
        if mode == "zero-row":
            like[rng.randrange(n)] = [0.0] * k
        if mode == "empty-comp" and k > 1:
            j = rng.randrange(k)
            for r in like:
                r[j] = 0.0
        return {"kind": "bvb", "d": d, "k": k, "x": self._gen_data(rng, n, d), "like": like, "mode": mode,
                "priors": self._gen_priors(rng, d, k), "perm": rng.sample(range(k), k),
                "t": [_dy(rng, -8, 8, 2) for _ in range(d)],
                "a": [rng.choice([0.25, 0.5, 2.0, 4.0, -1.0, 1.0]) for _ in range(d)],
                "niter": rng.choice([1, 2, 4])}

    def _gen_bhist(self, rng):
        cls = rng.choice(["BGMM", "BGMM", "BGMM", "VBGMM"])
        d = rng.choice([1, 2, 2, 3]); k = rng.choice([1, 2, 3, 4])
        n = max(rng.choice([max(3, d + 1), 6, 9]), k + 2)
        ops, have_priors = [], False

        def params():
            w = [rng.choice([1, 1, 2, 3, 5]) for _ in range(k)]
            return {"means": [[_dy(rng, -4, 4, 2) for _ in range(d)] for _ in range(k)],
                    "prec": [_spd(rng, d).tolist() for _ in range(k)],
                    "weights": [v / sum(w) for v in w]}
        init = params() if rng.random() < 0.5 else None
        # BGMM.check (called by plugin) needs the priors; the Gibbs updates are BGMM-only (VBGMM.pop takes
        # likelihoods), the variational steps VBGMM-only
        for _ in range(rng.choice([2, 3, 4, 6, 8])):
            r = rng.random()
            if r < 0.15 or not have_priors:
                pr = self._gen_priors(rng, d, k)
                ops.append({"op": "guess_priors"} if pr["mode"] == "guess" else {"op": "set_priors", **pr})
                have_priors = True
            elif r < 0.40:
                ops.append({"op": "plugin", **params()})
            elif r < 0.55:
                if cls == "BGMM":
                    ops.append({"op": rng.choice(["update", "update_precisions", "update_means", "update_weights"]),
                                "z": self._gen_labels(rng, n, k)})
                else:
                    ops.append({"op": rng.choice(["_Mstep", "estimate"]), "z": self._gen_labels(rng, n, k)})
            elif r < 0.62:
                ops.append({"op": "initialize"})
            elif r < 0.70 and cls == "BGMM":
                ops.append({"op": rng.choice(["sample", "sample_and_average"]), "niter": rng.choice([1, 2])})
            elif r < 0.85:
                ops.append({"op": "probability_under_prior"})
            else:
                ops.append({"op": "likelihood"})
        if have_priors and ops[-1]["op"] != "probability_under_prior":
            ops.append({"op": "probability_under_prior"})
        xs = [[_dy(rng, -6, 6, 4) for _ in range(d)] for _ in range(n)]
        for j in range(d):
            if len({r[j] for r in xs}) == 1:
                xs[0][j] += 1.0
        return {"kind": "bhist", "cls": cls, "d": d, "k": k, "x": xs, "init": init,
                "ops": ops, "seed": rng.randrange(10 ** 6)}

    def _gen_imm(self, rng):
        d = rng.choice([1, 2, 2, 3]); n = rng.choice([4, 7, 10])
        raw = [rng.choice([0, 1, 2, 3, 5, 8, 13]) for _ in range(n)]
        return {"kind": "imm", "d": d, "x": self._gen_data(rng, n, d), "zraw": raw,
                "alpha": rng.choice([0.25, 0.5, 1.0, 2.0]), "niter": rng.choice([1, 2, 3]),
                "kfold": rng.choice([None, None, 2, 3] if n >= 7 else [None, None, 2]), "dens": rng.choice([None, 0.125, 0.5]),
                "seed": rng.randrange(10 ** 6)}

    # ------------------------------------------------------------------ helpers
    @staticmethod
    def _apply_priors(g, pr, x, a=None, t=None, perm=None):
        """set the priors of `g`; with (a, t): the priors of the affinely mapped problem; with `perm`:
        class j gets the prior of class perm[j]"""
        d = g.dim
        a = np.ones(d) if a is None else np.asarray(a, dtype=float)
        t = np.zeros(d) if t is None else np.asarray(t, dtype=float)
        if pr["mode"] == "guess":
            g.guess_priors(x * a + t)
            return
        idx = list(range(g.k)) if perm is None else list(perm)
        pm = np.array(pr["pm"], dtype=float)[idx] * a + t
        # prior_scale is a precision-like matrix: S' = S / (a aᵀ)
        ps = np.array(pr["pscale"], dtype=float).reshape(g.k, d, d)[idx] / (a[:, None] * a[None, :])
        g.set_priors(pm, np.array(pr["pw"], dtype=float)[idx], ps, np.array(pr["pdof"], dtype=float)[idx],
                     np.array(pr["ps"], dtype=float)[idx])

    @staticmethod
    def _prior_line(g):
        out = []
        for k in range(g.k):
            out.append(f"{_mat(g.prior_means[k])} {_mat(g._inv_prior_scale[k])} {fr(float(g.prior_shrinkage[k]))} "
                       f"{fr(float(g.prior_dof[k]))} {fr(float(np.asarray(g.prior_weights, dtype=float).ravel()[k % np.size(g.prior_weights)]))}")
        return " ".join(out)

    def _gibbs(self, cls, d, k, pr, x, z, a=None, t=None, perm=None):
        """one captured Gibbs update; returns the object and the captured posterior parameters"""
        g = cls(k, d)
        self._apply_priors(g, pr, x, a, t, perm)
        xx = x if a is None and t is None else x * (np.ones(d) if a is None else a) + (np.zeros(d) if t is None else t)
        with capture_draws() as rec:
            g.update_weights(z)
            ninv = len(rec["inv"])
            g.update_precisions(xx, z)
            covs = np.array(rec["inv"][ninv:ninv + k]).reshape(k, d, d)
            g.update_means(xx, z)
        return g, {"wpar": rec["D"][0], "dof": np.array([w[0] for w in rec["W"]]),
                   "scale": np.array([w[1] for w in rec["W"]]).reshape(k, d, d), "cov": covs,
                   "mean": np.array([m[0] for m in rec["N"]]).reshape(k, d), "shrink": np.array(g.shrinkage, dtype=float),
                   "nprec": np.array([m[1] for m in rec["N"]]).reshape(k, d, d)}

    # ------------------------------------------------------------------ bconj
    def _run_bconj(self, c):
        from nipy.algorithms.clustering.bgmm import BGMM, VBGMM
        d, k = c["d"], c["k"]
        x = np.array(c["x"], dtype=float).reshape(-1, d); n = x.shape[0]
        z = np.array(c["z"], dtype=np.int_)
        pr = c["priors"]
        a = np.array(c["a"], dtype=float); t = np.array(c["t"], dtype=float); p = list(c["perm"])
        snap = Snapshot(x=x, z=z)
        g, P = self._gibbs(BGMM, d, k, pr, x, z)
        pops = np.array([np.sum(z == j) for j in range(k)], dtype=float)
        line = (f"B conj hard {n} {d} {k} {fr(TINY)} {self._prior_line(g)} {_mat(x)} " + " ".join(str(int(v)) for v in z))
        impl = ("sections", [pops.tolist(), P["wpar"].tolist(), P["dof"].tolist(), P["shrink"].tolist(),
                             P["mean"].ravel().tolist(), P["cov"].ravel().tolist()], 1e-9)
        empty = bool((pops == 0).any())
        tags = ["bconj", "priors=" + pr["mode"], f"d={d}"] + (["empty-class"] if empty else [])
        fail = None
        mag = float(np.abs(P["mean"]).max() + np.abs(t).max() + 1.0)
        csc = float(np.abs(P["cov"]).max())
        # the Wishart scale handed to the draw is the inverse of the captured covariance
        for j in range(k):
            if fail is None and _err(P["scale"][j] @ P["cov"][j], np.eye(d)) > 1e-6:
                fail = f"update_precisions: class {j}: the Wishart scale is not the inverse of the posterior covariance"
            if fail is None and _err(P["nprec"][j], g.precisions[j] * g.shrinkage[j]) > 1e-12:
                fail = f"update_means: class {j} is not drawn with precision precisions·shrinkage"
        # --- translation of data and prior
        if fail is None:
            _, Pt = self._gibbs(BGMM, d, k, pr, x, z, t=t)
            if _err(Pt["cov"], P["cov"], csc) > 1e-8 or _err(Pt["mean"], P["mean"] + t, mag) > 1e-9 \
                    or _err(Pt["wpar"], P["wpar"]) > 1e-12 or _err(Pt["dof"], P["dof"]) > 1e-12:
                j = int(np.argmax(np.abs(Pt["cov"] - P["cov"]).reshape(k, -1).max(1)))
                fail = (f"BGMM.update_precisions: translating data and prior by {t.tolist()} changes the Wishart "
                        f"inverse scale of class {j} (population {int(pops[j])}): {Pt['cov'][j].tolist()} vs "
                        f"{P['cov'][j].tolist()}; means {Pt['mean'].tolist()} expected {(P['mean'] + t).tolist()}")
        # --- per-axis rescaling
        if fail is None:
            _, Pa = self._gibbs(BGMM, d, k, pr, x, z, a=a)
            want = P["cov"] * (a[:, None] * a[None, :])
            if _err(Pa["cov"], want) > 1e-8 or _err(Pa["mean"], P["mean"] * a) > 1e-9:
                fail = (f"BGMM update: rescaling the axes by {a.tolist()} does not rescale the posterior "
                        f"covariance / means accordingly")
        # --- relabelling: class j of the relabelled problem is class p[j]
        if fail is None:
            inv_p = np.argsort(p)
            z2 = inv_p[z]
            pr2 = pr
            _, Pp = self._gibbs(BGMM, d, k, pr2, x, z2, perm=p)
            if _err(Pp["cov"], P["cov"][p], csc) > 1e-12 or _err(Pp["mean"], P["mean"][p], mag) > 1e-12 \
                    or _err(Pp["wpar"], P["wpar"][p]) > 1e-12:
                fail = f"BGMM update: relabelling the classes by {p} does not permute the posterior parameters"
        # --- alternative implementation: VBGMM._Mstep at the 0/1 memberships
        if fail is None:
            vb = VBGMM(k, d)
            self._apply_priors(vb, pr, x)
            onehot = np.zeros((n, k)); onehot[np.arange(n), z] = 1
            with capture_np_inv() as rec:
                vb._Mstep(x, onehot)
            vcov = np.array(rec[-k:]).reshape(k, d, d)
            if _err(vcov, P["cov"], csc) > 1e-9:
                j = int(np.argmax(np.abs(vcov - P["cov"]).reshape(k, -1).max(1)))
                fail = (f"BGMM.update_precisions and VBGMM._Mstep disagree on the posterior Wishart inverse scale of "
                        f"class {j} (population {int(pops[j])}) for the same labelling and priors: "
                        f"{P['cov'][j].tolist()} vs {vcov[j].tolist()}")
            elif _err(vb.means, P["mean"], mag) > 1e-9 or _err(vb.dof + 1, P["dof"]) > 1e-12 \
                    or _err(vb.weights, P["wpar"]) > 1e-12 or _err(vb.shrinkage, P["shrink"]) > 1e-12:
                fail = "BGMM Gibbs update and VBGMM._Mstep disagree on means / dof / weights / shrinkage"
            tags.append("vb-agree")
        # --- conditional_posterior_proba evaluates the Wishart term at the same inverse scale
        if fail is None:
            from nipy.algorithms.clustering import bgmm as B
            seen = []
            oldw = B.wishart_eval
            B.wishart_eval = lambda n_, V, W, dV=None, dW=None, piV=None: (seen.append(np.array(piV, dtype=float)), oldw(n_, V, W, dV=dV, dW=dW, piV=piV))[1]
            try:
                cpp = float(g.conditional_posterior_proba(x, z))
            finally:
                B.wishart_eval = oldw
            if len(seen) != k or _err(np.array(seen).reshape(k, d, d), P["cov"], csc) > 1e-9:
                fail = "conditional_posterior_proba and update_precisions use different posterior Wishart inverse scales"
            elif not (cpp >= 0 and math.isfinite(cpp)):
                fail = f"conditional_posterior_proba = {cpp!r}"
        # --- the real draws (no patching): same seed, translated problem
        if fail is None:
            def draw(tt):
                gg = BGMM(k, d)
                self._apply_priors(gg, pr, x, t=tt)
                np.random.seed(c["seed"])
                gg.update(x + tt, z)
                return gg
            g0, g1 = draw(np.zeros(d)), draw(t)
            if _err(g1.precisions, g0.precisions) > 1e-7 or _err(g1.weights, g0.weights) > 1e-12:
                j = int(np.argmax(np.abs(g1.precisions - g0.precisions).reshape(k, -1).max(1)))
                fail = (f"BGMM.update with the same random draws: translating data and prior by {t.tolist()} changes "
                        f"the sampled precision of class {j} (population {int(pops[j])})")
            else:
                lk0 = g0.likelihood(x); lk1 = g1.likelihood(x + t)
                # the sampled means follow the translation up to rounding of the Cholesky factor
                if _err(g1.means, g0.means + t, mag) > 1e-6:
                    fail = "BGMM.update with the same random draws: sampled means do not follow the translation"
                else:
                    rows = lk0.min(1) > 1e-150
                    if rows.any() and np.max(np.abs(np.log(lk1[rows]) - np.log(lk0[rows]))) > 1e-3:
                        fail = "BGMM.update: memberships change when data and prior are translated"
            tags.append("seeded-draws")
        lines, impls = [line], [impl]
        # --- generate_perm and the label-switching average of bayes_factor
        from nipy.algorithms.clustering.bgmm import generate_perm
        np.random.seed(c["seed"])
        gp = generate_perm(k)
        if k <= 4:
            lines.append(f"K perm {k}")
            impls.append(("str", " | ".join(" ".join(str(int(v)) for v in r) for r in gp.tolist())))
        if fail is None and not all(sorted(r) == list(range(k)) for r in gp.tolist()):
            fail = f"generate_perm({k}) returned a row that is not a permutation"
        if fail is None and k <= 3 and pr["mode"] == "guess":
            Z = np.stack([z, z[::-1]], 1) if n > 1 else z.reshape(-1, 1)
            with np.errstate(all="ignore"):
                b0 = float(g.bayes_factor(x, Z, nperm=0))
                g2 = BGMM(k, d)
                self._apply_priors(g2, pr, x)
                g2.plugin(np.array(g.means)[p].copy(), np.array(g.precisions)[p].copy(), np.array(g.weights)[p].copy())
                b1 = float(g2.bayes_factor(x, Z, nperm=0))
            if math.isfinite(b0) and math.isfinite(b1):
                tags.append("bayes-factor")
                if abs(b1 - b0) > 1e-6 * max(1.0, abs(b0)):
                    fail = (f"BGMM.bayes_factor (exhaustive label permutations) changes from {b0!r} to {b1!r} when the "
                            f"components of the model are relabelled by {p}")
        return {"lines": lines, "impl": impls, "oracle": fail, "nontrivial": k >= 2 or d >= 2,
                "tags": tags, "mutated": snap.changed()}

    # ------------------------------------------------------------------ bvb
    def _run_bvb(self, c):
        from scipy.special import psi
        from nipy.algorithms.clustering.bgmm import VBGMM, detsh
        d, k = c["d"], c["k"]
        x = np.array(c["x"], dtype=float).reshape(-1, d); n = x.shape[0]
        like0 = np.array(c["like"], dtype=float).reshape(n, k)
        like = ((like0.T + TINY / k) / (like0.sum(1) + TINY)).T        # as `estimate` normalises
        pr = c["priors"]
        a = np.array(c["a"], dtype=float); t = np.array(c["t"], dtype=float); p = list(c["perm"])
        snap = Snapshot(x=x, like=like)

        def fit(aa=None, tt=None, perm=None, ll=like):
            vb = VBGMM(k, d)
            self._apply_priors(vb, pr, x, aa, tt, perm)
            xx = x * (np.ones(d) if aa is None else aa) + (np.zeros(d) if tt is None else tt)
            with capture_np_inv() as rec:
                vb._Mstep(xx, ll)
            return vb, np.array(rec[:k]).reshape(k, d, d), xx
        vb, cov, _ = fit()
        pops = like.sum(0)
        lines = [f"B conj soft {n} {d} {k} {fr(TINY)} {self._prior_line(vb)} {_mat(x)} {_mat(like)}"]
        impl = [("sections", [pops.tolist(), np.asarray(vb.weights).tolist(), np.asarray(vb.dof).tolist(),
                              np.asarray(vb.shrinkage).tolist(), vb.means.ravel().tolist(), cov.ravel().tolist()], 1e-9)]
        fail = None
        tags = ["bvb", "mode=" + c["mode"], "priors=" + pr["mode"]]
        ok_pop = pops.min() >= TINY
        if not (np.all(np.isfinite(vb.means)) and np.all(np.isfinite(vb.scale))):
            fail = "VBGMM._Mstep produced non-finite parameters"
        # _Estep exponents
        if fail is None:
            le = vb._Estep(x)
            spsi = psi(np.sum(vb.weights))
            comps = []
            for j in range(k):
                c0 = psi(vb.weights[j]) - spsi + 0.5 * np.log(detsh(vb.scale[j])) + 0.5 * np.log(2) * d
                for i in range(d):
                    c0 += 0.5 * psi((vb.dof[j] - i) / 2)
                comps.append(f"{fr(float(c0))} {fr(float(vb.shrinkage[j]))} {fr(float(vb.dof[j]))} {_mat(vb.means[j])} {_mat(vb.scale[j])}")
            lines.append(f"B vbll {d} {fr(float(np.log(2 * np.pi)))} {k} {' '.join(comps)} {n} {_mat(x)}")
            impl.append(("explog", le.ravel().tolist()))
            lk = vb.likelihood(x)
            if not np.array_equal(lk, le):
                fail = "VBGMM.likelihood differs from _Estep"
            popv = vb.pop(le)
            if fail is None and (popv.min() < 0 or abs(popv.sum() - n) > 1e-9 * n):
                fail = f"VBGMM.pop: memberships of the {n} samples sum to {float(popv.sum())!r}"
            zl = vb.map_label(x)
            if fail is None and np.any(le[np.arange(n), zl] < le.max(1)):
                fail = "VBGMM.map_label is not the arg-max of the likelihood rows"
        if fail is None and ok_pop:
            vt, covt, xt = fit(tt=t)
            mag = float(np.abs(vb.means).max() + np.abs(t).max() + 1)
            if _err(covt, cov, float(np.abs(cov).max())) > 1e-8 or _err(vt.means, vb.means + t, mag) > 1e-9:
                fail = f"VBGMM._Mstep is not translation equivariant (t = {t.tolist()})"
            elif not np.allclose(vt._Estep(xt), le, rtol=1e-5, atol=1e-250):
                fail = "VBGMM: translating the data changes the pseudo-likelihoods (memberships) under the refitted model"
        if fail is None and ok_pop:
            va, cova, xa = fit(aa=a)
            if _err(cova, cov * (a[:, None] * a[None, :])) > 1e-8 or _err(va.means, vb.means * a) > 1e-9:
                fail = f"VBGMM._Mstep is not equivariant under per-axis rescaling by {a.tolist()}"
            else:
                la = va._Estep(xa) * float(np.abs(np.prod(a)))
                rows = le.sum(1) > 1e-200
                if rows.any() and not np.allclose(la[rows], le[rows], rtol=1e-5, atol=1e-250):
                    fail = "VBGMM: rescaling the data changes the memberships under the refitted model"
        if fail is None:
            vp, covp, _ = fit(perm=p, ll=like[:, p])
            if _err(covp, cov[p], float(np.abs(cov).max())) > 1e-12 or _err(vp.means, vb.means[p]) > 1e-12 \
                    or _err(vp.weights, np.asarray(vb.weights)[p]) > 1e-12:
                fail = f"VBGMM._Mstep: relabelling the classes by {p} does not permute the fitted parameters"
        if fail is None:                                 # estimate / evidence on one object (history)
            v2 = VBGMM(k, d)
            self._apply_priors(v2, pr, x)
            v2._Mstep(x, like)
            try:
                v2.estimate(x, niter=c["niter"])
                l2 = v2._Estep(x)
                if not np.all(np.isfinite(l2)) or l2.min() < 0:
                    fail = "VBGMM.estimate leaves non-finite / negative pseudo-likelihoods"
                ev = v2.evidence(x)
                tags.append("evidence-finite" if np.all(np.isfinite(ev)) else "evidence-nonfinite")
            except np.linalg.LinAlgError:
                tags.append("vb-singular")
        return {"lines": lines, "impl": impl, "oracle": fail, "nontrivial": k >= 2 or d >= 2, "tags": tags,
                "mutated": snap.changed()}

    # ------------------------------------------------------------------ bhist
    @staticmethod
    def _coherent(g):
        from nipy.algorithms.clustering.bgmm import detsh
        f1 = True
        prec = getattr(g, "precisions", None)
        detp = getattr(g, "_detp", None)
        if prec is None or detp is None:
            f1 = prec is None and detp is None
        else:
            want = [detsh(prec[j]) for j in range(len(prec))]
            f1 = len(detp) == len(want) and bool(np.allclose(np.asarray(detp, dtype=float), want, rtol=1e-9))
        ps = getattr(g, "prior_scale", None)
        dets = getattr(g, "_dets", None); ips = getattr(g, "_inv_prior_scale", None)
        if ps is None or dets is None or ips is None:
            f2 = ps is None and dets is None and ips is None
        else:
            f2 = bool(np.allclose(np.asarray(dets, dtype=float), [detsh(ps[j]) for j in range(len(ps))], rtol=1e-9)
                      and np.allclose(np.asarray(ips), [np.linalg.inv(ps[j]) for j in range(len(ps))], rtol=1e-7))
        return ("1" if f1 else "0") + ("1" if f2 else "0")

    def _run_bhist(self, c):
        from nipy.algorithms.clustering import bgmm as B
        cls = getattr(B, c["cls"])
        d, k = c["d"], c["k"]
        x = np.array(c["x"], dtype=float).reshape(-1, d); n = x.shape[0]
        snap = Snapshot(x=x)
        np.random.seed(c["seed"])
        if c["init"]:
            g = cls(k, d, np.array(c["init"]["means"], dtype=float), np.array(c["init"]["prec"], dtype=float).reshape(k, d, d),
                    np.array(c["init"]["weights"], dtype=float))
        else:
            g = cls(k, d)
        names, flags = ["__init__"], [self._coherent(g)]
        fail = None
        tags = ["bhist", "cls=" + c["cls"]]
        for o in c["ops"]:
            op = o["op"]
            if op == "plugin":
                g.plugin(np.array(o["means"], dtype=float), np.array(o["prec"], dtype=float).reshape(k, d, d),
                         np.array(o["weights"], dtype=float))
            elif op == "set_priors":
                g.set_priors(np.array(o["pm"], dtype=float), np.array(o["pw"], dtype=float),
                             np.array(o["pscale"], dtype=float).reshape(k, d, d), np.array(o["pdof"], dtype=float),
                             np.array(o["ps"], dtype=float))
            elif op == "guess_priors":
                g.guess_priors(x)
            elif op in ("update", "update_precisions", "update_means"):
                getattr(g, op)(x, np.array(o["z"], dtype=np.int_))
            elif op == "update_weights":
                g.update_weights(np.array(o["z"], dtype=np.int_))
            elif op == "initialize":
                g.initialize(x)
            elif op in ("sample", "sample_and_average"):
                getattr(g, op)(x, niter=o["niter"])
            elif op == "_Mstep":
                l = np.zeros((n, k)); l[np.arange(n), np.array(o["z"])] = 1
                g._Mstep(x, l)
            elif op == "estimate":
                g.estimate(x, niter=2)
            elif op == "likelihood":
                lk = g.likelihood(x)
                if c["cls"] == "BGMM":
                    ref = gauss_density(np.asarray(g.means), np.asarray(g.precisions), g.weights, x)
                    if not np.allclose(lk, ref, rtol=1e-6, atol=1e-280):
                        fail = fail or (f"BGMM.likelihood after {names[1:]} is not the Gaussian mixture density of the "
                                        f"current parameters")
                elif np.all(np.isfinite(lk)) and lk.min() < 0:
                    fail = fail or "VBGMM.likelihood is negative"
            elif op == "probability_under_prior":
                w = np.asarray(g.weights, dtype=float)
                if c["cls"] == "BGMM" and abs(w.sum() - 1) < 1e-9 and w.min() > 0:
                    got = float(g.probability_under_prior())
                    ref = prior_density(g)
                    tags.append("pup")
                    if not (math.isfinite(got) and abs(got - ref) <= 1e-6 * max(abs(ref), 1e-300)):
                        fail = fail or (f"BGMM.probability_under_prior() = {got!r} after the history {names[1:] + [op]}, "
                                        f"but the normal-Wishart-Dirichlet prior density of the current parameters is {ref!r}")
            names.append(op)
            flags.append(self._coherent(g))
            if not (np.all(np.isfinite(np.asarray(g.means))) and np.all(np.isfinite(np.asarray(g.precisions)))):
                break
        line = f"B hist {c['cls']} " + " ".join(names)
        return {"lines": [line], "impl": [("str", " ".join(flags))], "oracle": fail, "nontrivial": len(names) > 2,
                "tags": tags + sorted({"op=" + nm for nm in names[1:]}), "mutated": snap.changed()}

    # ------------------------------------------------------------------ imm
    def _run_imm(self, c):
        from nipy.algorithms.clustering.imm import IMM
        d = c["d"]
        x = np.array(c["x"], dtype=float).reshape(-1, d); n = x.shape[0]
        snap = Snapshot(x=x)
        fail = None
        tags = ["imm"]
        ig = IMM(c["alpha"], d)
        flags = [self._coherent(ig)[0]]
        ig.set_priors(x)
        flags.append(self._coherent(ig)[0])
        if c["dens"] is not None:
            ig.set_constant_densities(prior_dens=c["dens"])
        z = ig.reduce(np.array(c["zraw"], dtype=np.int_))
        K = int(ig.k)
        uniq = sorted(set(c["zraw"]))
        if z.tolist() != [uniq.index(v) for v in c["zraw"]] or K != len(uniq):
            fail = f"IMM.reduce({c['zraw']}) = {z.tolist()}, k = {K}: not the rank relabelling without empty classes"
        ig.update_weights(z)
        pops = [int(np.sum(z == j)) for j in range(K)]
        lines = [f"B immw {K} {fr(c['alpha'])} " + " ".join(str(v) for v in pops)]
        impl = [("rats", np.asarray(ig.weights, dtype=float).tolist(), 1e-12, 0.0)]
        w = np.asarray(ig.weights, dtype=float)
        if fail is None and (w.min() < 0 or abs(w.sum() - 1) > 1e-12 or w.size != K + 1):
            fail = f"IMM.update_weights: weights {w.tolist()} are not on the simplex of the k+1 classes"
        crp = np.array(pops + [0], dtype=float) + c["alpha"]
        if fail is None and not np.allclose(w, crp / crp.sum(), rtol=1e-12):
            fail = (f"IMM.update_weights: weights {w.tolist()} are not proportional to (population + alpha) for the "
                    f"occupied classes and alpha for a new class ({(crp / crp.sum()).tolist()})")
        names = ["__init__", "set_priors"]
        np.random.seed(c["seed"])
        with np.errstate(all="ignore"):
            ig.update(x, z)
            names.append("update"); flags.append(self._coherent(ig)[0])
            lk = ig.likelihood(x)
            names.append("likelihood"); flags.append(self._coherent(ig)[0])
            if fail is None and (lk.shape != (n, K + 1) or not np.all(np.isfinite(lk)) or lk.min() < 0):
                fail = "IMM.likelihood is not a finite non-negative (n, k+1) array"
            if fail is None:
                ref = gauss_density(ig.means, ig.precisions, w[:K], x)
                if not np.allclose(lk[:, :K], ref, rtol=1e-6, atol=1e-280):
                    fail = "IMM.likelihood: class columns are not the weighted Gaussian densities of the current parameters"
                pl = ig.likelihood_under_the_prior(x) * w[K]
                if fail is None and not np.allclose(lk[:, K], pl, rtol=1e-9):
                    fail = "IMM.likelihood: last column is not weight · likelihood under the prior"
            if fail is None:
                al = ig.sample(x, niter=c["niter"], kfold=c["kfold"])
                names.append("sample"); flags.append(self._coherent(ig)[0])
                if not (np.all(np.isfinite(al)) and al.min() >= 0):
                    fail = "IMM.sample returned a negative / non-finite likelihood"
                w2 = np.asarray(ig.weights, dtype=float)
                if fail is None and (abs(w2.sum() - 1) > 1e-9 or w2.size != ig.k + 1):
                    fail = "IMM.sample leaves weights off the simplex"
                tags.append("kfold" if c["kfold"] else "simple")
        lines.append("B hist IMM " + " ".join(names))
        impl.append(("hist1", " ".join(flags)))
        # co_labelling and the mixed model with a null class
        from nipy.algorithms.clustering.imm import MixedIMM, co_labelling
        zl = np.array(c["zraw"], dtype=np.int_) - 1          # -1 = null class
        kmax = int(zl.max()) + 1
        cl = np.asarray(co_labelling(zl, kmax, -1).todense()).astype(int)
        lines.append(f"K colab -1 {kmax} {n} " + " ".join(str(int(v)) for v in zl))
        impl.append(("str", " ".join(str(int(v)) for v in cl.ravel())))
        if fail is None:
            np.random.seed(c["seed"])
            mi = MixedIMM(c["alpha"], d)
            mi.set_priors(x)
            mi.set_constant_densities(null_dens=0.25, prior_dens=c["dens"] if c["dens"] is not None else 0.125)
            ncp = np.array([0.125, 0.5, 0.875, 0.25] * n)[:n]
            with np.errstate(all="ignore"):
                like, pproba, co = mi.sample(x, ncp, niter=c["niter"], init=True, kfold=c["kfold"], co_clustering=True)
            co = np.asarray(co.todense())
            if not (np.all(np.isfinite(like)) and like.min() >= 0):
                fail = "MixedIMM.sample: negative / non-finite likelihood"
            elif pproba.min() < 0 or pproba.max() > 1:
                fail = f"MixedIMM.sample: posterior null probabilities {pproba.tolist()} outside [0, 1]"
            elif co.min() < 0 or co.max() > 1 + 1e-12 or not np.allclose(co, co.T):
                fail = "MixedIMM.sample: co-labelling frequencies are not a symmetric matrix in [0, 1]"
            w3 = np.asarray(mi.weights, dtype=float)
            if fail is None and (abs(w3.sum() - 1) > 1e-9 or w3.min() < 0):
                fail = "MixedIMM.sample leaves weights off the simplex"
            if fail is None and self._coherent(mi)[0] != "1":
                fail = "MixedIMM.sample leaves a stale determinant cache"
            tags.append("mixed")
        return {"lines": lines, "impl": impl, "oracle": fail, "nontrivial": K >= 2, "tags": tags,
                "mutated": snap.changed()}

    # ------------------------------------------------------------------ shrinking
    def shrink_bayes(self, case):
        k = case["kind"]
        if k in ("bconj", "bvb"):
            K, d = case["k"], case["d"]
            used = set(case["z"]) if k == "bconj" else set(range(K))
            if k == "bconj" and K > 1 and (K - 1) not in used:          # drop the last class when nobody is in it
                c = dict(case); c["k"] = K - 1; c["perm"] = [v for v in case["perm"] if v < K - 1]
                if case["priors"]["mode"] == "set":
                    c["priors"] = {kk: (vv[:K - 1] if isinstance(vv, list) else vv) for kk, vv in case["priors"].items()}
                yield c
            if k == "bconj" and K > 1 and (K - 1) in used and len(used) < K:   # move the last class into a free label
                free = min(v for v in range(K) if v not in used)
                c = dict(case); c["z"] = [free if v == K - 1 else v for v in case["z"]]
                yield c
            if d > 1:                                                     # drop the last axis
                c = dict(case); c["d"] = d - 1
                c["x"] = [r[:-1] for r in case["x"]]; c["t"] = case["t"][:-1]; c["a"] = case["a"][:-1]
                if case["priors"]["mode"] == "set":
                    pr = dict(case["priors"])
                    pr["pm"] = [r[:-1] for r in pr["pm"]]
                    pr["pscale"] = [[row[:-1] for row in m[:-1]] for m in pr["pscale"]]
                    c["priors"] = pr
                if all(len({r[j] for r in c["x"]}) > 1 for j in range(d - 1)):
                    yield c
            if case["priors"]["mode"] == "set":
                c = dict(case); c["priors"] = {"mode": "guess"}
                yield c
        if k in ("bconj", "bvb") and len(case["x"]) > 2:
            key = "z" if k == "bconj" else "like"
            for i in range(len(case["x"])):
                c = dict(case)
                c["x"] = case["x"][:i] + case["x"][i + 1:]
                c[key] = case[key][:i] + case[key][i + 1:]
                if all(len({r[j] for r in c["x"]}) > 1 for j in range(case["d"])):
                    yield c
        if k == "bhist":
            ops = case["ops"]
            for i in range(len(ops)):
                rest = ops[:i] + ops[i + 1:]
                # keep histories valid: priors must still be set before anything that needs them
                need = {"update", "update_precisions", "update_means", "update_weights", "initialize", "sample",
                        "sample_and_average", "_Mstep", "estimate", "probability_under_prior"}
                ok, have = True, False
                for o in rest:
                    if o["op"] in ("set_priors", "guess_priors"):
                        have = True
                    elif o["op"] in need and not have:
                        ok = False
                if ok and rest:
                    c = dict(case); c["ops"] = rest
                    yield c
            if case["init"]:
                c = dict(case); c["init"] = None
                yield c
